import PyGam.Model.Vec
import PyGam.Model.Links
import PyGam.Model.Dists
/-!
# PyGam.Model.Sampling — the deterministic pipeline of `GAM.sample` (Mathlib-free)

Mirrors `pygam/pygam.py`: `sample`, `_sample_coef`, `_bootstrap_samples_of_smoothing`,
`_simulate_coef_from_bootstraps`, and `pygam/utils.py: load_diagonal`.  The random generators are **oracle
arguments** (`Gens`): the model says *with which arguments* they are called and *where their results go*.

```
sample(X, y, quantity, sample_at_X, weights, n_draws, n_bootstraps, objective):
  quantity ∉ {'mu','coef','y'}                      → ValueError
  _sample_coef:  not fitted                         → AttributeError
                 n_bootstraps < 1, n_draws < 1      → ValueError
                 check_y / check_X / check_X_y / weights (property C11; here the flag `dataOk`)
    bootstraps = [(coef_, load_diagonal(cov, sqrt(eps) * diag(cov)))] ++ (n_bootstraps - 1 refits, loaded alike)
    idx        = np.random.choice(np.arange(len(bootstraps)), size=n_draws, replace=True)
    for b in order of first appearance in idx:
        coef_draws[positions of b] = np.random.multivariate_normal(coef_b, cov_b, size=#positions of b)
  quantity == 'coef' → coef_draws                                            (n_draws × m)
  mu = link.mu(modelmat(sample_at_X or X) · coef_drawsᵀ)ᵀ                    (n_draws × rows)
  quantity == 'mu' → mu;  else distribution.sample(mu)                       (n_draws × rows)
```
-/
namespace PyGam
variable {α : Type}

/-- exception classes raised by `sample` -/
inductive SampleErr
  | valueError | attributeError | typeError
  deriving DecidableEq, Repr

/-- the admissible values of `quantity` -/
inductive Quantity
  | coef | mu | y
  deriving DecidableEq, Repr

/-- `quantity not in {'mu', 'coef', 'y'}` ↦ `none` -/
def Quantity.ofName? : String → Option Quantity
  | "coef" => some .coef
  | "mu" => some .mu
  | "y" => some .y
  | _ => none

/-- the argument checks of `sample` / `_sample_coef`, in the order of the code; `none` = all passed.
`dataOk` stands for `check_y`, `check_X`, `check_X_y` and the weights checks (property C11). -/
def validateSample (quantity : Option Quantity) (fitted : Bool) (nBoot nDraws : Int) (dataOk : Bool) :
    Option SampleErr :=
  if quantity.isNone then some .valueError
  else if !fitted then some .attributeError
  else if nBoot < 1 then some .valueError
  else if nDraws < 1 then some .valueError
  else if !dataOk then some .valueError
  else none

/-- one bootstrap sample of the smoothing: the mean and covariance later handed to the MVN generator -/
structure Boot (α : Type) where
  coef : Nat → α
  cov : Nat → Nat → α

/-- the random generators, as oracles -/
structure Gens (α : Type) where
  /-- `np.random.choice(np.arange(k), size=n, replace=True)` -/
  choice : Nat → Nat → List Nat
  /-- `np.random.multivariate_normal(mean, cov, size)`: call number (0-based), `(mean, cov)`, `size` ↦ entry
  `(p, j)` of the returned `size × m` array -/
  mvn : Nat → Boot α → Nat → Nat → Nat → α
  /-- the family's NumPy sampler at entry `(d, i)` of the `n_draws × rows` array of means, with the arguments of
  that entry -/
  resp : Nat → Nat → SamplerCall α → α

section load
variable [Zero α] [One α] [Add α] [Mul α] [Div α]

/-- `2^n` by doubling (exact in every instance) -/
def pow2 : Nat → α
  | 0 => 1
  | n+1 => pow2 n + pow2 n

/-- `np.sqrt(np.finfo(np.float64).eps)` = `sqrt(2^-52)` = `2^-26` -/
def sqrtEpsMach : α := 1 / pow2 26

/-- `load_diagonal(cov, load)` with a scalar `load`: `cov + np.eye(n) * load` -/
def loadDiagonal (load : α) (cov : Nat → Nat → α) : Nat → Nat → α :=
  fun i j => cov i j + ident i j * load

/-- `load_diagonal(cov, load)` with a vector `load` (NumPy broadcasts it along the columns of `np.eye(n)`):
entry `(i, j)` is `cov[i, j] + eye[i, j] * load[j]` -/
def loadDiagonalVec (load : Nat → α) (cov : Nat → Nat → α) : Nat → Nat → α :=
  fun i j => cov i j + ident i j * load j

/-- `np.sqrt(EPS) * np.diag(cov)`: the loading of `_bootstrap_samples_of_smoothing`, relative to the variance of each
coefficient -/
def relLoad (cov : Nat → Nat → α) : Nat → α := fun j => sqrtEpsMach * cov j j

/-- `load_diagonal(cov, load=np.sqrt(EPS) * np.diag(cov))` = `cov + √ε · diag(cov)`: the covariance handed to the MVN
generator -/
def loadedCov (cov : Nat → Nat → α) : Nat → Nat → α := loadDiagonalVec (relLoad cov) cov

/-- `coef_bootstraps`, `cov_bootstraps` of `_bootstrap_samples_of_smoothing`: the fitted model first, then the
`n_bootstraps - 1` refits (`extra`, results of `gridsearch` + `fit` on simulated responses, with their covariance
loaded in the same way: oracle input) -/
def bootstraps (coef : Nat → α) (cov : Nat → Nat → α) (extra : List (Boot α)) : List (Boot α) :=
  ⟨coef, loadedCov cov⟩ :: extra

end load

/-- all entries present ↦ the list of values, else `none` -/
def allSome {β : Type} : List (Option β) → Option (List β)
  | [] => some []
  | none :: _ => none
  | some a :: l => (allSome l).map (a :: ·)

/-- distinct values in order of first appearance (insertion order of the `defaultdict` in
`_simulate_coef_from_bootstraps`) -/
def firstAppearance : List Nat → List Nat
  | [] => []
  | b :: l => b :: (firstAppearance l).filter (· != b)

/-- number of draws assigned to bootstrap `b` -/
def drawCount (idx : List Nat) (b : Nat) : Nat := (idx.filter (· == b)).length

/-- the MVN calls made, in order: `(bootstrap index, size)` -/
def mvnCalls (idx : List Nat) : List (Nat × Nat) := (firstAppearance idx).map (fun b => (b, drawCount idx b))

section draws
variable [Zero α]

/-- row `d` of `coef_draws`: it comes from the MVN call of bootstrap `b = idx[d]` (call number = rank of `b` in order
of first appearance; `size` = number of draws assigned to `b`), at the position `p` of `d` among the draws assigned
to `b` -/
def coefDraw (g : Gens α) (boots : List (Boot α)) (idx : List Nat) (d : Nat) : Nat → α :=
  let b := idx.getD d 0
  let c := (firstAppearance idx).idxOf b
  let p := ((idx.take d).filter (· == b)).length
  match boots[b]? with
  | some bt => g.mvn c bt (drawCount idx b) p
  | none => fun _ => 0      -- IndexError in Python; excluded by the contract of `choice` (values `< k`)

/-- `_simulate_coef_from_bootstraps(n_draws, coef_bootstraps, cov_bootstraps)` -/
def coefDraws (g : Gens α) (boots : List (Boot α)) (nDraws : Nat) : List (Nat → α) :=
  let idx := g.choice boots.length nDraws
  (List.range nDraws).map (coefDraw g boots idx)

end draws

/-- what `sample` reads from the fitted model and its arguments -/
structure SampleIn (α : Type) where
  /-- `len(coef_)` -/
  m : Nat
  coef : Nat → α
  /-- `statistics_['cov']` -/
  cov : Nat → Nat → α
  link : LinkKind
  fam : Family
  /-- `distribution.levels` -/
  levels : α
  /-- `distribution.scale` (after a fit: the known or the estimated scale) -/
  scale : Option α
  /-- rows of `_modelmat(X)` -/
  rowsX : List (Nat → α)
  /-- rows of `_modelmat(sample_at_X)` when `sample_at_X is not None` -/
  rowsAt : Option (List (Nat → α))
  /-- the `(coef_, cov)` of the `n_bootstraps - 1` refits (empty for `n_bootstraps = 1`) -/
  extra : List (Boot α)

section pipeline
variable [Zero α] [One α] [Add α] [Sub α] [Mul α] [Div α] [Neg α] [LE α] [DecidableLE α]
  [ExpLog α] [HasLogSqrt α]

/-- `sample_at_X = X if sample_at_X is None` -/
def SampleIn.rows (s : SampleIn α) : List (Nat → α) := s.rowsAt.getD s.rowsX

/-- entry `(d, i)` of `link.mu(modelmat.dot(coef_draws.T)).T` -/
def muDraw (s : SampleIn α) (draw row : Nat → α) : α :=
  linkInv s.link s.levels (dot s.m row draw)

/-- the `n_draws × rows` array of simulated means -/
def muDraws (s : SampleIn α) (draws : List (Nat → α)) : List (List α) :=
  draws.map (fun draw => s.rows.map (muDraw s draw))

/-- `distribution.sample(mu)` entry by entry: the generator of the family with `samplerParams`;
`none` = `TypeError` (gamma / inverse gaussian without a scale) -/
def yDraws (g : Gens α) (s : SampleIn α) (mus : List (List α)) : Option (List (List α)) :=
  allSome (mus.mapIdx (fun d row =>
    allSome (row.mapIdx (fun i mu => (samplerParams s.fam s.scale s.levels mu).map (g.resp d i)))))

/-- `GAM.sample(X, y, quantity, sample_at_X, weights, n_draws, n_bootstraps)` -/
def sample (g : Gens α) (s : SampleIn α) (quantity : Option Quantity) (fitted : Bool) (nBoot nDraws : Int)
    (dataOk : Bool) : Except SampleErr (List (List α)) :=
  match validateSample quantity fitted nBoot nDraws dataOk with
  | some e => .error e
  | none =>
      let draws := coefDraws g (bootstraps s.coef s.cov s.extra) nDraws.toNat
      match quantity with
      | some .coef | none => .ok (draws.map (vecToList s.m))
      | some .mu => .ok (muDraws s draws)
      | some .y =>
          match yDraws g s (muDraws s draws) with
          | some v => .ok v
          | none => .error .typeError

end pipeline

/-! ## histories of calls on one model object

`GAM.sample` keeps nothing between calls: everything it reads from the object (`coef_`, `statistics_['cov']`, link,
distribution, scale — written by `fit`) is in `FitRec`; everything else comes with the call (`SampleCall`: the generator
results, the arguments, the model-matrix rows at the contents `X` / `sample_at_X` have **when the call is made**).
A history is a list of public operations on one object; only `fit` changes the state. -/

/-- what `fit` leaves on the object and `sample` reads -/
structure FitRec (α : Type) where
  m : Nat
  coef : Nat → α
  cov : Nat → Nat → α
  link : LinkKind
  fam : Family
  levels : α
  scale : Option α

/-- one `sample(...)` call: generator results, arguments, and the rows of the model matrix at the current contents of
the arrays passed -/
structure SampleCall (α : Type) where
  g : Gens α
  quantity : Option Quantity
  nBoot : Int
  nDraws : Int
  dataOk : Bool
  rowsX : List (Nat → α)
  rowsAt : Option (List (Nat → α))
  extra : List (Boot α)

/-- public operations of a history -/
inductive HistOp (α : Type)
  | fit (r : FitRec α)
  | sample (c : SampleCall α)
  /-- `predict(X)` (and every other read-only method): no effect on what `sample` reads -/
  | predict (rows : List (Nat → α))

section history
variable [Zero α] [One α] [Add α] [Sub α] [Mul α] [Div α] [Neg α] [LE α] [DecidableLE α]
  [ExpLog α] [HasLogSqrt α]

/-- the input record of one call in a given object state (`none` = never fitted: the record is irrelevant, the call
is rejected with `AttributeError` unless the quantity is unknown) -/
def SampleCall.input (c : SampleCall α) (st : Option (FitRec α)) : SampleIn α :=
  match st with
  | some r => { m := r.m, coef := r.coef, cov := r.cov, link := r.link, fam := r.fam, levels := r.levels,
                scale := r.scale, rowsX := c.rowsX, rowsAt := c.rowsAt, extra := c.extra }
  | none => { m := 0, coef := fun _ => 0, cov := fun _ _ => 0, link := .identity, fam := .normal, levels := 1,
              scale := none, rowsX := c.rowsX, rowsAt := c.rowsAt, extra := c.extra }

/-- the result of one call in a given object state -/
def SampleCall.result (c : SampleCall α) (st : Option (FitRec α)) : Except SampleErr (List (List α)) :=
  sample c.g (c.input st) c.quantity st.isSome c.nBoot c.nDraws c.dataOk

/-- the object state after a history: the record of the latest `fit` -/
def stateAfter (st : Option (FitRec α)) : List (HistOp α) → Option (FitRec α)
  | [] => st
  | .fit r :: ops => stateAfter (some r) ops
  | .sample _ :: ops => stateAfter st ops
  | .predict _ :: ops => stateAfter st ops

/-- the results of the `sample` calls of a history, in order -/
def runHistory (st : Option (FitRec α)) : List (HistOp α) → List (Except SampleErr (List (List α)))
  | [] => []
  | .fit r :: ops => runHistory (some r) ops
  | .sample c :: ops => c.result st :: runHistory st ops
  | .predict _ :: ops => runHistory st ops

end history
end PyGam
