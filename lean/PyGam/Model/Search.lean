/-!
# PyGam.Model.Search — `utils.combine` and `GAM.gridsearch` (Mathlib-free)

Mirrors `/repo/pygam/utils.py: combine` and `/repo/pygam/pygam.py: GAM.gridsearch` as they are now:

* `combine` — the recursion of `utils.combine(*args)`: peel off the *last* argument, recurse on
  the rest, append every node of the last argument to every leaf (so the last grid varies
  fastest); a single argument gives the singletons `[[a] for a in args[0]]`;
* `normaliseGrid` — what `gridsearch` does with one `param=grid` keyword: reject non-iterables and
  grids of length ≤ 1; a grid without iterable entries is kept as it is (every scalar is later
  applied to all terms alike by the plural setters); otherwise every entry goes through
  `np.atleast_1d`, a 2-D `ndarray` keeps its rows, anything else must have exactly `target_len`
  sub-grids and is replaced by their Cartesian product; finally every row must have `target_len`
  entries;
* `resolveObjective` — objective validation and the `'auto'` rule;
* `plan` — objective, default grid (`lam = logspace(-3, 3, 11)` when no keyword is given),
  admissibility of the parameter names, normalisation of every grid in keyword order, and the
  candidate list `combine(*grids)`;
* `loop` — the candidate loop as a fold: `ValueError` candidates are skipped, the others are
  appended to `models`/`scores`, the best is tracked with a strict `<` starting from
  `(self, self.statistics_[objective])` for a fitted model and from `(None, inf)` otherwise;
* `dataCheck` — the one data check that depends on the state of the model: a *fitted* model rejects an
  `X` whose number of columns is not `statistics_['m_features']`;
* `finish` / `gridsearch` — "No models were fitted" ⇒ `self` is returned unchanged; `keep_best` copies
  the best model's parameters into `self` when there is a best model (`best_model is not None`; when
  no score was `< inf` `self` is left alone); `return_scores` selects what is returned.

Fitting itself is *not* modelled here: the outcome of fitting candidate number `i` is a parameter
`fit i : Option (M × α)` (`none` = the candidate raised `ValueError`), `M` being whatever a model
"contains" (coefficients, statistics, hyper-parameters).  Because the outcome is indexed by
position, any dependence on the history (warm starts) is allowed for.
-/
namespace PyGam.Search

variable {α β M : Type}

/-! ## `utils.combine` -/

/-- `combine(*args)` with the argument list given in *reverse* order (`args[-1]` first).
The empty argument list raises `IndexError` in Python (`args[0]`); it is never produced by
`gridsearch`, the model returns `[]` there and the driver reports `IndexError` itself. -/
def combineRev : List (List β) → List (List β)
  | [] => []
  | [g] => g.map (fun a => [a])
  | g :: g' :: rest =>
      (combineRev (g' :: rest)).flatMap (fun leaf => g.map (fun node => leaf ++ [node]))

/-- `utils.combine(*args)` -/
def combine (args : List (List β)) : List (List β) := combineRev args.reverse

/-! ## grids -/

/-- an element of a grid, or a candidate value of one parameter: a scalar or an iterable of scalars -/
inductive GVal (α : Type) where
  | scalar (a : α)
  | vec (l : List α)
  deriving Repr, DecidableEq

/-- `isiterable(g)` -/
def GVal.isIterable : GVal α → Bool
  | .scalar _ => false
  | .vec _ => true

/-- `np.atleast_1d(g)` -/
def GVal.atleast1d : GVal α → List α
  | .scalar a => [a]
  | .vec l => l

/-- what a candidate value becomes on a parameter with `targetLen` slots: the plural setters apply a
scalar to every slot alike, an iterable is taken slot by slot -/
def GVal.expand (targetLen : Nat) : GVal α → List α
  | .scalar a => List.replicate targetLen a
  | .vec l => l

/-- a `param=grid` keyword value: something that is not iterable (or a string), or a sequence of
entries together with the flag `isinstance(grid, np.ndarray) and grid.ndim == 2` -/
inductive GridSpec (α : Type) where
  | notIterable
  | seq (nd2 : Bool) (entries : List (GVal α))
  deriving Repr

/-- the exceptions of `gridsearch`; all are `ValueError` -/
inductive SearchErr where
  | badObjective      -- objective not in ['auto','GCV','UBRE','AIC','AICc']
  | gcvKnownScale     -- 'GCV should be used for models with unknown scale'
  | ubreUnknownScale  -- 'UBRE should be used for models with known scale'
  | unknownParam      -- 'unknown parameter: …'
  | gridTooShort      -- not (isiterable(grid) and len(grid) > 1)
  | gridColumns       -- '… grid should have … columns'
  | badData           -- check_X(X, n_feats=statistics_['m_features']) on a fitted model
  deriving Repr, DecidableEq

def SearchErr.pyClass : SearchErr → String
  | _ => "ValueError"

/-- `check_X(X, n_feats=self.statistics_['m_features'] if self._is_fitted else None)`: only a fitted model
knows how many columns `X` must have -/
def dataCheck (fitted : Bool) (mFeatures nCols : Nat) : Except SearchErr Unit :=
  if fitted && nCols != mFeatures then .error .badData else .ok ()

/-- the per-keyword block of `gridsearch` ("prepare grid") -/
def normaliseGrid (targetLen : Nat) : GridSpec α → Except SearchErr (List (GVal α))
  | .notIterable => .error .gridTooShort
  | .seq nd2 entries =>
    if entries.length ≤ 1 then .error .gridTooShort
    else if entries.any GVal.isIterable then
      let cartesian := !nd2
      let grid := entries.map GVal.atleast1d
      if cartesian && grid.length != targetLen then .error .gridColumns
      else
        let grid := if cartesian then combine grid else grid
        if grid.all (fun sub => sub.length == targetLen) then .ok (grid.map GVal.vec)
        else .error .gridColumns
    else .ok entries

/-! ## objective -/

inductive Objective where
  | auto | GCV | UBRE | AIC | AICc
  | other   -- any other value
  deriving Repr, DecidableEq

/-- "validate objective" and "check objective" of `gridsearch`; `known` is `distribution._known_scale` -/
def resolveObjective (known : Bool) : Objective → Except SearchErr Objective
  | .other => .error .badObjective
  | .GCV => if known then .error .gcvKnownScale else .ok .GCV
  | .UBRE => if known then .ok .UBRE else .error .ubreUnknownScale
  | .auto => .ok (if known then .UBRE else .GCV)
  | .AIC => .ok .AIC
  | .AICc => .ok .AICc

/-! ## the plan: objective, parameter names, candidates -/

structure ParamGrid (α : Type) where
  name : String
  targetLen : Nat      -- len(flatten(getattr(self, name)))
  spec : GridSpec α
  deriving Repr

structure Plan (α : Type) where
  objective : Objective
  params : List String
  candidates : List (List (GVal α))   -- one value per parameter, in `params` order
  deriving Repr

/-- "validate params": the keywords in order; the first offending one raises -/
def normaliseAll (admissible : List String) : List (ParamGrid α) → Except SearchErr (List (List (GVal α)))
  | [] => .ok []
  | pg :: rest =>
    if admissible.contains pg.name then
      match normaliseGrid pg.targetLen pg.spec with
      | .error e => .error e
      | .ok g =>
        match normaliseAll admissible rest with
        | .error e => .error e
        | .ok gs => .ok (g :: gs)
    else .error .unknownParam

/-- everything `gridsearch` decides before the first fit. `dflt` is the keyword used when none is
given (`lam = np.logspace(-3, 3, 11)`). -/
def plan (known : Bool) (obj : Objective) (admissible : List String) (dflt : ParamGrid α)
    (pgs : List (ParamGrid α)) : Except SearchErr (Plan α) :=
  match resolveObjective known obj with
  | .error e => .error e
  | .ok o =>
    let pgs := if pgs.isEmpty then [dflt] else pgs
    match normaliseAll admissible pgs with
    | .error e => .error e
    | .ok grids => .ok { objective := o, params := pgs.map (·.name), candidates := combine grids }

/-! ## the candidate loop -/

/-- a model object: `self`, or the deep copy made for candidate number `i` -/
inductive Ref where
  | self
  | cand (i : Nat)
  deriving Repr, DecidableEq

structure LoopState (α : Type) where
  models : List (Ref × α)   -- zip(models, scores), in evaluation order
  best : Option Ref         -- best_model (None ↦ none)
  bestScore : α             -- best_score

/-- state before the loop: `selfScore = some s` iff the model is already fitted
(`s = self.statistics_[objective]`) -/
def initState (inf : α) : Option α → LoopState α
  | none => { models := [], best := none, bestScore := inf }
  | some s => { models := [(.self, s)], best := some .self, bestScore := s }

/-- one pass of the loop body for candidate `i` whose fit gave `out` (`none` = `ValueError`, skipped) -/
def step [LT α] [DecidableLT α] (st : LoopState α) (i : Nat) : Option α → LoopState α
  | none => st
  | some s =>
    if s < st.bestScore then
      { models := st.models ++ [(.cand i, s)], best := some (.cand i), bestScore := s }
    else
      { st with models := st.models ++ [(.cand i, s)] }

def loopFrom [LT α] [DecidableLT α] (st : LoopState α) (i : Nat) : List (Option α) → LoopState α
  | [] => st
  | o :: os => loopFrom (step st i o) (i + 1) os

/-- the whole loop over the candidate outcomes, in candidate order -/
def loop [LT α] [DecidableLT α] (inf : α) (selfScore : Option α) (outs : List (Option α)) : LoopState α :=
  loopFrom (initState inf selfScore) 0 outs

/-! ## after the loop -/

/-- what `gridsearch` returns -/
inductive Returned (α : Type) where
  | self
  | scores (l : List (Ref × α))    -- OrderedDict(zip(models, scores))
  deriving Repr

structure Outcome (M α : Type) where
  selfAfter : M          -- what `self` contains after the call
  best : Option Ref
  nModels : Nat          -- len(models)
  returned : Returned α

/-- what a model object contains (`fitM i` = content of the fitted copy for candidate `i`) -/
def content (selfM : M) (fitM : Nat → Option M) : Ref → M
  | .self => selfM
  | .cand i => (fitM i).getD selfM

def finish (keepBest returnScores : Bool) (selfM : M) (fitM : Nat → Option M) (st : LoopState α) :
    Except SearchErr (Outcome M α) :=
  if st.models.isEmpty then
    .ok { selfAfter := selfM, best := st.best, nModels := 0, returned := .self }
  else
    let ret : Returned α := if returnScores then .scores st.models else .self
    if keepBest then
      match st.best with
      | none => .ok { selfAfter := selfM, best := none, nModels := st.models.length, returned := ret }
      | some r => .ok { selfAfter := content selfM fitM r, best := some r, nModels := st.models.length, returned := ret }
    else
      .ok { selfAfter := selfM, best := st.best, nModels := st.models.length, returned := ret }

/-- all of `gridsearch` after data validation.  `selfScore objective` is `some` iff `self` is fitted;
`fit i` is the outcome of fitting candidate number `i` (content and score under the resolved
objective), `none` when it raises `ValueError`. -/
def gridsearch [LT α] [DecidableLT α] (inf : α) (known : Bool) (obj : Objective) (admissible : List String)
    (dflt : ParamGrid β) (pgs : List (ParamGrid β)) (keepBest returnScores : Bool)
    (selfM : M) (selfScore : Objective → Option α)
    (fit : Objective → Nat → List (GVal β) → Option (M × α)) : Except SearchErr (Plan β × Outcome M α) :=
  match plan known obj admissible dflt pgs with
  | .error e => .error e
  | .ok p =>
    let outs := p.candidates.zipIdx.map (fun (c, i) => fit p.objective i c)
    let st := loop inf (selfScore p.objective) (outs.map (·.map Prod.snd))
    let fitM : Nat → Option M := fun i => (outs.getD i none).map Prod.fst
    match finish keepBest returnScores selfM fitM st with
    | .error e => .error e
    | .ok o => .ok (p, o)

end PyGam.Search
