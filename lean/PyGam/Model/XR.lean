import PyGam.Model.Links
/-!
# PyGam.Model.XR — IEEE-754 special-value algebra (Mathlib-free)

`XR α` = finite values of `α` ∪ {+inf, −inf, nan} with the IEEE rules NumPy follows for
`+ - * /`, negation, `log`, `exp`, `sqrt`, `isnan`, `isfinite` and ordered comparisons.  It is what the
validation code of pyGAM (`utils.check_array`, `check_y`, `get_link_domain`) observes: those functions only
ask *whether a value is NaN / finite*, never how it was rounded.

What is modelled: the special-value table.  What is not: rounding, overflow/underflow of finite results
(`fin a * fin b` is the exact product) and the sign of zero (`fin 0` behaves like `+0.0`: `1 / fin 0 = +inf`,
`log (fin 0) = −inf`).

`XR α` carries the same notation classes as `α`, so the generic model definitions (e.g.
`PyGam.linkFn`) run on it unchanged: `linkFn k (fin levels) y : XR α`.

The driver instantiates `α := Rat` (exact); the decision theorems are proved for every ordered field and
*every* `ExpLog` instance on it, i.e. they do not depend on the finite values `log`/`exp`/`sqrt` return.
-/
namespace PyGam

inductive XR (α : Type)
  | fin (a : α)
  | posInf
  | negInf
  | nan
  deriving DecidableEq, Repr, Inhabited

namespace XR
variable {α : Type}

/-- `np.isnan` -/
def isNaN : XR α → Bool
  | nan => true
  | _ => false

/-- `np.isfinite` -/
def isFinite : XR α → Bool
  | fin _ => true
  | _ => false

/-- `np.isinf` -/
def isInf : XR α → Bool
  | posInf => true
  | negInf => true
  | _ => false

def neg [Neg α] : XR α → XR α
  | fin a => fin (-a)
  | posInf => negInf
  | negInf => posInf
  | nan => nan

/-- IEEE addition: `inf + (−inf) = nan`, NaN propagates -/
def add [Add α] : XR α → XR α → XR α
  | nan, _ => nan
  | _, nan => nan
  | fin a, fin b => fin (a + b)
  | fin _, posInf => posInf
  | fin _, negInf => negInf
  | posInf, negInf => nan
  | posInf, _ => posInf
  | negInf, posInf => nan
  | negInf, _ => negInf

/-- IEEE subtraction: `inf − inf = nan`, NaN propagates -/
def sub [Sub α] : XR α → XR α → XR α
  | nan, _ => nan
  | _, nan => nan
  | fin a, fin b => fin (a - b)
  | fin _, posInf => negInf
  | fin _, negInf => posInf
  | posInf, posInf => nan
  | posInf, _ => posInf
  | negInf, negInf => nan
  | negInf, _ => negInf

section ordered
variable [Zero α] [LT α] [DecidableLT α]

/-- sign-directed infinity: `+inf` scaled by a finite `a` (`a = 0 ↦ nan`, the `0 * inf` rule) -/
def infTimes (a : α) : XR α :=
  if 0 < a then posInf else if a < 0 then negInf else nan

/-- IEEE multiplication: `0 * inf = nan` -/
def mul [Mul α] : XR α → XR α → XR α
  | nan, _ => nan
  | _, nan => nan
  | fin a, fin b => fin (a * b)
  | fin a, posInf => infTimes a
  | fin a, negInf => neg' (infTimes a)
  | posInf, fin b => infTimes b
  | negInf, fin b => neg' (infTimes b)
  | posInf, posInf => posInf
  | posInf, negInf => negInf
  | negInf, posInf => negInf
  | negInf, negInf => posInf
where
  neg' : XR α → XR α
    | posInf => negInf
    | negInf => posInf
    | x => x

/-- IEEE division with an unsigned (`+`) zero: `a / 0 = ±inf` by the sign of `a`, `0 / 0 = nan`,
`finite / ±inf = 0`, `inf / inf = nan`, `±inf / b = ±inf` by the sign of `b` (`b = 0` counts as `+0`) -/
def div [Div α] : XR α → XR α → XR α
  | nan, _ => nan
  | _, nan => nan
  | fin a, fin b =>
      if 0 < b then fin (a / b) else if b < 0 then fin (a / b) else infTimes a
  | fin _, posInf => fin 0
  | fin _, negInf => fin 0
  | posInf, fin b => if b < 0 then negInf else posInf
  | negInf, fin b => if b < 0 then posInf else negInf
  | posInf, _ => nan
  | negInf, _ => nan

/-- `np.log`: `log(x<0) = nan`, `log 0 = −inf`, `log inf = inf`, `log(−inf) = nan` -/
def log [ExpLog α] : XR α → XR α
  | fin a => if 0 < a then fin (ExpLog.log a) else if a < 0 then nan else negInf
  | posInf => posInf
  | negInf => nan
  | nan => nan

/-- `np.exp`: `exp(−inf) = 0`, `exp inf = inf` -/
def exp [ExpLog α] : XR α → XR α
  | fin a => fin (ExpLog.exp a)
  | posInf => posInf
  | negInf => fin 0
  | nan => nan

/-- `np.sqrt`: `sqrt(x<0) = nan`, `sqrt inf = inf`, `sqrt(−inf) = nan` -/
def sqrt [ExpLog α] : XR α → XR α
  | fin a => if a < 0 then nan else fin (ExpLog.sqrt a)
  | posInf => posInf
  | negInf => nan
  | nan => nan

/-- IEEE `<` : false whenever a NaN is involved -/
def lt : XR α → XR α → Bool
  | nan, _ => false
  | _, nan => false
  | fin a, fin b => decide (a < b)
  | fin _, posInf => true
  | fin _, negInf => false
  | posInf, _ => false
  | negInf, negInf => false
  | negInf, _ => true

/-- IEEE `<=` : false whenever a NaN is involved -/
def le : XR α → XR α → Bool
  | nan, _ => false
  | _, nan => false
  | fin a, fin b => !decide (b < a)
  | fin _, posInf => true
  | fin _, negInf => false
  | posInf, posInf => true
  | posInf, _ => false
  | negInf, _ => true

end ordered

instance [Zero α] : Zero (XR α) := ⟨fin 0⟩
instance [One α] : One (XR α) := ⟨fin 1⟩
instance [Neg α] : Neg (XR α) := ⟨neg⟩
instance [Add α] : Add (XR α) := ⟨add⟩
instance [Sub α] : Sub (XR α) := ⟨sub⟩
instance [Zero α] [LT α] [DecidableLT α] [Mul α] : Mul (XR α) := ⟨mul⟩
instance [Zero α] [LT α] [DecidableLT α] [Div α] : Div (XR α) := ⟨div⟩
instance [Zero α] [LT α] [DecidableLT α] [ExpLog α] : ExpLog (XR α) := ⟨exp, log, sqrt⟩

end XR

/-- An `ExpLog` structure on `Rat` that abstracts the finite values away but keeps their signs
(`exp ↦ 1 > 0`, `log ↦ 0`, `sqrt 0 = 0`, `sqrt a ↦ 1 > 0` otherwise).  It is **not** an instance: the driver
passes it explicitly, and only to compute *NaN / finite / infinite classes* over `XR Rat`.  For the link
functions (the `check_y` decision) the class provably does not depend on the `ExpLog` instance at all
(`PyGam.C07.linkIsNaN_iff`, `checkY_reject_iff` hold for every instance). -/
@[instance_reducible] def ExpLog.classOnlyRat : ExpLog Rat :=
  ⟨fun _ => 1, fun _ => 0, fun a => if a = 0 then 0 else 1⟩

/-! ## `utils.check_y` and `utils.get_link_domain` -/

inductive Verdict
  | accept
  | reject  -- `ValueError`
  deriving DecidableEq, Repr, Inhabited

section checks
variable {α : Type} [Zero α] [One α] [Add α] [Sub α] [Mul α] [Div α] [Neg α] [LT α] [DecidableLT α]
  [ExpLog α]

/-- the scalar decision inside `check_y`: `np.isnan(link.link(y, dist))` -/
def linkIsNaN (k : LinkKind) (levels : α) (y : XR α) : Bool :=
  (linkFn k (XR.fin levels) y).isNaN

/-- `utils.check_y(y, link, dist)` on the ravelled targets:
`check_array` (at least `min_samples = 1` entries, all finite) and then
`if np.any(np.isnan(link.link(y, dist))): raise ValueError`.  (The dtype conversion of `check_array` is not
part of this model: entries are already numbers or IEEE specials.) -/
def checkY (k : LinkKind) (levels : α) (ys : List (XR α)) : Verdict :=
  if ys.any (fun y => !y.isFinite) then Verdict.reject
  else if ys.length < 1 then Verdict.reject
  else if ys.any (linkIsNaN k levels) then Verdict.reject
  else Verdict.accept

/-- the probe points of `get_link_domain`: `np.array([-np.inf, -1, 0, 1, np.inf])` -/
def domainProbes : List (XR α) := [XR.negInf, XR.fin (-1), XR.fin 0, XR.fin 1, XR.posInf]

/-- `utils.get_link_domain(link, dist)`:
`domain = domain[~np.isnan(link.link(domain, dist))]; [domain[0], domain[-1]]`
(`none` where NumPy would raise `IndexError` on an empty selection) -/
def getLinkDomain (k : LinkKind) (levels : α) : Option (XR α × XR α) :=
  let kept := (domainProbes (α := α)).filter (fun y => !linkIsNaN k levels y)
  match kept.head?, kept.getLast? with
  | some lo, some hi => some (lo, hi)
  | _, _ => none

end checks
end PyGam
