import PyGam.Model.Vec
/-!
# PyGam.Model.BSpline — mirrors `pygam.utils.b_spline_basis` and `gen_edge_knots`

The code rescales `x` and the edge knots to `[0,1]`, builds `N + p + 1` augmented uniform knots
`t_j = (j - p) h`, `h = 1/(N - p)` (the last one pushed out by `ε = 1e-9` "to make it inclusive"), starts
from the half-open Haar indicators `[t_j ≤ x < t_{j+1}]` and runs the Cox–de Boor recursion `p` times.
Two extra rows for `x = 0` and `x = 1` are carried along (the Haar row of `x = 1` is *forced* to be the
mirror image of the row of `x = 0`); from them and from the order `p-1` rows the boundary values and
gradients are taken, and rows outside `[0,1]` are continued linearly (non-periodic, `p ≥ 1`).  A periodic
basis uses `N = n + p` functions, wraps `x` into the knot range and folds the last `p` functions onto
the first `p` by `max`.

Everything is generic in the number type (notation classes only): run at `Rat`/`Float` by the driver,
reasoned about over a linear ordered field in `PyGam/Proofs/BSpline.lean`.
-/
namespace PyGam
variable {α : Type}

/-- `x % 1` of NumPy for floats: `x - floor x ∈ [0,1)` -/
class HasFract (α : Type) where
  fract : α → α

instance : HasFract Rat := ⟨fun x => x - (x.floor : Rat)⟩
instance : HasFract Float := ⟨fun x => x - x.floor⟩

section
variable [Zero α] [One α] [Add α] [Sub α] [Mul α] [Div α] [LE α] [LT α]
  [DecidableLE α] [DecidableLT α]

/-- half-open Haar indicators on a knot sequence: `(x >= t[:-1]) * (x < t[1:])` -/
def haar (t : Nat → α) (x : α) : Nat → α := fun j => if t j ≤ x ∧ x < t (j+1) then 1 else 0

/-- Cox–de Boor recursion started from an arbitrary order-0 row `H` (the code's vectorised loop):
`B^q_j = (x - t_j)/(t_{j+q} - t_j) B^{q-1}_j + (t_{j+q+1} - x)/(t_{j+q+1} - t_{j+1}) B^{q-1}_{j+1}` -/
def deBoorH (t : Nat → α) (H : Nat → α) : Nat → Nat → α → α
  | 0, j, _ => H j
  | q+1, j, x => (x - t j) / (t (j+q+1) - t j) * deBoorH t H q j x
               + (t (j+q+2) - x) / (t (j+q+2) - t (j+1)) * deBoorH t H q (j+1) x

/-- the B-spline `B_{p,i}` on knots `t` (Haar start at the evaluation point itself) -/
def bspl (t : Nat → α) (p i : Nat) (x : α) : α := deBoorH t (haar t x) p i x

end

section
variable [Zero α] [One α] [Add α] [Sub α] [Mul α] [Div α] [NatCast α] [LE α] [LT α]
  [DecidableLE α] [DecidableLT α] [DecidableEq α] [Max α] [HasFract α]

/-- augmented uniform knots on `[0,1]`: `t_j = (j - p) h`, `h = 1/(N-p)`, last knot (index `N + p`) `+ ε`.
The code has exactly the knots `j ≤ N + p`; indices beyond are never read by the `N` functions of order
`≤ p` and are continued here so that the sequence stays strictly increasing. -/
def augKnot (N p : Nat) (ε : α) : Nat → α := fun j =>
  ((j : α) - (p : α)) * (1 / ((N : α) - (p : α))) + (if N + p ≤ j then ε else 0)

/-- configuration of one call of `b_spline_basis` -/
structure BasisCfg (α : Type) where
  nSplines : Nat
  order : Nat
  periodic : Bool
  e0 : α
  e1 : α

/-- number of functions built internally: `n_splines += spline_order * periodic` -/
def BasisCfg.nInternal (c : BasisCfg α) : Nat := c.nSplines + (if c.periodic then c.order else 0)

/-- `np.sort(edge_knots)`, `offset`, `scale` (`0 ↦ 1`), rescaled `x` -/
def BasisCfg.lo (c : BasisCfg α) : α := if c.e1 < c.e0 then c.e1 else c.e0
def BasisCfg.hi (c : BasisCfg α) : α := if c.e1 < c.e0 then c.e0 else c.e1
def BasisCfg.scale (c : BasisCfg α) : α := if c.hi - c.lo = 0 then 1 else c.hi - c.lo
def BasisCfg.rescale (c : BasisCfg α) (x : α) : α := (x - c.lo) / c.scale

/-- periodic wrap into the knot range: inside `[0,1]` untouched, left of it `x % 1 ∈ [0,1)`,
right of it `1 - ((-x) % 1) ∈ (0,1]` -/
def wrapUnit (x : α) : α :=
  if x < 0 then HasFract.fract x
  else if 1 < x then 1 - HasFract.fract (0 - x)
  else x

/-- the forced-symmetric Haar row of the appended point `x = 1`: mirror image of the row of `x = 0`
(`bases[-1] = bases[-2][::-1]`, `N + p` order-0 functions) -/
def haarMirror (t : Nat → α) (N p : Nat) : Nat → α := fun j =>
  if j < N + p then haar t 0 (N + p - 1 - j) else 0

/-- all `N` order-`p` functions at an interior (data) point -/
def innerRow (N p : Nat) (ε : α) (x : α) : Nat → α :=
  fun j => bspl (augKnot N p ε) p j x

/-- the appended rows: value of the `N` functions at `x = 0` and at `x = 1` (mirror Haar) -/
def row0 (N p : Nat) (ε : α) : Nat → α := fun j => bspl (augKnot N p ε) p j 0
def row1 (N p : Nat) (ε : α) : Nat → α :=
  fun j => deBoorH (augKnot N p ε) (haarMirror (augKnot N p ε) N p) p j 1

/-- `prev_bases`: the order `p-1` rows at `x = 0`, `x = 1` -/
def prev0 (N p : Nat) (ε : α) : Nat → α := fun j => bspl (augKnot N p ε) (p-1) j 0
def prev1 (N p : Nat) (ε : α) : Nat → α :=
  fun j => deBoorH (augKnot N p ε) (haarMirror (augKnot N p ε) N p) (p-1) j 1

/-- boundary gradients `p (B^{p-1}_j/(t_{j+p}-t_j) - B^{p-1}_{j+1}/(t_{j+p+1}-t_{j+1}))` -/
def gradOf (N p : Nat) (ε : α) (prev : Nat → α) : Nat → α := fun j =>
  let t := augKnot N p ε
  (p : α) * (prev j / (t (j+p) - t j) - prev (j+1) / (t (j+p+1) - t (j+1)))

/-- non-periodic row of `N` functions at rescaled `x`, with linear continuation for `p ≥ 1` -/
def openRow (N p : Nat) (ε : α) (x : α) : Nat → α :=
  if x < 0 ∧ 0 < p then fun j => gradOf N p ε (prev0 N p ε) j * x + row0 N p ε j
  else if 1 < x ∧ 0 < p then fun j => gradOf N p ε (prev1 N p ε) j * (x - 1) + row1 N p ε j
  else innerRow N p ε x

/-- periodic row: wrap, evaluate `n + p` functions, fold the last `p` onto the first `p` by `max` -/
def cyclicRow (n p : Nat) (ε : α) (x : α) : Nat → α :=
  let r := innerRow (n + p) p ε (wrapUnit x)
  fun j => if j < p then max (r j) (r (n + j)) else r j

/-- `b_spline_basis(x, edge_knots, n_splines, spline_order, periodic)` for one `x` : entries `j < n_splines` -/
def basisRow (ε : α) (c : BasisCfg α) (x : α) : Nat → α :=
  if c.periodic then cyclicRow c.nSplines c.order ε (c.rescale x)
  else openRow c.nSplines c.order ε (c.rescale x)

/-- `gen_edge_knots(data, dtype)` given the data minimum and maximum -/
def edgeKnots (categorical : Bool) (dmin dmax : α) (half : α) : α × α :=
  if categorical then (dmin - half, dmax + half) else (dmin, dmax)

end
end PyGam
