/-!
# PyGam.Model.Loop — the PIRLS optimiser loop, its callbacks and logs (Mathlib-free)

Mirrors `/repo/pygam/pygam.py` (`GAM.fit`, `_validate_params`, `_pirls`, `_on_loop_start`,
`_on_loop_end`, the `__init__` of the seven model classes) and `/repo/pygam/callbacks.py`
(`validate_callback_data`, `validate_callback`, `Deviance`, `Accuracy`, `Diffs`, `Coef`) as they
are now.

What is abstract: the coefficient type `C`, one PIRLS update `step : C → C`, the recorded
relative change `diff : C → C → D` (the loop local `diff`), the type `D` of that number with its
`<` (instantiated at `Float` by the driver, so that `nan < tol = false` exactly as in Python) and
the type `V` of a log entry.  What is concrete: the control flow.

```
for _ in range(self.max_iter):            -- `loop` (fuel = max_iter), `_` = `St.iters`
    ... mu = f(self.coef_) ...
    self._on_loop_start(vars())           -- `startEvents`
    coef_new = step(self.coef_)
    diff = norm(self.coef_ - coef_new) / norm(coef_new)
    self.coef_ = coef_new
    self._on_loop_end(vars())             -- `endEvents`
    if diff < self.tol: break
self._estimate_model_statistics(...)      -- `Result.stats`
if diff < self.tol: return
print('did not converge')                 -- `Result.printed`
```
Behaviour of the code that the abstraction absorbs (counted by the harness as `observed-quirk`, the
property speaks of the *recorded* diff and does not mention weights for the logged deviance): in the first iteration of a model that is not a `LinearGAM` instance `coef_` has
shape `(m, 1)` (`_initial_estimate`), so `diff` is the Frobenius norm of the broadcast `(m, m)` difference
over `‖coef_new‖`, not the relative change; `Deviance.on_loop_start` is not given the sample weights
(`Obs.dev` is the unweighted deviance over the rows that survive `_mask`).

`logs_` is created only when missing (`if not hasattr(self, 'logs_')`), so a refit **appends** to
the logs of the previous fits: `pirls` takes the old events and returns old ++ new.
-/
namespace PyGam.Loop

/-! ## model classes, constructor arguments, default callbacks -/

/-- the seven public model classes -/
inductive ModelClass
  | GAM | LinearGAM | LogisticGAM | PoissonGAM | GammaGAM | InvGaussGAM | ExpectileGAM
  deriving DecidableEq, Repr

def ModelClass.all : List ModelClass :=
  [.GAM, .LinearGAM, .LogisticGAM, .PoissonGAM, .GammaGAM, .InvGaussGAM, .ExpectileGAM]

def ModelClass.name : ModelClass → String
  | .GAM => "GAM" | .LinearGAM => "LinearGAM" | .LogisticGAM => "LogisticGAM"
  | .PoissonGAM => "PoissonGAM" | .GammaGAM => "GammaGAM" | .InvGaussGAM => "InvGaussGAM"
  | .ExpectileGAM => "ExpectileGAM"

def ModelClass.ofName? (s : String) : Option ModelClass :=
  ModelClass.all.find? (fun c => c.name == s)

/-- the named constructor arguments that occur in some `__init__` -/
inductive CtorArg
  | terms | max_iter | tol | distribution | link | callbacks | fit_intercept | verbose
  | scale | expectile
  deriving DecidableEq, Repr

def CtorArg.all : List CtorArg :=
  [.terms, .max_iter, .tol, .distribution, .link, .callbacks, .fit_intercept, .verbose,
   .scale, .expectile]

def CtorArg.name : CtorArg → String
  | .terms => "terms" | .max_iter => "max_iter" | .tol => "tol"
  | .distribution => "distribution" | .link => "link" | .callbacks => "callbacks"
  | .fit_intercept => "fit_intercept" | .verbose => "verbose" | .scale => "scale"
  | .expectile => "expectile"

def CtorArg.ofName? (s : String) : Option CtorArg := CtorArg.all.find? (fun c => c.name == s)

/-- the arguments `GAM.__init__` stores for the optimiser (pygam.py:149-166) -/
def baseArg : CtorArg → Bool
  | .terms | .max_iter | .tol | .distribution | .link | .callbacks | .fit_intercept
  | .verbose => true
  | .scale | .expectile => false

/-- does `cls.__init__` take `arg` as a named parameter? -/
def accepts : ModelClass → CtorArg → Bool
  | .GAM, a => baseArg a
  | .LinearGAM, a | .GammaGAM, a | .InvGaussGAM, a =>
      match a with
      | .distribution | .link | .expectile => false
      | _ => true
  | .LogisticGAM, a | .PoissonGAM, a =>
      match a with
      | .distribution | .link | .scale | .expectile => false
      | _ => true
  | .ExpectileGAM, a =>
      match a with
      | .distribution | .link => false
      | _ => true

/-- does the value the user passed for `arg` reach `GAM.__init__` (and so the attribute the
loop reads)?  `scale` / `expectile` are kept on the subclass; `distribution` / `link` are fixed
by the subclass.  Every subclass passes `callbacks=callbacks` (LinearGAM: since commit
3365568). -/
def forwards (cls : ModelClass) (a : CtorArg) : Bool := accepts cls a && baseArg a

/-- built-in callbacks (`callbacks.CALLBACKS`) -/
inductive Builtin
  | deviance | diffs | accuracy | coef
  deriving DecidableEq, Repr

def Builtin.name : Builtin → String
  | .deviance => "deviance" | .diffs => "diffs" | .accuracy => "accuracy" | .coef => "coef"

def Builtin.all : List Builtin := [.deviance, .diffs, .accuracy, .coef]
def Builtin.ofName? (s : String) : Option Builtin := Builtin.all.find? (fun c => c.name == s)

/-- default of the `callbacks` parameter of each class -/
def defaultCallbacks : ModelClass → List Builtin
  | .LogisticGAM => [.deviance, .diffs, .accuracy]
  | _ => [.deviance, .diffs]

/-- the callback list the optimiser of a freshly constructed `cls(callbacks=user)` sees:
the user's list when one is given and the class forwards it, the class default otherwise
(`ρ` = whatever a callback request is; `dflt` turns a built-in name into a request) -/
def effectiveCallbacks {ρ : Type} (dflt : Builtin → ρ) (cls : ModelClass) (user : Option (List ρ)) :
    List ρ :=
  match user with
  | some cbs => if forwards cls .callbacks then cbs else (defaultCallbacks cls).map dflt
  | none => (defaultCallbacks cls).map dflt

/-! ## argument binding of a hook (`validate_callback_data`) -/

/-- names in `vars()` at the first `_on_loop_start` (after `self ↦ gam`); `C` only exists when
the terms have constraints -/
def startVars (hasConstraint : Bool) : List String :=
  ["gam", "X", "Y", "weights", "modelmat", "n", "m", "P", "S", "E", "min_n_m", "Dinv", "_",
   "y", "lp", "mu", "W", "mask", "pseudo_data"] ++ (if hasConstraint then ["C"] else [])

/-- names added between `_on_loop_start` and `_on_loop_end` -/
def endOnlyVars : List String :=
  ["WB", "Q", "R", "U", "d", "Vt", "U1", "B", "coef_new", "diff"]

def endVars (hasConstraint : Bool) : List String := startVars hasConstraint ++ endOnlyVars

/-- `expected = code.co_varnames[: code.co_argcount]` — the *arguments* of the hook, not its local
variables (callbacks.py since commit 0a01318); `self` is skipped; every other name must be a key of
`vars()` -/
def missing (avail expected : List String) : List String :=
  expected.filter (fun e => e != "self" && !avail.contains e)

def bindOk (avail expected : List String) : Bool := (missing avail expected).isEmpty

/-! ## callbacks -/

/-- one hook: its argument names (`expects`, bound from `vars()`), what it returns, and the names of
its local variables (`co_varnames[co_argcount:]`), which play no role in the binding -/
structure Hook (F : Type) where
  expects : List String
  fn : F
  locals : List String

/-- the names `validate_callback_data` looks up in `vars()`: the arguments only -/
def Hook.bound {F : Type} (h : Hook F) : List String := h.expects

/-- a validated callback object.  `name = str(callback)` is the key of `logs_`.
`onStart k c`: return value at the start of iteration `k` (0-based, the loop variable `_`) when
the coefficients entering the iteration are `c` — every loop-start local (`mu`, `lp`, `y`, `W`,
`mask`, `pseudo_data`, `gam.coef_`) is a function of `c` and of the fixed data.
`onEnd k c c' d`: return value at the end of iteration `k` (entering `c`, produced `c'`,
recorded `diff = d`). -/
structure Callback (C D V : Type) where
  name : String
  onStart : Option (Hook (Nat → C → V))
  onEnd : Option (Hook (Nat → C → C → D → V))

/-- what the four built-in callbacks observe -/
structure Obs (C D V : Type) where
  dev : C → V      -- `gam.distribution.deviance(y=y, mu=mu, scaled=False).sum()`, `mu = μ(c)`
  acc : C → V      -- `np.mean(y == (mu > 0.5))`
  coefV : C → V    -- `gam.coef_`
  diffV : D → V    -- `diff`

def builtin {C D V : Type} (o : Obs C D V) : Builtin → Callback C D V
  | .deviance => ⟨"deviance", some ⟨["gam", "y", "mu"], fun _ c => o.dev c, []⟩, none⟩
  | .accuracy => ⟨"accuracy", some ⟨["y", "mu"], fun _ c => o.acc c, []⟩, none⟩
  | .coef => ⟨"coef", some ⟨["gam"], fun _ c => o.coefV c, []⟩, none⟩
  | .diffs => ⟨"diffs", none, some ⟨["diff"], fun _ _ _ d => o.diffV d, []⟩⟩

variable {C D V : Type}

/-- number of hooks of the callbacks registered under the key `n` -/
def hookCount (n : String) (cbs : List (Callback C D V)) : Nat :=
  ((cbs.filter (fun cb => cb.name == n)).filter (fun cb => cb.onStart.isSome)).length
  + ((cbs.filter (fun cb => cb.name == n)).filter (fun cb => cb.onEnd.isSome)).length

/-- every hook of every callback can bind its arguments in the first iteration
(later iterations only have more names) -/
def allBound (hasConstraint : Bool) (cbs : List (Callback C D V)) : Bool :=
  cbs.all (fun cb =>
    (match cb.onStart with
      | some h => bindOk (startVars hasConstraint) h.bound
      | none => true)
    && (match cb.onEnd with
      | some h => bindOk (endVars hasConstraint) h.bound
      | none => true))

/-- the same callback whose hooks have other local variables -/
def Callback.withLocals (ls le : List String) (cb : Callback C D V) : Callback C D V :=
  { cb with onStart := cb.onStart.map (fun h => { h with locals := ls })
            onEnd := cb.onEnd.map (fun h => { h with locals := le }) }

/-- `_on_loop_start`: callbacks in list order, one `logs_[str(cb)].append(...)` each -/
def startEvents (cbs : List (Callback C D V)) (k : Nat) (c : C) : List (String × V) :=
  cbs.filterMap (fun cb => cb.onStart.map (fun h => (cb.name, h.fn k c)))

/-- `_on_loop_end` -/
def endEvents (cbs : List (Callback C D V)) (k : Nat) (c c' : C) (d : D) : List (String × V) :=
  cbs.filterMap (fun cb => cb.onEnd.map (fun h => (cb.name, h.fn k c c' d)))

/-- the entries under key `n`, oldest first (`logs_[n]`) -/
def logsOf (n : String) (ev : List (String × V)) : List V :=
  (ev.filter (fun e => e.1 == n)).map (fun e => e.2)

/-! ## the loop -/

/-- loop state: `coef = self.coef_`, `iters` = completed iterations (= next value of `_`),
`last` = the local `diff` (unbound before the first iteration), `diffs` = all recorded values of
it, `events` = the appends to `logs_` in chronological order -/
structure St (C D V : Type) where
  coef : C
  iters : Nat
  last : Option D
  diffs : List D
  events : List (String × V)

/-- one pass through the loop body -/
def iterate (step : C → C) (diff : C → C → D) (cbs : List (Callback C D V)) (s : St C D V) :
    St C D V :=
  let c := s.coef
  let c' := step c
  let d := diff c c'
  { coef := c'
    iters := s.iters + 1
    last := some d
    diffs := s.diffs ++ [d]
    events := s.events ++ (startEvents cbs s.iters c ++ endEvents cbs s.iters c c' d) }

/-- `if diff < self.tol` -/
def below [LT D] [DecidableLT D] (tol : D) : Option D → Bool
  | some d => decide (d < tol)
  | none => false

/-- `for _ in range(max_iter): body; if diff < tol: break` -/
def loop [LT D] [DecidableLT D] (step : C → C) (diff : C → C → D) (tol : D)
    (cbs : List (Callback C D V)) : Nat → St C D V → St C D V
  | 0, s => s
  | fuel + 1, s =>
      let s' := iterate step diff cbs s
      if below tol s'.last then s' else loop step diff tol cbs fuel s'

/-- observable result of `_pirls` -/
structure Result (C D V : Type) where
  iters : Nat                 -- iterations performed by this fit
  coef : C                    -- `coef_`
  diffs : List D              -- recorded `diff`s of this fit
  events : List (String × V)  -- `logs_` (old entries first)
  stats : Bool                -- `_estimate_model_statistics` ran
  printed : Bool              -- `did not converge` was printed

/-- `_pirls` from entering coefficients `init` (the initial estimate of a fresh model, the
previous `coef_` of a fitted one) and the existing log `old`.  With `max_iter = 0` Python would
leave `WB`/`diff` unbound and raise before the statistics; `_validate_params` excludes it, the
model returns `none`. -/
def pirls [LT D] [DecidableLT D] (step : C → C) (diff : C → C → D) (tol : D)
    (cbs : List (Callback C D V)) (maxIter : Nat) (init : C) (old : List (String × V)) :
    Option (Result C D V) :=
  let s := loop step diff tol cbs maxIter ⟨init, 0, none, [], old⟩
  match s.last with
  | none => none
  | some d =>
      some { iters := s.iters, coef := s.coef, diffs := s.diffs, events := s.events,
             stats := true, printed := !decide (d < tol) }

/-- outcome of `fit` as far as this property is concerned -/
inductive Outcome (R : Type)
  | valueError       -- `_validate_params`: `max_iter >= 1` violated
  | assertionError   -- `validate_callback_data`: 'CallBack cannot reference: …'
  | ok (r : R)

/-- `fit`: validate `max_iter`, then run the loop; a hook that cannot bind its arguments raises
in the first iteration -/
def fit [LT D] [DecidableLT D] (step : C → C) (diff : C → C → D) (tol : D)
    (cbs : List (Callback C D V)) (hasConstraint : Bool) (maxIter : Int) (init : C)
    (old : List (String × V)) : Outcome (Result C D V) :=
  if maxIter < 1 then .valueError
  else if !allBound hasConstraint cbs then .assertionError
  else
    match pirls step diff tol cbs maxIter.toNat init old with
    | some r => .ok r
    | none => .valueError

/-! ## specification vocabulary (used by the theorems; executable too) -/

/-- coefficients entering iteration `k` (0-based): `step` applied `k` times to `init` -/
def traj (step : C → C) (init : C) : Nat → C
  | 0 => init
  | k + 1 => step (traj step init k)

/-- the `diff` recorded by iteration `k` if the loop gets that far -/
def dseq (step : C → C) (diff : C → C → D) (init : C) (k : Nat) : D :=
  diff (traj step init k) (traj step init (k + 1))

/-- number of passes of a loop with `fuel` passes left, whose next pass has index `k`, on the
diff sequence `ds`: stop after the first pass whose diff is below `tol` -/
def stopCount [LT D] [DecidableLT D] (tol : D) (ds : Nat → D) : Nat → Nat → Nat
  | 0, _ => 0
  | fuel + 1, k => if ds k < tol then 1 else 1 + stopCount tol ds fuel (k + 1)

/-- the appends of iteration `k` -/
def iterEvents (step : C → C) (diff : C → C → D) (cbs : List (Callback C D V)) (init : C)
    (k : Nat) : List (String × V) :=
  startEvents cbs k (traj step init k)
  ++ endEvents cbs k (traj step init k) (traj step init (k + 1)) (dseq step diff init k)

end PyGam.Loop
