import PyGam.Model.Vec
/-!
# PyGam.Model.Expectile — mirrors `ExpectileGAM` (`pygam/pygam.py`).  Mathlib-free.

* `validExpectile`      : the range check of `ExpectileGAM._validate_params` (`expectile ∈ (0,1)` else `ValueError`)
* `asym τ y μ`          : the asymmetric weight of `ExpectileGAM._W`: `τ` where `y > μ`, `1 − τ` where `y <= μ`
* `expWeight`           : the squared diagonal of `_W` for Normal / identity: `weights · asym`
* `gramW`, `rhsW`, `linPred`, `NormalEq`, `ExpectileFixedPoint` : the linear system one PIRLS iteration solves,
  `(Bᵀ D B + A) β = Bᵀ D y` with `D = diag(weights · asym)` evaluated at `μ = Bβ` (identity link: pseudo-data = `y`)
  and `A = S + P (+ C)` the ridge + penalty matrix (`EᵀE` in `_pirls`)
* `posSum`, `negSum`    : total weighted positive / negative residual
* `interceptStep`       : one PIRLS iteration of the intercept-only model (`m = 1`, `B = 1`)
* `BState`, `withinTol`, `bisectStep`, `bisectLoop`, `fitQuantile` : the binary search of `ExpectileGAM.fit_quantile`
  as a fuel-bounded state machine over an abstract oracle `ratio k e` (the empirical quantile
  `(predict(X) > y).mean()` of the model current at loop iteration `k`, whose expectile is `e`)
* `SState`, `searchLoop`, `searchTrace`, `searchStart`, `fitQuantileW` : the same search with the re-fit made explicit:
  `fit kw e` is a function of the keywords `fit_quantile` forwards to `fit` (the sample weights) and of the expectile,
  `ratio m` of the fitted model; `interceptModelFit`, `interceptRatio` : the intercept-only ExpectileGAM as such a `fit` / `ratio`
-/
namespace PyGam.Expectile
variable {α : Type}

/-- `ExpectileGAM._validate_params`: `expectile >= 1 or expectile <= 0` raises `ValueError` -/
def validExpectile [Zero α] [One α] [LE α] [DecidableLE α] (e : α) : Bool :=
  if (1 : α) ≤ e ∨ e ≤ 0 then false else true

/-- `(y > mu) * expectile + (y <= mu) * (1 - expectile)` -/
def asym [One α] [Sub α] [LT α] [DecidableLT α] (tau y mu : α) : α :=
  if mu < y then tau else 1 - tau

/-- squared diagonal of `ExpectileGAM._W` (Normal distribution, identity link: `gradient = 1`, `V = 1`) -/
def expWeight [One α] [Sub α] [Mul α] [LT α] [DecidableLT α] (tau : α) (w y mu : Nat → α) : Nat → α :=
  fun i => w i * asym tau (y i) (mu i)

/-- `(Bᵀ D B)_{jk}` for `n` rows -/
def gramW [Zero α] [Add α] [Mul α] (n : Nat) (B : Nat → Nat → α) (d : Nat → α) (j k : Nat) : α :=
  sumTo n (fun i => B i j * d i * B i k)

/-- `(Bᵀ D y)_j` -/
def rhsW [Zero α] [Add α] [Mul α] (n : Nat) (B : Nat → Nat → α) (d y : Nat → α) (j : Nat) : α :=
  sumTo n (fun i => B i j * d i * y i)

/-- `μ_i = (B β)_i` (identity link) -/
def linPred [Zero α] [Add α] [Mul α] (m : Nat) (B : Nat → Nat → α) (beta : Nat → α) (i : Nat) : α :=
  sumTo m (fun k => B i k * beta k)

/-- the system of one PIRLS iteration: `(Bᵀ D B + A) β = Bᵀ D y` -/
def NormalEq [Zero α] [Add α] [Mul α] (n m : Nat) (B : Nat → Nat → α) (d : Nat → α)
    (A : Nat → Nat → α) (y beta : Nat → α) : Prop :=
  ∀ j, j < m → sumTo m (fun k => (gramW n B d j k + A j k) * beta k) = rhsW n B d y j

/-- a converged ExpectileGAM fit: `β` solves the system whose weights are evaluated at `μ = Bβ` -/
def ExpectileFixedPoint [Zero α] [One α] [Add α] [Sub α] [Mul α] [LT α] [DecidableLT α]
    (tau : α) (n m : Nat) (B : Nat → Nat → α) (w : Nat → α) (A : Nat → Nat → α)
    (y beta : Nat → α) : Prop :=
  NormalEq n m B (expWeight tau w y (linPred m B beta)) A y beta

/-- `Σ_{r_i > 0} w_i r_i` -/
def posSum [Zero α] [Add α] [Mul α] [LT α] [DecidableLT α] (n : Nat) (w r : Nat → α) : α :=
  sumTo n (fun i => if 0 < r i then w i * r i else 0)

/-- `Σ_{r_i ≤ 0} w_i |r_i|` -/
def negSum [Zero α] [Add α] [Sub α] [Mul α] [LT α] [DecidableLT α] (n : Nat) (w r : Nat → α) : α :=
  sumTo n (fun i => if 0 < r i then 0 else w i * (0 - r i))

/-- the balance defect `τ Σ_{r>0} w r − (1−τ) Σ_{r≤0} w |r|` of residuals `r = y − μ` -/
def balance [Zero α] [One α] [Add α] [Sub α] [Mul α] [LT α] [DecidableLT α]
    (tau : α) (n : Nat) (w y mu : Nat → α) : α :=
  tau * posSum n w (fun i => y i - mu i) - (1 - tau) * negSum n w (fun i => y i - mu i)

/-- one PIRLS iteration of the intercept-only model (`B = 1`, `m = 1`) with ridge `s00`:
`β' = Σ w a y / (Σ w a + s00)`, `a = asym τ y β` -/
def interceptStep [Zero α] [One α] [Add α] [Sub α] [Mul α] [Div α] [LT α] [DecidableLT α]
    (tau s00 : α) (n : Nat) (w y : Nat → α) (beta : α) : α :=
  let d := expWeight tau w y (fun _ => beta)
  rhsW n (fun _ _ => 1) d y 0 / (gramW n (fun _ _ => 1) d 0 0 + s00)

/-- iterate `interceptStep` (`fuel` = `max_iter`) until it reproduces itself -/
def interceptFit [Zero α] [One α] [Add α] [Sub α] [Mul α] [Div α] [LT α] [DecidableLT α] [DecidableEq α]
    (tau s00 : α) (n : Nat) (w y : Nat → α) : Nat → α → α × Bool
  | 0, beta => (beta, false)
  | fuel+1, beta =>
      let b' := interceptStep tau s00 n w y beta
      if b' = beta then (b', true) else interceptFit tau s00 n w y fuel b'

/-! ### `fit_quantile` -/

/-- state of the binary search: `min_`, `max_`, the model's current `expectile`, `n_iter` -/
structure BState (α : Type) where
  lo : α
  hi : α
  e : α
  nIter : Nat

/-- `_within_tol(a, b, tol) = np.abs(a - b) <= tol` -/
def withinTol [Zero α] [Sub α] [LT α] [LE α] [DecidableLT α] [DecidableLE α] (a b tol : α) : Bool :=
  let d := a - b
  let ad := if d < 0 then 0 - d else d
  if ad ≤ tol then true else false

/-- the body of the `while` loop given the ratio `r` of the current model: `none` = `break` -/
def bisectStep [Zero α] [One α] [Add α] [Sub α] [Div α] [LT α] [LE α] [DecidableLT α] [DecidableLE α]
    (q tol r : α) (s : BState α) : Option (BState α) :=
  if withinTol r q tol then none
  else
    let lo' := if r < q then s.e else s.lo
    let hi' := if r < q then s.hi else s.e
    some { lo := lo', hi := hi', e := (hi' + lo') / (1 + 1), nIter := s.nIter + 1 }

/-- the `while n_iter < max_iter` loop with `fuel = max_iter − n_iter`; the flag says whether it
left through `break` (ratio within tolerance) -/
def bisectLoop [Zero α] [One α] [Add α] [Sub α] [Div α] [LT α] [LE α] [DecidableLT α] [DecidableLE α]
    (ratio : Nat → α → α) (q tol : α) : Nat → BState α → BState α × Bool
  | 0, s => (s, false)
  | fuel+1, s =>
      match bisectStep q tol (ratio s.nIter s.e) s with
      | none => (s, true)
      | some s' => bisectLoop ratio q tol fuel s'

/-- list of expectiles the search sets (one `set_params` + `fit` each), in order -/
def bisectTrace [Zero α] [One α] [Add α] [Sub α] [Div α] [LT α] [LE α] [DecidableLT α] [DecidableLE α]
    (ratio : Nat → α → α) (q tol : α) : Nat → BState α → List α
  | 0, _ => []
  | fuel+1, s =>
      match bisectStep q tol (ratio s.nIter s.e) s with
      | none => []
      | some s' => s'.e :: bisectTrace ratio q tol fuel s'

/-- argument check of `fit_quantile`: `quantile ∉ (0,1)`, `tol ≤ 0`, `max_iter ≤ 0` raise `ValueError` -/
def argsOk [Zero α] [One α] [LE α] [DecidableLE α] (q tol : α) (maxIter : Int) : Bool :=
  if q ≤ 0 ∨ (1 : α) ≤ q then false
  else if tol ≤ 0 then false
  else if maxIter ≤ 0 then false
  else true

/-- `ExpectileGAM.fit_quantile`: `none` = `ValueError`; otherwise the final state (its `e` is
`gam.expectile`, its `nIter` the number of re-fits) and whether the tolerance was met -/
def fitQuantile [Zero α] [One α] [Add α] [Sub α] [Div α] [LT α] [LE α] [DecidableLT α] [DecidableLE α]
    (ratio : Nat → α → α) (q tol : α) (maxIter : Int) (e0 : α) : Option (BState α × Bool) :=
  if argsOk q tol maxIter then
    some (bisectLoop ratio q tol maxIter.toNat { lo := 0, hi := 1, e := e0, nIter := 0 })
  else none

/-! ### `fit_quantile` with the re-fit made explicit (the keywords it forwards to `fit` are an argument)

`bisectLoop` above abstracts the whole "set the expectile, re-fit, predict, count" into an oracle `ratio k e`.  That
hides *what* is fitted.  Here the fit itself is a parameter **of the forwarded keywords**: `fit kw e` is the model that
`self.set_params(expectile=e); self.fit(X, y, **kw)` produces (`kw` = the keyword arguments `fit_quantile` passes on to
`fit`: the sample `weights`; `fit` starts cold, its outcome does not depend on the previous coefficients) and
`ratio m = (m.predict(X) > y).mean()`.  Every fit of the search — the first fit "if necessary" and every re-fit after a
bisection step — is `fit kw ·` with the *same* `kw` that was passed to `fit_quantile`. -/

/-- state of the search: the bracket / expectile / counter and the current fitted model -/
structure SState (α μ : Type) where
  b : BState α
  model : μ

/-- the `while n_iter < max_iter` loop, re-fitting with the forwarded keywords `kw` after every bisection step -/
def searchLoop {κ μ : Type} [Zero α] [One α] [Add α] [Sub α] [Div α] [LT α] [LE α] [DecidableLT α] [DecidableLE α]
    (fit : κ → α → μ) (ratio : μ → α) (kw : κ) (q tol : α) : Nat → SState α μ → SState α μ × Bool
  | 0, s => (s, false)
  | fuel+1, s =>
      match bisectStep q tol (ratio s.model) s.b with
      | none => (s, true)
      | some b' => searchLoop fit ratio kw q tol fuel { b := b', model := fit kw b'.e }

/-- `(expectile, model)` of every re-fit, in order -/
def searchTrace {κ μ : Type} [Zero α] [One α] [Add α] [Sub α] [Div α] [LT α] [LE α] [DecidableLT α] [DecidableLE α]
    (fit : κ → α → μ) (ratio : μ → α) (kw : κ) (q tol : α) : Nat → SState α μ → List (α × μ)
  | 0, _ => []
  | fuel+1, s =>
      match bisectStep q tol (ratio s.model) s.b with
      | none => []
      | some b' => (b'.e, fit kw b'.e) :: searchTrace fit ratio kw q tol fuel { b := b', model := fit kw b'.e }

/-- the model the loop starts from: an already fitted model is kept (`pre = some m`), otherwise "perform a first fit
if necessary": `self.fit(X, y, weights=weights)` at the expectile the object was constructed with -/
def searchStart {κ μ : Type} (fit : κ → α → μ) (kw : κ) (e0 : α) (pre : Option μ) : μ :=
  match pre with
  | some m => m
  | none => fit kw e0

/-- `ExpectileGAM.fit_quantile(X, y, quantile, max_iter, tol, **kw)`: `none` = `ValueError` -/
def fitQuantileW {κ μ : Type} [Zero α] [One α] [Add α] [Sub α] [Div α] [LT α] [LE α] [DecidableLT α] [DecidableLE α]
    (fit : κ → α → μ) (ratio : μ → α) (kw : κ) (q tol : α) (maxIter : Int) (e0 : α) (pre : Option μ) :
    Option (SState α μ × Bool) :=
  if argsOk q tol maxIter then
    some (searchLoop fit ratio kw q tol maxIter.toNat
      { b := { lo := 0, hi := 1, e := e0, nIter := 0 }, model := searchStart fit kw e0 pre })
  else none

/-! #### the intercept-only ExpectileGAM as a concrete `fit` / `ratio` (what the driver executes) -/

/-- `fit kw e` of the intercept-only model: keyword = the sample weights `w`; the model is the coefficient together
with "the PIRLS iteration reproduced itself" -/
def interceptModelFit [Zero α] [One α] [Add α] [Sub α] [Mul α] [Div α] [LT α] [DecidableLT α] [DecidableEq α]
    (s00 : α) (n : Nat) (y : Nat → α) (fuel : Nat) (cold : α) (w : Nat → α) (e : α) : α × Bool :=
  interceptFit e s00 n w y fuel cold

/-- `_get_quantile_ratio` of the intercept-only model: `(predict(X) > y).mean()` — the fraction of targets strictly
below the coefficient, every row counting once whatever its weight -/
def interceptRatio [Zero α] [One α] [Add α] [Div α] [LT α] [DecidableLT α]
    (n : Nat) (y : Nat → α) (m : α × Bool) : α :=
  sumTo n (fun i => if y i < m.1 then 1 else 0) / sumTo n (fun _ => 1)

end PyGam.Expectile
