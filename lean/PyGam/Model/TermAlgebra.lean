/-!
# PyGam.Model.TermAlgebra — structural model of `pygam/terms.py`, `pygam/core.py` and the keyword
hand-over of `pygam/pygam.py` (property C14).  Core Lean only.

Python objects are modelled by their instance dictionary (`Dict`, insertion ordered), values by a small
universe (`Sc` scalars: `None`, `bool`, `int`, `float` (an exact rational), `str`; `Val` = scalar or flat
list of scalars; `Tree` = arbitrarily nested lists, for the values that travel through plural attributes).
Exception classes are `Err`; `Err.unsupported` marks behaviour outside the modelled universe (never generated
by the harness; a disagreement if it ever shows up).

* `mkList`           : `TermList.__init__` (flatten nested lists, de-duplicate on the info key, keep first)
* `construct`        : the constructors `Intercept / LinearTerm / SplineTerm / FactorTerm` (`__init__` +
                       `_validate_arguments`), `mkTensor` : `TensorTerm.__init__` + `_parse_terms`
* `getParams/setParamsG` : `Core.get_params / set_params`
* `Atom.info / Term.info / TermList.info`, `Term.fromInfo / TermList.fromInfo` : `info`, `build_from_info`
* `getPlural / setPlural / distR` : `MetaTermMixin.__getattr__ / __setattr__`
* `Gam.init / setattr / getattr / fit` : `GAM.__init__` kwargs, `_validate_data_dep_params`
* `compileTerm`      : the structural part of `compile` (edge knots, number of categories)
-/
namespace PyGam.TA

/-- exception classes (`unsupported`: outside the modelled universe) -/
inductive Err | value | type | attribute | index | key | name | unsupported
  deriving DecidableEq, Repr

/-- scalars -/
inductive Sc | none | bool (b : Bool) | int (i : Int) | flt (q : Rat) | str (s : String)
  deriving DecidableEq, Repr

/-- attribute values: a scalar or a flat list of scalars -/
inductive Val | sc (s : Sc) | list (l : List Sc)
  deriving DecidableEq, Repr

/-- nested lists (what `getattr(termlist, 'lam')` returns, what a user may assign) -/
inductive Tree | leaf (s : Sc) | node (l : List Tree)
  deriving Repr

mutual
/-- `utils.flatten` -/
def Tree.flat : Tree → List Sc
  | .leaf s => [s]
  | .node l => flatL l
def flatL : List Tree → List Sc
  | [] => []
  | t :: ts => t.flat ++ flatL ts
end

def Val.toTree : Val → Tree
  | .sc s => .leaf s
  | .list l => .node (l.map .leaf)

def Tree.leaf? : Tree → Option Sc
  | .leaf s => some s
  | .node _ => none

/-- a tree of depth ≤ 1 as an attribute value (deeper nesting is outside the universe) -/
def Tree.toVal? : Tree → Option Val
  | .leaf s => some (.sc s)
  | .node l => (l.mapM Tree.leaf?).map .list

/-- `utils.isiterable` (strings are rejected) -/
def Tree.isIterable : Tree → Bool
  | .leaf _ => false
  | .node _ => true

def Val.isIterable : Val → Bool
  | .sc _ => false
  | .list _ => true

/-- `x if isiterable(x) else [x]` -/
def Val.wrap : Val → List Sc
  | .sc s => [s]
  | .list l => l

/-- numeric value of a scalar as Python compares it (`True == 1`) -/
def Sc.num? : Sc → Option Rat
  | .bool b => some (if b then 1 else 0)
  | .int i => some (i : Rat)
  | .flt q => some q
  | _ => Option.none

/-- Python `==` on scalars -/
def Sc.pyEq (a b : Sc) : Bool :=
  match a.num?, b.num? with
  | some x, some y => x == y
  | Option.none, Option.none => a == b
  | _, _ => false

def pyEqL : List Sc → List Sc → Bool
  | [], [] => true
  | a :: as, b :: bs => a.pyEq b && pyEqL as bs
  | _, _ => false

/-- Python `==` on values -/
def Val.pyEq : Val → Val → Bool
  | .sc a, .sc b => a.pyEq b
  | .list a, .list b => pyEqL a b
  | _, _ => false

/-- flattened length: `np.atleast_1d(flatten(x)).size` -/
def Tree.flatSize (t : Tree) : Nat := t.flat.length

/-! ## dictionaries -/

abbrev Dict := List (String × Val)

def dget (d : Dict) (k : String) : Option Val := d.lookup k
def dhas (d : Dict) (k : String) : Bool := (d.lookup k).isSome
/-- `d[k] = v` (position kept when the key exists, appended otherwise) -/
def dset : Dict → String → Val → Dict
  | [], k, v => [(k, v)]
  | (k', v') :: r, k, v => if k' = k then (k, v) :: r else (k', v') :: dset r k v
def ddel (d : Dict) (k : String) : Dict := d.filter (fun p => p.1 ≠ k)
def dkeys (d : Dict) : List String := d.map (·.1)

/-- `getattr(obj, k)` on a plain object -/
def attr (d : Dict) (k : String) : Except Err Val :=
  match dget d k with
  | some v => .ok v
  | none => .error .attribute

/-- no leading and no trailing underscore: `k[0] != '_' and k[-1] != '_'`, also `k == k.strip('_')` -/
def isPub (k : String) : Bool :=
  match k.toList with
  | [] => true
  | c :: cs => c != '_' && (c :: cs).getLast? != some '_'

def strList (v : Option Val) : List String :=
  match v with
  | some (.list l) => l.filterMap (fun s => match s with | .str x => some x | _ => Option.none)
  | _ => []

/-- `self._exclude` -/
def excludeOf (d : Dict) : List String := strList (dget d "_exclude")

/-- `Core.get_params(deep)` (`_include` is always empty in pyGAM) -/
def getParams (d : Dict) (deep : Bool) : Dict :=
  if deep then d else d.filter (fun p => isPub p.1 && !(excludeOf d).contains p.1)

/-- `Core.set_params(deep, force, **params)` over an abstract object: `names` are the keys of
`get_params(deep)` taken before the loop, `has` is `hasattr`, `set` is `setattr` -/
def setParamsG {σ : Type} (names : List String) (has : σ → String → Bool)
    (set : σ → String → Tree → Except Err σ) (force : Bool) : σ → List (String × Tree) → Except Err σ
  | o, [] => .ok o
  | o, (k, v) :: ps =>
    if names.contains k || force || (has o k && isPub k) then do
      let o' ← set o k v
      setParamsG names has set force o' ps
    else setParamsG names has set force o ps

/-- `set_params` on a plain object (atoms): `setattr` writes the dictionary, no validation -/
def dsetTree (d : Dict) (k : String) (v : Tree) : Except Err Dict :=
  match v.toVal? with
  | some x => .ok (dset d k x)
  | none => .error .unsupported

def setParamsD (d : Dict) (deep force : Bool) (ps : List (String × Tree)) : Except Err Dict :=
  setParamsG (dkeys (getParams d deep)) dhas dsetTree force d ps

/-! ## term lists: flatten, de-duplicate on the key, keep the first, preserve order -/

section mkList
variable {τ κ : Type} [DecidableEq κ]

/-- `deduplicate(term, term_list, uniques_dict)` -/
def addUnique (key : τ → κ) (acc : List τ) (t : τ) : List τ :=
  if acc.any (fun u => key u = key t) then acc else acc ++ [t]

/-- the arguments of `TermList(*terms)`: a term or a term list -/
def flattenArgs : List (τ ⊕ List τ) → List τ
  | [] => []
  | .inl t :: r => t :: flattenArgs r
  | .inr l :: r => l ++ flattenArgs r

def dedup (key : τ → κ) (l : List τ) : List τ := l.foldl (addUnique key) []

/-- `TermList.__init__` -/
def mkList (key : τ → κ) (args : List (τ ⊕ List τ)) : List τ := dedup key (flattenArgs args)
end mkList

/-! ## atoms (intercept, linear, spline, factor terms) -/

inductive Kind | intercept | linear | spline | factor
  deriving DecidableEq, Repr

structure Atom where
  kind : Kind
  d : Dict
  deriving DecidableEq, Repr

def Kind.typeName : Kind → String
  | .intercept => "intercept_term"
  | .linear => "linear_term"
  | .spline => "spline_term"
  | .factor => "factor_term"

def kindOfType : String → Option Kind
  | "intercept_term" => some .intercept
  | "linear_term" => some .linear
  | "spline_term" => some .spline
  | "factor_term" => some .factor
  | _ => none

def vstr (s : String) : Val := .sc (.str s)
def vnone : Val := .sc .none
def vbool (b : Bool) : Val := .sc (.bool b)
def vint (i : Int) : Val := .sc (.int i)
def vstrs (l : List String) : Val := .list (l.map .str)

def penaltyNames : List String := ["auto", "derivative", "l2", "none", "periodic"]
def constraintNames : List String := ["convex", "concave", "monotonic_inc", "monotonic_dec", "none"]

/-- `callable(p) or p in PENALTIES or p is None` (callables are outside the universe) -/
def okName (names : List String) : Sc → Bool
  | .none => true
  | .str s => names.contains s
  | _ => false

/-- `check_param(x, dtype, '>= 0')` on one scalar -/
def checkSc : Sc → Except Err Unit
  | .none => .error .type
  | .str _ => .error .value
  | s => match s.num? with
    | some q => if 0 ≤ q then .ok () else .error .value
    | Option.none => .ok ()

def checkAll : List Sc → Except Err Unit
  | [] => .ok ()
  | s :: r => do checkSc s; checkAll r

/-- `check_param` on a value (an empty list makes the `eval` of the constraint fail with a `NameError`:
`repr(np.array([]))` mentions `float64`) -/
def checkParam : Val → Except Err Unit
  | .sc s => checkSc s
  | .list [] => .error .name
  | .list l => checkAll l

/-- `[x] * k if len == 1` -/
def broadcastLam (lam : List Sc) (k : Nat) : List Sc :=
  match lam with
  | [x] => List.replicate k x
  | l => l

/-- `Term._validate_arguments` -/
def validateBase (d : Dict) : Except Err Dict := do
  let dtype ← attr d "dtype"
  if !(dtype == vstr "numerical" || dtype == vstr "categorical") then .error .value else
  let fl ← attr d "fit_linear"
  let fs ← attr d "fit_splines"
  if fl.pyEq fs then .error .value else
  let pens := (← attr d "penalties").wrap
  let d := dset d "penalties" (.list pens)
  if !(pens.all (okName penaltyNames)) then .error .value else
  let lam := (← attr d "lam").wrap
  let d := dset d "lam" (.list lam)
  checkAll lam
  let lam := broadcastLam lam pens.length
  let d := dset d "lam" (.list lam)
  if lam.length ≠ pens.length then .error .value else
  let cons := (← attr d "constraints").wrap
  let d := dset d "constraints" (.list cons)
  if !(cons.all (okName constraintNames)) then .error .value else
  .ok d

/-- Python's `a > b` on two lists of numbers (lexicographic; a proper prefix is smaller) -/
def lexGt : List Rat → List Rat → Bool
  | [], _ => false
  | _ :: _, [] => true
  | x :: xs, y :: ys => if x == y then lexGt xs ys else decide (y < x)

def numsOf : List Sc → Option (List Rat)
  | [] => some []
  | s :: r => match s.num?, numsOf r with
    | some x, some xs => some (x :: xs)
    | _, _ => Option.none

/-- `self.n_splines > self.spline_order` as Python evaluates it: numbers are compared as numbers, two lists
lexicographically (un-validated states written by `set_params`), a list against a number is a `TypeError` -/
def splineSizeGt (ns so : Val) : Except Err Bool :=
  match ns, so with
  | .sc a, .sc b =>
    match a.num?, b.num? with
    | some x, some y => .ok (decide (y < x))
    | _, _ => .error .type
  | .list la, .list lb =>
    match numsOf la, numsOf lb with
    | some xs, some ys => .ok (lexGt xs ys)
    | _, _ => .error .type
  | _, _ => .error .type

/-- the extra checks of `SplineTerm._validate_arguments` -/
def validateSpline (d : Dict) : Except Err Dict := do
  let basis ← attr d "basis"
  if !(basis == vstr "ps" || basis == vstr "cp") then .error .value else
  let ns ← attr d "n_splines"
  checkParam ns
  let so ← attr d "spline_order"
  checkParam so
  let gt ← splineSizeGt ns so
  if !gt then .error .value else
  let by_ ← attr d "by"
  if by_ == vnone then .ok d else do
    checkParam by_
    .ok d

/-- the extra check of `FactorTerm._validate_arguments` -/
def validateFactor (d : Dict) : Except Err Dict := do
  let c ← attr d "coding"
  if !(c == vstr "one-hot" || c == vstr "dummy") then .error .value else .ok d

/-- `term._validate_arguments()` dispatched on the class -/
def validateK : Kind → Dict → Except Err Dict
  | .intercept, d => .ok d
  | .linear, d => validateBase d
  | .spline, d => validateBase d >>= validateSpline
  | .factor, d => validateBase d >>= validateSpline >>= validateFactor

def Atom.validate (a : Atom) : Except Err Atom := (validateK a.kind a.d).map (fun d => { a with d := d })

/-- the default `lam = 0.6` (the IEEE double, exactly) -/
def lamDefault : Val := .sc (.flt (5404319552844595 / 9007199254740992))

/-- keyword names accepted by the constructors -/
def kwNames : Kind → List String
  | .intercept => ["verbose"]
  | .linear => ["feature", "lam", "penalties", "verbose"]
  | .spline => ["feature", "n_splines", "spline_order", "lam", "penalties", "constraints", "dtype", "basis",
                "by", "edge_knots", "verbose"]
  | .factor => ["feature", "lam", "penalties", "coding", "verbose"]

def kwGet (kw : Dict) (k : String) (dflt : Val) : Val := (dget kw k).getD dflt

def coreTail (exclude : List String) : Dict :=
  [("_line_width", vint 70), ("_line_offset", vint 3), ("_exclude", vstrs exclude), ("_include", .list [])]

/-- the instance dictionary right after the attribute assignments of `__init__` (before validation);
`_exclude` already holds its final content (it is only read by `get_params`) -/
def rawAtom (k : Kind) (kw : Dict) : Except Err Dict :=
  if kw.any (fun p => !(kwNames k).contains p.1) then .error .type else
  match k with
  | .intercept =>
    .ok ([("_name", vstr "intercept_term"), ("_minimal_name", vstr "intercept"), ("feature", vnone), ("lam", vnone),
          ("dtype", vstr "numerical"), ("fit_linear", vbool false), ("fit_splines", vbool false),
          ("penalties", vnone), ("constraints", vnone), ("verbose", kwGet kw "verbose" (vbool false))]
         ++ coreTail ["fit_splines", "fit_linear", "lam", "penalties", "constraints", "feature", "dtype"]
         ++ [("_args", .list [])])
  | .linear =>
    match dget kw "feature" with
    | none => .error .type
    | some f =>
      .ok ([("_name", vstr "linear_term"), ("_minimal_name", vstr "l"), ("feature", f),
            ("lam", kwGet kw "lam" lamDefault), ("dtype", vstr "numerical"), ("fit_linear", vbool true),
            ("fit_splines", vbool false), ("penalties", kwGet kw "penalties" (vstr "auto")), ("constraints", vnone),
            ("verbose", kwGet kw "verbose" (vbool false))]
           ++ coreTail ["fit_splines", "fit_linear", "dtype", "constraints"])
  | .spline =>
    match dget kw "feature" with
    | none => .error .type
    | some f =>
      let ek := kwGet kw "edge_knots" vnone
      .ok ([("basis", kwGet kw "basis" (vstr "ps")), ("n_splines", kwGet kw "n_splines" (vint 20)),
            ("spline_order", kwGet kw "spline_order" (vint 3)), ("by", kwGet kw "by" vnone),
            ("_name", vstr "spline_term"), ("_minimal_name", vstr "s"), ("edge_knots", ek)]
           ++ (if ek == vnone then [] else [("edge_knots_", ek)])
           ++ [("feature", f), ("lam", kwGet kw "lam" lamDefault), ("dtype", kwGet kw "dtype" (vstr "numerical")),
               ("fit_linear", vbool false), ("fit_splines", vbool true), ("penalties", kwGet kw "penalties" (vstr "auto")),
               ("constraints", kwGet kw "constraints" vnone), ("verbose", kwGet kw "verbose" (vbool false))]
           ++ coreTail ["fit_linear", "fit_splines"])
  | .factor =>
    match dget kw "feature" with
    | none => .error .type
    | some f =>
      .ok ([("coding", kwGet kw "coding" (vstr "one-hot")), ("basis", vstr "ps"), ("n_splines", vint 20),
            ("spline_order", vint 0), ("by", vnone), ("_name", vstr "factor_term"), ("_minimal_name", vstr "f"),
            ("edge_knots", vnone), ("feature", f), ("lam", kwGet kw "lam" lamDefault),
            ("dtype", vstr "categorical"), ("fit_linear", vbool false), ("fit_splines", vbool true),
            ("penalties", kwGet kw "penalties" (vstr "auto")), ("constraints", vnone),
            ("verbose", kwGet kw "verbose" (vbool false))]
           ++ coreTail ["fit_linear", "fit_splines", "dtype", "spline_order", "by", "n_splines", "basis", "constraints",
                        "edge_knots"])

/-- `Intercept(**kw)`, `LinearTerm(**kw)`, `SplineTerm(**kw)`, `FactorTerm(**kw)` -/
def construct (k : Kind) (kw : Dict) : Except Err Atom := do
  let d ← rawAtom k kw
  let d ← validateK k d
  .ok { kind := k, d := d }

def Atom.isIntercept (a : Atom) : Bool := a.kind == .intercept

/-- `Term.info` : `get_params()` plus `term_type = self._name` -/
def Atom.info (a : Atom) : Dict := dset (getParams a.d false) "term_type" ((dget a.d "_name").getD vnone)

/-- `Term.build_from_info` for the non-tensor classes; `dflt` is the class it is called on -/
def atomFromInfo (dflt : Kind) (info : Dict) : Except Err Atom :=
  match dget info "term_type" with
  | none => construct dflt info
  | some (.sc (.str ty)) =>
    match kindOfType ty with
    | some k => construct k (ddel info "term_type")
    | none => if ty = "tensor_term" ∨ ty = "term_list" ∨ ty = "term" then .error .unsupported else .error .key
  | some _ => .error .unsupported

/-! ## plural attributes -/

def pluralNames : List String :=
  ["feature", "dtype", "fit_linear", "fit_splines", "lam", "n_splines", "spline_order", "constraints", "penalties",
   "basis", "edge_knots_"]

/-- read-only class-level names (properties): `hasattr` is true, `setattr` raises `AttributeError` -/
def propNames : List String := ["info", "n_coefs", "istensor", "isintercept", "hasconstraint"]

/-- `getattr(term, name, None)` on an atom -/
def Atom.getD (a : Atom) (name : String) : Tree :=
  match dget a.d name with
  | some v => v.toTree
  | none => .leaf .none

/-- the value handed to one term: `vals[0] if n == 1 else vals` -/
def packVals (vals : List Sc) : Tree :=
  match vals with
  | [x] => .leaf x
  | l => .node (l.map .leaf)

/--
The loop of `MetaTermMixin.__setattr__` over `terms[::-1]` (the list is given *reversed*: head = last term).
`skip` = `isintercept`, `arity t` = `np.atleast_1d(getattr(t, name)).size`, `setOne` = `setattr` +
`_validate_arguments`.  Values are popped from the end; running out of values is an `IndexError`;
left-over values are ignored.  The result is again in reversed order.
-/
def distR {τ : Type} (skip : τ → Bool) (arity : τ → Except Err Nat) (setOne : τ → Tree → Except Err τ) :
    List τ → List Sc → Except Err (List τ)
  | [], _ => .ok []
  | t :: ts, vals =>
    if skip t then do
      let r ← distR skip arity setOne ts vals
      .ok (t :: r)
    else do
      let n ← arity t
      if vals.length < n then .error .index else
      let t' ← setOne t (packVals (vals.drop (vals.length - n)))
      let r ← distR skip arity setOne ts (vals.take (vals.length - n))
      .ok (t' :: r)

/-- `MetaTermMixin.__setattr__` for a plural name: `size` is the flattened length of the current value -/
def setSeq {τ : Type} (skip : τ → Bool) (arity : τ → Except Err Nat) (setOne : τ → Tree → Except Err τ)
    (size : Nat) (value : Tree) (terms : List τ) : Except Err (List τ) :=
  let vals : Except Err (List Sc) :=
    match value with
    | .leaf s => .ok (List.replicate size s)
    | .node l => if (flatL l).length ≠ size then .error .value else .ok (flatL l)
  do
    let vs ← vals
    let r ← distR skip arity setOne terms.reverse vs
    .ok r.reverse

/-- `np.atleast_1d(flatten(getattr(atom, name))).size` -/
def Atom.arity (name : String) (a : Atom) : Except Err Nat := do
  let v ← attr a.d name
  .ok v.toTree.flatSize

/-- `setattr(atom, name, v); atom._validate_arguments()` -/
def Atom.setOne (name : String) (a : Atom) (v : Tree) : Except Err Atom := do
  let d ← dsetTree a.d name v
  Atom.validate { a with d := d }

/-! ## tensor terms and terms -/

inductive Term
  | atom (a : Atom)
  | tensor (d : Dict) (ms : List Atom)
  deriving DecidableEq, Repr

def Term.isIntercept : Term → Bool
  | .atom a => a.isIntercept
  | .tensor _ _ => false

/-- `getattr(tensor, name)` for a plural name: the marginals' values, intercepts skipped -/
def tensorGet (ms : List Atom) (name : String) : Tree :=
  .node ((ms.filter (fun a => !a.isIntercept)).map (fun a => a.getD name))

/-- `setattr(tensor, name, value)` for a plural name -/
def tensorSet (ms : List Atom) (name : String) (value : Tree) : Except Err (List Atom) :=
  setSeq Atom.isIntercept (Atom.arity name) (Atom.setOne name) (tensorGet ms name).flatSize value ms

def validateAtoms : List Atom → Except Err (List Atom)
  | [] => .ok []
  | a :: r => do
      let a' ← a.validate
      let r' ← validateAtoms r
      .ok (a' :: r')

/-- `term._validate_arguments()` -/
def Term.validate : Term → Except Err Term
  | .atom a => a.validate.map .atom
  | .tensor d ms => (validateAtoms ms).map (.tensor d)

/-- `getattr(term, name, None)` as used by the plural getter of a term list -/
def Term.getD (t : Term) (name : String) : Tree :=
  match t with
  | .atom a => a.getD name
  | .tensor d ms =>
    match dget d name with
    | some v => v.toTree
    | none => if pluralNames.contains name then tensorGet ms name else .leaf .none

/-- `np.atleast_1d(flatten(getattr(term, name))).size` (flattened first: marginals of a tensor term may hold
different numbers of values) -/
def Term.arity (name : String) (t : Term) : Except Err Nat :=
  match t with
  | .atom a => a.arity name
  | .tensor d ms =>
    match dget d name with
    | some v => .ok v.toTree.flatSize
    | none => if pluralNames.contains name then .ok (tensorGet ms name).flatSize else .error .attribute

/-- `setattr(term, name, v)` (any name) -/
def Term.setattr (t : Term) (name : String) (v : Tree) : Except Err Term :=
  if propNames.contains name then .error .attribute else
  match t with
  | .atom a => (dsetTree a.d name v).map (fun d => .atom { a with d := d })
  | .tensor d ms =>
    if pluralNames.contains name then (tensorSet ms name v).map (.tensor (ddel d name))
    else (dsetTree d name v).map (fun d' => .tensor d' ms)

/-- `setattr(term, name, v); term._validate_arguments()` inside the loop of a term list -/
def Term.setOne (name : String) (t : Term) (v : Tree) : Except Err Term := do
  let t' ← t.setattr name v
  t'.validate

/-- `getattr(term, name)` (any name; properties are outside the universe) -/
def Term.getattr (t : Term) (name : String) : Except Err Tree :=
  if propNames.contains name then .error .unsupported else
  match t with
  | .atom a => (attr a.d name).map Val.toTree
  | .tensor d ms =>
    match dget d name with
    | some v => .ok v.toTree
    | none => if pluralNames.contains name then .ok (tensorGet ms name) else .error .attribute

def Term.hasattr (t : Term) (name : String) : Bool :=
  propNames.contains name ||
  match t with
  | .atom a => dhas a.d name
  | .tensor d _ => dhas d name || pluralNames.contains name

def Term.dict : Term → Dict
  | .atom a => a.d
  | .tensor d _ => d

/-- `term.set_params(deep, force, **ps)` -/
def Term.setParams (t : Term) (deep force : Bool) (ps : List (String × Tree)) : Except Err Term :=
  setParamsG (dkeys (getParams t.dict deep)) Term.hasattr Term.setattr force t ps

/-- info of a term: the dictionary and, for a tensor term, the infos of the marginals -/
structure TermInfo where
  d : Dict
  sub : Option (List Dict)
  deriving DecidableEq, Repr

def Term.info : Term → TermInfo
  | .atom a => { d := a.info, sub := none }
  | .tensor d ms =>
    { d := dset (getParams d false) "term_type" ((dget d "_name").getD vnone), sub := some (ms.map Atom.info) }

def tensorExclude : List String :=
  ["feature", "dtype", "fit_linear", "fit_splines", "lam", "n_splines", "spline_order", "constraints", "penalties",
   "basis", "edge_knots"]

/-- one argument of `te(...)`: an existing term or a feature index -/
inductive TeArg
  | term (a : Atom)
  | tensor            -- a TensorTerm (rejected)
  | feat (f : Sc)

def nthKw (m : Nat) (kw : List (String × Tree)) : Except Err (List (String × List Tree)) :=
  match kw with
  | [] => .ok []
  | (k, v) :: r => do
      let vs ← match v with
        | .leaf s => .ok (List.replicate m (Tree.leaf s))
        | .node l => if l.length ≠ m then .error .value else .ok l
      let r' ← nthKw m r
      .ok ((k, vs) :: r')

def kwAt (kw : List (String × List Tree)) (i : Nat) : Except Err Dict :=
  match kw with
  | [] => .ok []
  | (k, vs) :: r =>
    match vs[i]? with
    | some t =>
      match t.toVal? with
      | some v => do let r' ← kwAt r i; .ok ((k, v) :: r')
      | none => .error .unsupported
    | none => .error .unsupported

def parseTerms (kw : List (String × List Tree)) : Nat → List TeArg → Except Err (List Atom)
  | _, [] => .ok []
  | _, .tensor :: _ => .error .value
  | i, .term a :: r => do
      let r' ← parseTerms kw (i + 1) r
      .ok (a :: r')
  | i, .feat f :: r => do
      let kwi ← kwAt kw i
      if dhas kwi "feature" then .error .type else
      let kws := kwi.foldl (fun acc p => dset acc p.1 p.2) [("n_splines", vint 10)]
      let a ← construct .spline (dset kws "feature" (.sc f))
      let r' ← parseTerms kw (i + 1) r
      .ok (a :: r')

/-- `TensorTerm(*args, by=…, verbose=…, **kw)` : `_parse_terms`, the `by` check of the inherited validation,
and the instance dictionary that remains after the `delattr` loop -/
def mkTensor (args : List TeArg) (by_ verbose : Val) (kw : List (String × Tree)) : Except Err Term := do
  if args.length < 2 then .error .value else
  let kws ← nthKw args.length kw
  let ms ← parseTerms kws 0 args
  if by_ == vnone then pure () else checkParam by_
  .ok (.tensor ([("verbose", verbose), ("by", by_), ("_name", vstr "tensor_term"), ("_minimal_name", vstr "te")]
                ++ coreTail tensorExclude) ms)

def atomsFromInfo : List Dict → Except Err (List Atom)
  | [] => .ok []
  | i :: r => do
      let a ← atomFromInfo .spline i
      let r' ← atomsFromInfo r
      .ok (a :: r')

/-- `Term.build_from_info(info)` -/
def Term.fromInfo (i : TermInfo) : Except Err Term :=
  match dget i.d "term_type" with
  | some (.sc (.str "tensor_term")) =>
    match i.sub with
    | none => .error .key
    | some subs => do
        let ms ← atomsFromInfo subs
        mkTensor (ms.map .term) (kwGet i.d "by" vnone) (kwGet i.d "verbose" (vbool false)) []
  | _ => (atomFromInfo .spline i.d).map .atom

/-! ## term lists -/

/-- the de-duplication key `str(sorted(term.info.items()))`: the items sorted by name (the infos of the
marginals of a tensor are printed in insertion order) -/
def insertSorted (p : String × Val) : Dict → Dict
  | [] => [p]
  | q :: r => if p.1 ≤ q.1 then p :: q :: r else q :: insertSorted p r

def sortDict (d : Dict) : Dict := d.foldr insertSorted []

def Term.key (t : Term) : TermInfo := { d := sortDict t.info.d, sub := t.info.sub }

structure TermList where
  d : Dict
  terms : List Term
  deriving DecidableEq, Repr

def termListExclude : List String :=
  ["feature", "dtype", "fit_linear", "fit_splines", "lam", "n_splines", "spline_order", "constraints", "penalties",
   "basis"]

def Term.verbose (t : Term) : Bool := (dget t.dict "verbose").getD vnone == vbool true

/-- truthiness of `term.verbose` -/
def Val.truthy : Val → Bool
  | .sc .none => false
  | .sc (.bool b) => b
  | .sc (.int i) => i ≠ 0
  | .sc (.flt q) => q ≠ 0
  | .sc (.str s) => s ≠ ""
  | .list l => !l.isEmpty

/-- `TermList(*args, verbose=v)` -/
def TermList.mk' (args : List (Term ⊕ List Term)) (verbose : Bool) : TermList :=
  let ts := mkList Term.key args
  { d := [("_name", vnone), ("_line_width", vint 70), ("_line_offset", vint 3), ("_exclude", vstrs termListExclude),
          ("_include", .list []),
          ("verbose", vbool (ts.any (fun t => ((dget t.dict "verbose").getD vnone).truthy) || verbose))],
    terms := ts }

/-- `a + b` for terms / term lists -/
def TermList.add (a b : Term ⊕ List Term) : TermList := TermList.mk' [a, b] false

def TermList.hasTerms (l : TermList) : Bool := !l.terms.isEmpty

/-- `getattr(termlist, name)` for a plural name -/
def getPlural (ts : List Term) (name : String) : Tree :=
  .node ((ts.filter (fun t => !t.isIntercept)).map (fun t => t.getD name))

/-- `setattr(termlist, name, value)` for a plural name; `size` from the current value of the attribute -/
def setPluralSized (size : Nat) (ts : List Term) (name : String) (value : Tree) : Except Err (List Term) :=
  setSeq Term.isIntercept (Term.arity name) (Term.setOne name) size value ts

def setPlural (ts : List Term) (name : String) (value : Tree) : Except Err (List Term) :=
  setPluralSized (getPlural ts name).flatSize ts name value

def listPropNames : List String := ["info", "n_coefs", "hasconstraint"]

def TermList.getattr (l : TermList) (name : String) : Except Err Tree :=
  if listPropNames.contains name then .error .unsupported else
  match dget l.d name with
  | some v => .ok v.toTree
  | none => if l.hasTerms && pluralNames.contains name then .ok (getPlural l.terms name) else .error .attribute

def TermList.setattr (l : TermList) (name : String) (v : Tree) : Except Err TermList :=
  if listPropNames.contains name then .error .attribute else
  if l.hasTerms && pluralNames.contains name then
    (setPlural l.terms name v).map (fun ts => { d := ddel l.d name, terms := ts })
  else (dsetTree l.d name v).map (fun d => { l with d := d })

def TermList.hasattr (l : TermList) (name : String) : Bool :=
  listPropNames.contains name || dhas l.d name || (l.hasTerms && pluralNames.contains name)

def TermList.setParams (l : TermList) (deep force : Bool) (ps : List (String × Tree)) : Except Err TermList :=
  setParamsG (dkeys (getParams l.d deep) ++ (if deep then ["_terms"] else [])) TermList.hasattr TermList.setattr force l ps

structure ListInfo where
  verbose : Val
  terms : List TermInfo
  deriving DecidableEq, Repr

def TermList.info (l : TermList) : ListInfo :=
  { verbose := (dget l.d "verbose").getD vnone, terms := l.terms.map Term.info }

def termsFromInfo : List TermInfo → Except Err (List Term)
  | [] => .ok []
  | i :: r => do
      let t ← Term.fromInfo i
      let r' ← termsFromInfo r
      .ok (t :: r')

/-- `TermList.build_from_info(info)` -/
def TermList.fromInfo (i : ListInfo) : Except Err TermList := do
  let ts ← termsFromInfo i.terms
  .ok (TermList.mk' (ts.map .inl) i.verbose.truthy)

/-! ## compile: the data-dependent state -/

/-- what `compile` reads from one feature column: min, max, number of distinct values -/
structure FeatData where
  lo : Rat
  hi : Rat
  nuniq : Nat

def genEdgeKnots (fd : FeatData) (dtype : Val) : Except Err Val :=
  if dtype == vstr "categorical" then .ok (.list [.flt (fd.lo - 1/2), .flt (fd.hi + 1/2)])
  else if dtype == vstr "numerical" then .ok (.list [.flt fd.lo, .flt fd.hi])
  else .error .value

/-- `data[:, feature]` after the `feature >= X.shape[1]` check -/
def featData (data : List FeatData) (f : Val) : Except Err FeatData :=
  match f with
  | .sc (.int i) =>
    if i ≥ data.length then .error .value
    else if i < 0 then .error .unsupported
    else match data[i.toNat]? with
      | some fd => .ok fd
      | none => .error .value
  | _ => .error .unsupported

/-- the `by >= X.shape[1]` check -/
def checkBy (data : List FeatData) (by_ : Val) : Except Err Unit :=
  match by_ with
  | .sc .none => .ok ()
  | .sc (.int b) => if b ≥ data.length then .error .value else .ok ()
  | _ => .error .unsupported

/-- `SplineTerm.compile`: user knots win, otherwise the knots follow the data -/
def splineKnots (d : Dict) (fd : FeatData) : Except Err Val :=
  if (dget d "edge_knots").getD vnone == vnone then do
    let dt ← attr d "dtype"
    genEdgeKnots fd dt
  else .ok ((dget d "edge_knots").getD vnone)

def compileAtom (data : List FeatData) (a : Atom) : Except Err Atom :=
  match a.kind with
  | .intercept => .ok a
  | .linear => do
      let f ← attr a.d "feature"
      let fd ← featData data f
      let dt ← attr a.d "dtype"
      let ek ← genEdgeKnots fd dt
      .ok { a with d := dset a.d "edge_knots_" ek }
  | .spline => do
      let f ← attr a.d "feature"
      let fd ← featData data f
      let by_ ← attr a.d "by"
      checkBy data by_
      let ek ← splineKnots a.d fd
      .ok { a with d := dset a.d "edge_knots_" ek }
  | .factor => do
      let f ← attr a.d "feature"
      let fd ← featData data f
      let by_ ← attr a.d "by"
      checkBy data by_
      let ek ← splineKnots a.d fd
      let dt ← attr (dset (dset a.d "edge_knots_" ek) "n_splines" (vint fd.nuniq)) "dtype"
      let g ← genEdgeKnots fd dt
      .ok { a with d := dset (dset (dset a.d "edge_knots_" ek) "n_splines" (vint fd.nuniq)) "edge_knots_" g }

def compileAtoms (data : List FeatData) : List Atom → Except Err (List Atom)
  | [] => .ok []
  | a :: r => do
      let a' ← compileAtom data a
      let r' ← compileAtoms data r
      .ok (a' :: r')

def compileTerm (data : List FeatData) : Term → Except Err Term
  | .atom a => (compileAtom data a).map .atom
  | .tensor d ms => do
      let ms' ← compileAtoms data ms
      checkBy data ((dget d "by").getD vnone)
      .ok (.tensor d ms')

def compileTerms (data : List FeatData) : List Term → Except Err (List Term)
  | [] => .ok []
  | t :: r => do
      let t' ← compileTerm data t
      let r' ← compileTerms data r
      .ok (t' :: r')

def TermList.compile (data : List FeatData) (l : TermList) : Except Err TermList :=
  (compileTerms data l.terms).map (fun ts => { l with terms := ts })

/-! ## GAM: keyword hand-over -/

inductive TermsSpec
  | auto
  | none
  | list (l : TermList)

/-- the part of a GAM that matters here: plural keywords stored on the model (`own`, a sub-dictionary of
`gam.__dict__` in insertion order), `terms`, `fit_intercept`, `verbose` -/
structure Gam where
  own : List (String × Tree)
  terms : TermsSpec
  fitIntercept : Bool
  verbose : Bool

def ownGet (own : List (String × Tree)) (k : String) : Option Tree := own.lookup k
def ownSet : List (String × Tree) → String → Tree → List (String × Tree)
  | [], k, v => [(k, v)]
  | (k', v') :: r, k, v => if k' = k then (k, v) :: r else (k', v') :: ownSet r k v

/-- `GAM.__init__(terms, fit_intercept, verbose, **kwargs)`; during `__init__` the instance has no terms
location yet, so plural keywords land in the instance dictionary -/
def Gam.init (terms : TermsSpec) (fitIntercept verbose : Bool) (kw : List (String × Tree)) : Except Err Gam :=
  if kw.any (fun p => !pluralNames.contains p.1) then .error .type
  else .ok { own := kw.foldl (fun acc p => ownSet acc p.1 p.2) [], terms := terms, fitIntercept := fitIntercept,
             verbose := verbose }

def Gam.termList? (g : Gam) : Option TermList :=
  match g.terms with
  | .list l => if l.hasTerms then some l else Option.none
  | _ => Option.none

/-- `getattr(gam, name)` for a plural name: the instance dictionary first, then the terms -/
def Gam.getattr (g : Gam) (name : String) : Except Err Tree :=
  match ownGet g.own name with
  | some v => .ok v
  | none =>
    match g.termList? with
    | some l => if pluralNames.contains name then .ok (getPlural l.terms name) else .error .attribute
    | none => .error .attribute

def ownDel (own : List (String × Tree)) (k : String) : List (String × Tree) := own.filter (fun p => p.1 ≠ k)

/-- `setattr(gam, name, value)` for a plural name: with terms, a keyword of that name stored by the constructor is
dropped (`self.__dict__.pop(name, None)`) and the value is distributed to the terms; without terms it is stored -/
def Gam.setattr (g : Gam) (name : String) (v : Tree) : Except Err Gam :=
  if !pluralNames.contains name then .error .unsupported else
  match g.termList? with
  | some l => do
      let ts ← setPlural l.terms name v
      .ok { g with own := ownDel g.own name, terms := .list { l with terms := ts } }
  | none => .ok { g with own := ownSet g.own name v }

def handOver : List (String × Tree) → TermList → Except Err TermList
  | [], l => .ok l
  | (k, v) :: r, l => do
      let l' ← l.setattr k v
      handOver r l'

def autoTerms (verbose : Bool) : Nat → Nat → Except Err (List Term)
  | _, 0 => .ok []
  | i, n + 1 => do
      let a ← construct .spline [("feature", vint i), ("verbose", vbool verbose)]
      let r ← autoTerms verbose (i + 1) n
      .ok (.atom a :: r)

/-- the first half of `GAM._validate_data_dep_params(X)`: `'auto'` ↦ one spline per feature, `None` ↦ no terms,
a user expression ↦ `TermList(terms, verbose=…)` (a fresh list: de-duplicated again); then `+ Intercept()` -/
def Gam.baseTerms (g : Gam) (data : List FeatData) : Except Err TermList := do
  let l0 ← match g.terms with
    | .auto => do
        let ts ← autoTerms g.verbose 0 data.length
        pure (TermList.mk' (ts.map .inl) false)
    | .none => pure (TermList.mk' [] false)
    | .list l => pure (TermList.mk' [.inr l.terms] g.verbose)
  if g.fitIntercept then do
    let i ← construct .intercept []
    pure (TermList.mk' [.inr l0.terms, .inl (.atom i)] false)
  else pure l0

/-- `GAM._validate_data_dep_params(X)` -/
def Gam.fit (g : Gam) (data : List FeatData) : Except Err Gam := do
  let l1 ← g.baseTerms data
  if l1.terms.isEmpty then .error .value else
  let l2 ← handOver g.own l1
  let l3 ← l2.compile data
  .ok { g with own := [], terms := .list l3 }

end PyGam.TA
