import PyGam.Model.Vec
/-!
# PyGam.Model.Exposure — mirrors the exposure handling of `PoissonGAM` (`pygam/pygam.py`) and
`PoissonDist.log_pdf` (`pygam/distributions.py`).  Mathlib-free.

* `optVec cast v`            : `np.array(v).astype('f')` when given, a vector of ones when `None`
* `exposureToWeights`        : `PoissonGAM._exposure_to_weights`  → `(y / exposure, weights * exposure)`
* `poissonFit`, `poissonGridsearch` : `PoissonGAM.fit`, `.gridsearch` = the base-class entry point applied to the converted data
* `predictExposure`          : `PoissonGAM.predict` = `predict_mu(X) * exposure`
* `rescaleCounts`            : `np.round(y * weights)` of `PoissonGAM._loglikelihood`
* `xlogy`, `poissonKernel`, `poissonLogPmf` : `scipy.stats.poisson.logpmf(k, mu) = xlogy(k, mu) - gammaln(k+1) - mu`
  (the normaliser `gammaln(k+1)` is a parameter `norm`)
* `logPdf`                   : `PoissonDist.log_pdf(y, mu, weights)` (mean `mu * weights`)
* `loglikelihood`            : `PoissonGAM.loglikelihood(X, y, exposure, weights)` given `mu = predict_mu(X)`
* `ylogydu`, `poissonDev`    : `utils.ylogydu`, `PoissonDist.deviance` (per observation, unweighted, scale 1)
* `irlsWeightSq`, `pseudoData` : square of the `GAM._W` diagonal and `GAM._pseudo_data` for Poisson / log link
* `roundHalfEven`, `castF32` : exact `np.round` and `astype('f')` on rationals (used by the driver)

The float32 cast `astype('f')` applied by the code to `exposure` and `weights` (never to `y`) is the
parameter `cast`; the harness uses float32-representable values (where it is the identity) and,
for `predict`, also values that are not (then the exact `castF32` below is what the code does).
-/
namespace PyGam.Exposure
variable {α : Type}

/-- natural logarithm (instances: `Float` here, `ℝ` in `Proofs/Exposure.lean`) -/
class LogOp (α : Type) where
  log : α → α

instance : LogOp Float := ⟨Float.log⟩

/-- an optional per-sample vector: `None` ↦ ones, otherwise cast elementwise (`astype('f')`) -/
def optVec [One α] (cast : α → α) : Option (Nat → α) → Nat → α
  | none => fun _ => 1
  | some v => fun i => cast (v i)

/-- `PoissonGAM._exposure_to_weights(y, exposure, weights)` → `(y / exposure, weights * exposure)`.
`y / exposure` is a double division (`y` is never cast).  `weights * exposure` is a product of two
float32 arrays when both are given, i.e. it is rounded to float32 again (the outer `cast`); when one
of them is omitted the product with the double ones is exact and the outer `cast` changes nothing
(`cast` is idempotent and fixes `1`).  The base `fit` / `gridsearch` cast their weights to float32
anyway, so the outer cast is only observable through `loglikelihood`. -/
def exposureToWeights [One α] [Mul α] [Div α] (cast : α → α) (y : Nat → α)
    (e w : Option (Nat → α)) : (Nat → α) × (Nat → α) :=
  (fun i => y i / optVec cast e i, fun i => cast (optVec cast w i * optVec cast e i))

/-- `PoissonGAM.fit(X, y, exposure, weights)`; `base rates weights` is `GAM.fit(X, rates, weights)` -/
def poissonFit {β : Type} [One α] [Mul α] [Div α] (base : (Nat → α) → (Nat → α) → β)
    (cast : α → α) (y : Nat → α) (e w : Option (Nat → α)) : β :=
  base (exposureToWeights cast y e w).1 (exposureToWeights cast y e w).2

/-- `PoissonGAM.gridsearch(X, y, exposure, weights, …)`; `base` is `GAM.gridsearch` with everything else fixed -/
def poissonGridsearch {β : Type} [One α] [Mul α] [Div α] (base : (Nat → α) → (Nat → α) → β)
    (cast : α → α) (y : Nat → α) (e w : Option (Nat → α)) : β :=
  base (exposureToWeights cast y e w).1 (exposureToWeights cast y e w).2

/-- `PoissonGAM.predict(X, exposure)` given `rate = predict_mu(X)` -/
def predictExposure [One α] [Mul α] (cast : α → α) (rate : Nat → α) (e : Option (Nat → α)) :
    Nat → α :=
  fun i => rate i * optVec cast e i

/-- `np.round(y * weights)` in `PoissonGAM._loglikelihood(rescale_y=True)` -/
def rescaleCounts [Mul α] (round : α → α) (yrate weights : Nat → α) : Nat → α :=
  fun i => round (yrate i * weights i)

/-- `scipy.special.xlogy(k, m)`: `0` when `k = 0`, else `k * log m` -/
def xlogy [Zero α] [Mul α] [LT α] [DecidableLT α] [LogOp α] (k m : α) : α :=
  if k < 0 ∨ 0 < k then k * LogOp.log m else 0

/-- Poisson log-pmf without its normaliser: `k log m − m` -/
def poissonKernel [Zero α] [Mul α] [Sub α] [LT α] [DecidableLT α] [LogOp α] (k m : α) : α :=
  xlogy k m - m

/-- `scipy.stats.poisson.logpmf(k, m)`; `norm k = gammaln(k + 1) = log k!` -/
def poissonLogPmf [Zero α] [Mul α] [Sub α] [LT α] [DecidableLT α] [LogOp α]
    (norm : α → α) (k m : α) : α :=
  poissonKernel k m - norm k

/-- `PoissonDist.log_pdf(y, mu, weights)` per observation: the mean is `mu * weights` -/
def logPdf [Zero α] [Mul α] [Sub α] [LT α] [DecidableLT α] [LogOp α]
    (norm : α → α) (y mu weights : Nat → α) : Nat → α :=
  fun i => poissonLogPmf norm (y i) (mu i * weights i)

/-- `PoissonGAM._loglikelihood(y, mu, weights, rescale_y=True)` -/
def loglikInner [Zero α] [Add α] [Mul α] [Sub α] [LT α] [DecidableLT α] [LogOp α]
    (round norm : α → α) (n : Nat) (yrate mu weights : Nat → α) : α :=
  sumTo n (logPdf norm (rescaleCounts round yrate weights) mu weights)

/-- `PoissonGAM.loglikelihood(X, y, exposure, weights)` with `mu = predict_mu(X)`: the weights are
cast once in `loglikelihood` and once more inside `_exposure_to_weights` -/
def loglikelihood [Zero α] [One α] [Add α] [Mul α] [Sub α] [Div α] [LT α] [DecidableLT α] [LogOp α]
    (cast round norm : α → α) (n : Nat) (mu y : Nat → α) (e w : Option (Nat → α)) : α :=
  let w' : Option (Nat → α) := w.map (fun v i => cast (v i))
  let rw := exposureToWeights cast y e w'
  loglikInner round norm n rw.1 mu rw.2

/-- the kernel part (no normaliser) of `loglikelihood`, what the `Float` driver evaluates -/
def loglikKernel [Zero α] [One α] [Add α] [Mul α] [Sub α] [Div α] [LT α] [DecidableLT α] [LogOp α]
    (cast round : α → α) (n : Nat) (mu y : Nat → α) (e w : Option (Nat → α)) : α :=
  loglikelihood cast round (fun _ => 0) n mu y e w

/-- the counts `np.round(y/e * (w*e))` that `loglikelihood` evaluates the pmf at -/
def loglikCounts [One α] [Mul α] [Div α] (cast round : α → α) (y : Nat → α)
    (e w : Option (Nat → α)) : Nat → α :=
  let w' : Option (Nat → α) := w.map (fun v i => cast (v i))
  let rw := exposureToWeights cast y e w'
  rescaleCounts round rw.1 rw.2

/-- `utils.ylogydu(y, u)`: `0` where `y = 0`, else `y log(y/u)` -/
def ylogydu [Zero α] [Mul α] [Div α] [LT α] [DecidableLT α] [LogOp α] (y u : α) : α :=
  if y < 0 ∨ 0 < y then y * LogOp.log (y / u) else 0

/-- `PoissonDist.deviance(y, mu)` per observation (scale 1, no weights): `2 (y log(y/mu) − (y − mu))` -/
def poissonDev [Zero α] [One α] [Add α] [Mul α] [Sub α] [Div α] [LT α] [DecidableLT α] [LogOp α]
    (y mu : α) : α :=
  (1 + 1) * (ylogydu y mu - (y - mu))

/-- weighted deviance `Σ w_i dev(y_i, mu_i)` (`multiply_weights`) -/
def weightedDev [Zero α] [One α] [Add α] [Mul α] [Sub α] [Div α] [LT α] [DecidableLT α] [LogOp α]
    (n : Nat) (y mu w : Nat → α) : α :=
  sumTo n (fun i => w i * poissonDev (y i) (mu i))

/-- square of the diagonal of `GAM._W` for Poisson / log link:
`(gradient(mu)² · V(mu) · weights⁻¹)⁻¹` with `gradient = 1/mu`, `V = mu` -/
def irlsWeightSq [One α] [Mul α] [Div α] (w mu : α) : α :=
  1 / ((1 / mu) * (1 / mu) * mu * (1 / w))

/-- `GAM._pseudo_data(y, lp, mu) = lp + (y − mu) · gradient(mu)` with the log link's `gradient = 1/mu` -/
def pseudoData [One α] [Add α] [Sub α] [Mul α] [Div α] (lp y mu : α) : α :=
  lp + (y - mu) * (1 / mu)

/-! ### exact `np.round` and `astype('f')` on rationals -/

/-- `np.round` (round half to even) of a rational -/
def roundHalfEven (q : Rat) : Int :=
  let f := q.floor
  let d := q - (f : Rat)
  if d < 1/2 then f else if 1/2 < d then f + 1 else if f % 2 = 0 then f else f + 1

/-- `2^k` for an integer exponent -/
def pow2 (k : Int) : Rat :=
  if 0 ≤ k then ((2 ^ k.toNat : Nat) : Rat) else 1 / ((2 ^ (-k).toNat : Nat) : Rat)

/-- round-to-nearest-even onto the IEEE binary32 grid (normal and subnormal range; no overflow
handling: callers stay below `2^128`) — what `astype('f')` followed by promotion to double yields -/
def castF32 (q : Rat) : Rat :=
  if q = 0 then 0 else
  let a := if q < 0 then -q else q
  let k0 : Int := (Nat.log2 a.num.natAbs : Int) - (Nat.log2 a.den : Int)
  let k : Int := if pow2 k0 ≤ a then k0 else k0 - 1
  let k : Int := if k < -126 then -126 else k
  let ulp := pow2 (k - 23)
  let r := ((roundHalfEven (a / ulp) : Int) : Rat) * ulp
  if q < 0 then -r else r

/-- `np.round` on doubles: half to even -/
def roundHalfEvenF (x : Float) : Float :=
  let f := Float.floor x
  let d := x - f
  if d < 0.5 then f else if 0.5 < d then f + 1
  else if Float.floor (f / 2) * 2 == f then f else f + 1

/-- `astype('f')` on doubles -/
def castF32F (x : Float) : Float := x.toFloat32.toFloat

end PyGam.Exposure
