import PyGam.Model.Vec
import PyGam.Model.Terms
import PyGam.Model.Pirls
/-!
# PyGam.Model.Invariance — the transformations of a fitting problem that C12 is about (Mathlib-free)

* row permutation: `permRows σ B`, `permVec σ v`
* affine change of units of a feature `x_f ↦ a_f x_f + b_f` : `mapRow` on data / query rows,
  `Marg.affineKnots` / `Term.affineKnots` on the compiled terms (what `compile` would have produced on the mapped
  data: `gen_edge_knots` is `min`/`max` of the column — `dataMin`, `dataMax` — and user-given `edge_knots` are
  mapped by the user along with the data)
* integer sample weights vs replication: `replIdx n w` lists row `i` exactly `w i` times
* the response-dependent statistics of a LinearGAM fit: weighted RSS, `scale = RSS / (n - edof)`,
  `GCV = n RSS / (n - γ edof)²`, `cov = K · scale` (`K = B Bᵀ` of the solve, independent of `y`), Wald statistic
-/
namespace PyGam.Inv
open PyGam
variable {α : Type}

/-! ### rows -/

def permVec (σ : Nat → Nat) (v : Nat → α) : Nat → α := fun r => v (σ r)
def permVecB (σ : Nat → Nat) (v : Nat → Bool) : Nat → Bool := fun r => v (σ r)
def permRows (σ : Nat → Nat) (B : Nat → Nat → α) : Nat → Nat → α := fun r j => B (σ r) j

/-- row `i` listed `w i` times, rows in order: the index list of the replicated data set -/
def replIdx (n : Nat) (w : Nat → Nat) : List Nat :=
  (List.range n).flatMap (fun i => List.replicate (w i) i)

/-- source row of replicated row `k` -/
def replSrc (l : List Nat) : Nat → Nat := fun k => l.getD k 0

/-! ### units of a feature -/

/-- `x_f ↦ a_f x_f + b_f` on a data row -/
def mapRow [Add α] [Mul α] (a b : Nat → α) (x : Nat → α) : Nat → α := fun f => a f * x f + b f

/-- minimum / maximum of `x 0 … x k` (`np.min`, `np.max` of a column with `k + 1` rows) -/
def dataMin [Min α] (x : Nat → α) : Nat → α
  | 0 => x 0
  | k+1 => min (dataMin x k) (x (k+1))

def dataMax [Max α] (x : Nat → α) : Nat → α
  | 0 => x 0
  | k+1 => max (dataMax x k) (x (k+1))

/-- compiled edge knots of a spline term after the change of units (data-derived or user-given alike) -/
def _root_.PyGam.Marg.affineKnots [Add α] [Mul α] (a b : Nat → α) (m : Marg α) : Marg α :=
  match m.kind with
  | .spline => { m with e0 := a m.feature * m.e0 + b m.feature, e1 := a m.feature * m.e1 + b m.feature }
  | .linear => m
  | .factor => m

def _root_.PyGam.Term.affineKnots [Add α] [Mul α] (a b : Nat → α) : Term α → Term α
  | .intercept => .intercept
  | .single m => .single (m.affineKnots a b)
  | .tensor ms by_ => .tensor (ms.map (Marg.affineKnots a b)) by_

/-! ### response-dependent statistics of a LinearGAM fit -/
section stats
variable [Zero α] [One α] [Add α] [Sub α] [Mul α] [Div α]

/-- weighted residual sum of squares `Σ w (y - μ)²` (= the unscaled normal deviance) -/
def rss (n : Nat) (w y mu : Nat → α) : α := sumTo n (fun r => w r * ((y r - mu r) * (y r - mu r)))

/-- `NormalDist.phi`: `scale = Σ w (y-μ)² / (n - edof)` -/
def scaleEst (nn edof rss : α) : α := rss / (nn - edof)

/-- `_estimate_GCV_UBRE` with unknown scale: `GCV = n · dev / (n - γ · edof)²` -/
def gcvScore (nn gamma edof dev : α) : α := (nn * dev) / ((nn - gamma * edof) * (nn - gamma * edof))

/-- `statistics_['cov'] = (B Bᵀ) · scale` -/
def covOf (K : Nat → Nat → α) (scale : α) : Nat → Nat → α := fun i j => K i j * scale

/-- Wald statistic `βᵀ M β` of a coefficient block (`M` the pseudo-inverse of its covariance block) -/
def wald (k : Nat) (M : Nat → Nat → α) (β : Nat → α) : α := bilin k M β β

/-- the centring applied to spline blocks before the test: `coef -= coef.mean()` -/
def centre (k : Nat) (kk : α) (β : Nat → α) : Nat → α := fun j => β j - sumTo k β / kk

end stats
end PyGam.Inv
