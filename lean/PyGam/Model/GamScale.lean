import PyGam.Model.DistState
import PyGam.Model.Heap
/-!
# PyGam.Model.GamScale — where the scale of a fitted model comes from, across fits and parameter changes (Mathlib-free)

`Model/DistState.lean` follows ONE distribution object through a sequence of estimates.  A model adds one step in front
of every fit: `_validate_params`.  For the classes of `Heap.Cls.recreatesDist` (`LinearGAM`, `GammaGAM`, `InvGaussGAM`,
`ExpectileGAM`; `Gen.classRecreatesDist` is the same table read off the source) it executes
`self.distribution = <Family>Dist(scale=self.scale)`: the model-level `scale` parameter *as it is at that moment* is
re-applied, so a `set_params(scale=…)` / `gam.scale = …` between two fits takes effect at the next fit, whatever the
earlier fits stored.  The other classes (`GAM`, `LogisticGAM`, `PoissonGAM`) keep their distribution object; there the
scale is supplied by handing the model a new distribution object.

* `GamScale`                : (class, the model's `scale` parameter, the state of its distribution object)
* `GamScale.new cls fam s`  : `LinearGAM(scale=s)` …, resp. `GAM(distribution=<Family>Dist(scale=s))`
* `ScaleEvent`              : `set_params(scale=s)` | `set_params(distribution=<Family>Dist(scale=s))` | `fit`
* `validateDist`            : the distribution a fit works with (`_validate_params`)
* `scaleStep`, `scaleHistory` : one event, a sequence of events
-/
namespace PyGam
open Heap (Cls)

/-- the part of a model that decides its scale -/
structure GamScale (α : Type) where
  cls : Cls
  /-- the model's own `scale` attribute (read only by the classes that recreate their distribution) -/
  scaleParam : Option α
  /-- the distribution object the model holds -/
  dist : DistState α

/-- what can happen to a model between / at fits, as far as the scale is concerned -/
inductive ScaleEvent (α : Type)
  /-- `gam.set_params(scale=s)` or `gam.scale = s` -/
  | setScale (s : Option α)
  /-- `gam.set_params(distribution=<Family>Dist(scale=s))` or `gam.distribution = <Family>Dist(scale=s)` -/
  | setDist (s : Option α)
  /-- `gam.fit(X, y, weights)`; `x` holds what `_estimate_model_statistics` hands to `phi` -/
  | fit (x : PhiData α)

variable {α : Type}

section defs
variable [Zero α] [One α] [Add α] [Sub α] [Mul α] [Div α] [LE α] [DecidableLE α] [HasLogSqrt α]

/-- the constructors: `LinearGAM(scale=s)` stores `s` and builds `NormalDist(scale=s)` (likewise gamma, inverse
gaussian, expectile); for a generic `GAM(distribution=<Family>Dist(scale=s))` only the distribution knows `s` -/
def GamScale.new (cls : Cls) (fam : Family) (s : Option α) : GamScale α :=
  ⟨cls, if cls.recreatesDist then s else none, mkDist fam s⟩

/-- `_validate_params`: `self.distribution = <Family>Dist(scale=self.scale)` for the recreating classes, else the
distribution object stays -/
def validateDist (g : GamScale α) (fam : Family) : DistState α :=
  if g.cls.recreatesDist then mkDist fam g.scaleParam else g.dist

/-- one event.  `fit`: `_validate_params`, then the scale lines of `_estimate_model_statistics` (`estimateStep`);
`statistics_['scale']` is the `scale` of the resulting distribution state. -/
def scaleStep (g : GamScale α) (fam : Family) (levels : α) : ScaleEvent α → GamScale α
  | .setScale s => { g with scaleParam := s }
  | .setDist s => { g with dist := mkDist fam s }
  | .fit x => { g with dist := estimateStep (validateDist g fam) fam levels x }

/-- a sequence of events on the same model object -/
def scaleHistory (g : GamScale α) (fam : Family) (levels : α) : List (ScaleEvent α) → GamScale α
  | [] => g
  | e :: es => scaleHistory (scaleStep g fam levels e) fam levels es

end defs
end PyGam
