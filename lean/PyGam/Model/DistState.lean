import PyGam.Model.Dists
/-!
# PyGam.Model.DistState — the state of a distribution object that `Distribution.phi` reads (Mathlib-free)

`Distribution.__init__(scale)` sets two attributes: `scale` and `_known_scale = scale is not None`.  `_known_scale` never
changes afterwards; `scale` does: `GAM._estimate_model_statistics` stores every estimate in it
(`if not self.distribution._known_scale: self.distribution.scale = self.distribution.phi(...)`), and a generic `GAM`
keeps its distribution object from one `fit` to the next.  So `phi` is a function of the *pair* (known, stored), not of
one optional number, and what it returns after a history of estimates is part of the property
("the scale estimate is the weighted Pearson statistic divided by (n - edof), or the user-supplied scale when one is given").

* `DistState`            : (`_known_scale`, `scale`)
* `DistState.init s`     : `Distribution.__init__(scale=s)`
* `mkDist fam s`         : `<Family>Dist(scale=s)` (`BinomialDist` / `PoissonDist` pass `scale=1.0` to the base class)
* `PhiData`              : the arguments of one `phi(y, mu, edof, weights)` call
* `phiAt d fam levels x` : `Distribution.phi` on an object in state `d` (`none` = Python `None`)
* `estimateStep`         : the scale lines of `GAM._estimate_model_statistics` (estimate, store unless known)
* `estimateHistory`      : a sequence of fits of the same object
-/
namespace PyGam

/-- the two attributes of a distribution object read by `phi` -/
structure DistState (α : Type) where
  /-- `_known_scale`: fixed by the constructor -/
  known : Bool
  /-- `scale`: `None`, the user's value, or whatever an earlier estimate stored -/
  scale : Option α

/-- the arguments of one `phi(y, mu, edof, weights)` call (`n = len(mu)`) -/
structure PhiData (α : Type) where
  n : Nat
  edof : α
  w : Nat → α
  y : Nat → α
  mu : Nat → α

variable {α : Type}

/-- `Distribution.__init__(scale=s)`: `self.scale = s; self._known_scale = s is not None` -/
def DistState.init (s : Option α) : DistState α := ⟨s.isSome, s⟩

section defs
variable [Zero α] [One α] [Add α] [Sub α] [Mul α] [Div α] [LE α] [DecidableLE α] [HasLogSqrt α]

/-- `<Family>Dist(scale=s)`: binomial and poisson hand `scale=1.0` to the base constructor -/
def mkDist : Family → Option α → DistState α
  | .binomial, _ => DistState.init (some 1)
  | .poisson, _ => DistState.init (some 1)
  | _, s => DistState.init s

/-- `Distribution.phi(y, mu, edof, weights)` on an object in state `d`:
`self.scale if self._known_scale else np.sum(weights * self.V(mu) ** -1 * (y - mu) ** 2) / (len(mu) - edof)`.
The stored `scale` is read only when `_known_scale` holds. -/
def phiAt (d : DistState α) (fam : Family) (levels : α) (x : PhiData α) : Option α :=
  if d.known then d.scale else some (pearson fam levels x.n x.w x.y x.mu / (natTo x.n - x.edof))

/-- `GAM._estimate_model_statistics`, the scale lines:
`if not distribution._known_scale: distribution.scale = distribution.phi(...)`.
(`statistics_['scale']` is then `distribution.scale`.) -/
def estimateStep (d : DistState α) (fam : Family) (levels : α) (x : PhiData α) : DistState α :=
  if d.known then d else { d with scale := phiAt d fam levels x }

/-- the same distribution object going through a sequence of fits -/
def estimateHistory (d : DistState α) (fam : Family) (levels : α) : List (PhiData α) → DistState α
  | [] => d
  | x :: xs => estimateHistory (estimateStep d fam levels x) fam levels xs

end defs
end PyGam
