import PyGam.Model.Terms
/-!
# PyGam.Model.Predict — linear predictor, partial dependence and default grids

Mirrors `GAM._linear_predictor`, `partial_dependence` (point part), `generate_X_grid`, `_flatten_mesh`.
-/
namespace PyGam
variable {α : Type}

section
variable [Zero α] [One α] [Add α] [Sub α] [Mul α] [Div α] [NatCast α] [LE α] [LT α]
  [DecidableLE α] [DecidableLT α] [DecidableEq α] [Max α] [HasFract α]

/-- `modelmat.dot(coef)` for one row -/
def linPred (ε : α) (ts : List (Term α)) (coef : Nat → α) (x : Nat → α) : α :=
  sumTo (nCoefsAll ts) (fun j => columnsAll ε x ts j * coef j)

/-- `partial_dependence(term=i, X)` for one row: the term's columns times its own coefficient block -/
def partialDep (ε : α) (ts : List (Term α)) (i : Nat) (coef : Nat → α) (x : Nat → α) : α :=
  match ts[i]? with
  | some t => sumTo t.nCoefs (fun j => t.columns ε x j * coef (coefStart ts i + j))
  | none => 0

/-- `np.linspace(a, b, num=n)[i]` -/
def linspacePt (a b : α) (n i : Nat) : α :=
  if n = 1 then a else a + (i : α) * ((b - a) / ((n : α) - 1))

/-- default grid row `r` of a non-tensor term: the feature runs over `linspace(e0, e1, n)`, a by-variable is
set to one, every other column is zero -/
def gridRowMarg (m : Marg α) (n r : Nat) : Nat → α := fun f =>
  if m.byVar = some f then 1            -- written last by the code, so it wins on a shared column
  else if f = m.feature then linspacePt m.e0 m.e1 n r
  else 0

/-- `n^k` mesh of a `k`-way tensor term, `indexing='ij'`, flattened row-major; marginal `j` reads digit
`(r / n^(k-1-j)) % n`; later marginals overwrite earlier ones on a shared feature; by-variable one -/
def gridRowTensor (ms : List (Marg α)) (by_ : Option Nat) (n r : Nat) : Nat → α := fun f =>
  let k := ms.length
  let rec go : List (Marg α) → Nat → α → α
    | [], _, acc => acc
    | m :: rest, j, acc =>
        go rest (j+1) (if f = m.feature then linspacePt m.e0 m.e1 n ((r / n ^ (k - 1 - j)) % n) else acc)
  if by_ = some f then 1 else go ms 0 0

def gridRow (t : Term α) (n r : Nat) : Nat → α :=
  match t with
  | .intercept => fun _ => 0
  | .single m => gridRowMarg m n r
  | .tensor ms b => gridRowTensor ms b n r

/-- number of rows of the default grid -/
def gridSize (t : Term α) (n : Nat) : Nat :=
  match t with
  | .intercept => 0
  | .single _ => n
  | .tensor ms _ => n ^ ms.length

end
end PyGam
