import PyGam.Model.Vec
import PyGam.Model.Links
/-!
# PyGam.Model.Intervals — mirrors `GAM._get_quantiles` and its three public wrappers (Mathlib-free)

`pygam/pygam.py`: `confidence_intervals`, `LinearGAM.prediction_intervals`, `partial_dependence(width|quantiles)`
all end in `_get_quantiles(X, width, quantiles, modelmat, lp, prediction, xform, term)`:

```
quantiles = np.atleast_1d(quantiles)  if quantiles is not None  else [alpha, 1 - alpha],  alpha = (1 - width) / 2.0
for quantile in quantiles:  if not (0 < quantile < 1): raise ValueError        # also NaN
idxs = coef indices of `term` (all for term = -1);  cov = statistics_['cov'][idxs][:, idxs]
var  = (modelmat.dot(cov) * modelmat.A).sum(axis=1);  if prediction: var += distribution.scale
q    = norm.ppf(quantile) if distribution._known_scale else t.ppf(quantile, df = n_samples - edof)
lines = vstack([lp + q * var ** 0.5 for quantile in quantiles]).T         # ValueError on an empty list
if xform: lines = link.mu(lines, distribution)
```

The two SciPy quantile functions are *parameters* (`normPpf : α → α`, `tPpf : df → q → α`); everything around them is
modelled.  One row of the model matrix at a time (`row : Nat → α`, already restricted to the term's block for
`partial_dependence`, exactly as `_modelmat(X, term)` returns it).  The same definitions run at `Float` in the driver
(`Drv/C09.lean`) and are reasoned about over `ℝ` / ordered fields in `Props/C09.lean`.
-/
namespace PyGam
variable {α : Type}

/-- result of an interval call: the exception class raised by the quantile checks / `np.vstack`, or the value -/
inductive IvOut (β : Type)
  | valueError
  | ok (v : β)
  deriving Repr

/-- the reference distribution whose quantile multiplies the standard error -/
inductive RefDist (α : Type)
  | normal                -- `sp.stats.norm.ppf(q)`
  | studentT (df : α)     -- `sp.stats.t.ppf(q, df=df)`
  deriving Repr

section quantiles
variable [Zero α] [One α] [Add α] [Sub α] [Mul α] [Div α] [LE α] [DecidableLE α] [LT α] [DecidableLT α]

/-- `alpha = (1 - width) / 2.0; quantiles = [alpha, 1 - alpha]` -/
def quantilesOfWidth (w : α) : List α :=
  let alpha : α := (1 - w) / (1 + 1)
  [alpha, 1 - alpha]

/-- `not (0 < quantile < 1)`: rejected unless *both* comparisons hold, so a NaN level (for which every IEEE comparison
is false) is rejected too -/
def badQuantile (q : α) : Bool := !(decide ((0 : α) < q) && decide (q < (1 : α)))

/-- `quantiles` wins over `width` when it is not `None` -/
def resolveQuantiles (width : α) (quantiles : Option (List α)) : List α :=
  match quantiles with
  | some qs => qs
  | none => quantilesOfWidth width

/-- does the call raise `ValueError` before any number is computed?  Some quantile fails the check, or the list is
empty (`np.vstack([])`). -/
def quantilesRejected (qs : List α) : Bool := qs.any badQuantile || qs.isEmpty

/-- normal when the scale is known, Student-t with `n_samples - edof` degrees of freedom otherwise -/
def refDistOf (knownScale : Bool) (nSamples edof : α) : RefDist α :=
  if knownScale then .normal else .studentT (nSamples - edof)

/-- the multiplier `q` of the code: the quantile of the reference distribution -/
def zOf (normPpf : α → α) (tPpf : α → α → α) : RefDist α → α → α
  | .normal, q => normPpf q
  | .studentT df, q => tPpf df q

/-- `(modelmat.dot(cov) * modelmat.A).sum(axis=1)` for one row: `Σ_k (Σ_j row_j cov_jk) row_k` -/
def lineVar (m : Nat) (row : Nat → α) (cov : Nat → Nat → α) : α :=
  sumTo m (fun k => sumTo m (fun j => row j * cov j k) * row k)

/-- `statistics_['cov'][idxs][:, idxs]` for the contiguous index block starting at `start` -/
def blockCov (start : Nat) (cov : Nat → Nat → α) : Nat → Nat → α := fun j k => cov (start + j) (start + k)

/-- `coef_[idxs]` -/
def blockVec (start : Nat) (v : Nat → α) : Nat → α := fun j => v (start + j)

/-- a term's row (length `len`) placed at its block inside a full-length row of zeros -/
def padRow (start len : Nat) (r : Nat → α) : Nat → α :=
  fun j => if start ≤ j ∧ j < start + len then r (j - start) else 0

/-- `if prediction: var += self.distribution.scale` -/
def totalVar (prediction : Bool) (scale var : α) : α := if prediction then var + scale else var

end quantiles

section bounds
variable [Zero α] [One α] [Add α] [Sub α] [Mul α] [Div α] [Neg α] [LE α] [DecidableLE α] [LT α] [DecidableLT α]
  [ExpLog α]

/-- `lp + q * var ** 0.5` -/
def linkBound (z lp var : α) : α := lp + z * ExpLog.sqrt var

/-- `if xform: lines = self.link.mu(lines, self.distribution)` -/
def applyXform (xform : Option (LinkKind × α)) (x : α) : α :=
  match xform with
  | none => x
  | some (k, levels) => linkInv k levels x

/-- what `_get_quantiles` reads from the fitted model -/
structure FitStats (α : Type) where
  /-- `len(coef_)` -/
  m : Nat
  coef : Nat → α
  /-- `statistics_['cov']` -/
  cov : Nat → Nat → α
  /-- `distribution.scale` after the fit (`= statistics_['scale']`) -/
  scale : α
  /-- `distribution._known_scale` -/
  knownScale : Bool
  /-- `statistics_['n_samples']` -/
  nSamples : α
  /-- `statistics_['edof']` -/
  edof : α
  link : LinkKind
  /-- `distribution.levels` (read by the logit link only) -/
  levels : α

/-- one entry of `_get_quantiles`' result: the bound at quantile level `q` for the model-matrix row `row` restricted
to the coefficient block `[start, start+len)`:
`xform(lp + z(q) * sqrt(rowᵀ cov_block row [+ scale]))`, `lp = row · coef_block` -/
def rowBound (normPpf : α → α) (tPpf : α → α → α) (fit : FitStats α) (start len : Nat)
    (prediction xform : Bool) (row : Nat → α) (q : α) : α :=
  applyXform (if xform then some (fit.link, fit.levels) else none)
    (linkBound (zOf normPpf tPpf (refDistOf fit.knownScale fit.nSamples fit.edof) q)
      (dot len row (blockVec start fit.coef))
      (totalVar prediction fit.scale (lineVar len row (blockCov start fit.cov))))

/-- one output row of `_get_quantiles`, after the quantile checks: one bound per accepted quantile, in the order given -/
def quantileRow (normPpf : α → α) (tPpf : α → α → α) (fit : FitStats α) (start len : Nat)
    (prediction xform : Bool) (qs : List α) (row : Nat → α) : List α :=
  qs.map (rowBound normPpf tPpf fit start len prediction xform row)

/-- `_get_quantiles(X, width, quantiles, prediction, xform, term)`; `rows` are the rows of `_modelmat(X, term)` -/
def getQuantiles (normPpf : α → α) (tPpf : α → α → α) (fit : FitStats α) (start len : Nat)
    (prediction xform : Bool) (width : α) (quantiles : Option (List α)) (rows : List (Nat → α)) :
    IvOut (List (List α)) :=
  let qs := resolveQuantiles width quantiles
  if quantilesRejected qs then .valueError
  else .ok (rows.map (quantileRow normPpf tPpf fit start len prediction xform qs))

/-- `GAM.confidence_intervals(X, width, quantiles)` -/
def confidenceIntervals (normPpf : α → α) (tPpf : α → α → α) (fit : FitStats α)
    (width : α) (quantiles : Option (List α)) (rows : List (Nat → α)) : IvOut (List (List α)) :=
  getQuantiles normPpf tPpf fit 0 fit.m false true width quantiles rows

/-- `LinearGAM.prediction_intervals(X, width, quantiles)` -/
def predictionIntervals (normPpf : α → α) (tPpf : α → α → α) (fit : FitStats α)
    (width : α) (quantiles : Option (List α)) (rows : List (Nat → α)) : IvOut (List (List α)) :=
  getQuantiles normPpf tPpf fit 0 fit.m true true width quantiles rows

/-- the interval part of `partial_dependence(term, X, width, quantiles)` for the term whose coefficient block is
`[start, start+len)`; `rows` are the rows of `_modelmat(X, term=term)` (link scale: `xform=False`) -/
def partialDependenceIntervals (normPpf : α → α) (tPpf : α → α → α) (fit : FitStats α) (start len : Nat)
    (width : α) (quantiles : Option (List α)) (rows : List (Nat → α)) : IvOut (List (List α)) :=
  getQuantiles normPpf tPpf fit start len false false width quantiles rows

/-- the point part of `partial_dependence`: `modelmat.dot(coef_[idxs])` -/
def partialDependencePoint (fit : FitStats α) (start len : Nat) (row : Nat → α) : α :=
  dot len row (blockVec start fit.coef)

end bounds
end PyGam
