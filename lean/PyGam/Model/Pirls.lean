import PyGam.Model.Vec
import PyGam.Model.Links
import PyGam.Model.Dists
/-!
# PyGam.Model.Pirls — one step of `GAM._pirls` as penalised normal equations

For the model matrix `B` (`n × m`), total penalty `A = S + P (+ C)` (`m × m`), responses `y`, sample weights `w`
and current coefficients `β`:

* `η = Bβ`, `μ = g⁻¹(η)`
* working weight `W² = w · asym / (g'(μ)² V(μ))`  (`GAM._W`; `ExpectileGAM._W` multiplies by
  `asym = τ` if `y > μ` else `1 - τ`; rows whose `|W| < √ε_mach` or is not finite are dropped by `_mask`,
  here: skipped in every row sum, passed in as the flag `keep`)
* pseudo data `z = η + (y - μ) g'(μ)`  (`_pseudo_data`)
* the new coefficients solve `(BᵀW²B + A) β' = BᵀW² z` (what the QR/SVD solve computes, C01 `solve_correct`)
-/
namespace PyGam
variable {α : Type}

structure GlmCfg (α : Type) where
  fam : Family
  link : LinkKind
  levels : α
  expectile : Option α        -- `some τ` for ExpectileGAM

section
variable [Zero α] [One α] [Add α] [Sub α] [Mul α] [Div α] [Neg α] [LE α] [LT α] [DecidableLE α] [DecidableLT α]
  [ExpLog α] [HasLogSqrt α]

/-- `η = Bβ` -/
def linearPredictor (m : Nat) (B : Nat → Nat → α) (β : Nat → α) : Nat → α :=
  fun r => sumTo m (fun j => B r j * β j)

/-- asymmetric weight of `ExpectileGAM._W`: `(y > mu) * τ + (y <= mu) * (1 - τ)` -/
def asymWeight (cfg : GlmCfg α) (y mu : α) : α :=
  match cfg.expectile with
  | none => 1
  | some τ => if mu < y then τ else 1 - τ

/-- squared working weight `W²` of one row -/
def workWeight2 (cfg : GlmCfg α) (w y mu : α) : α :=
  let g := linkGrad cfg.link cfg.levels mu
  w * asymWeight cfg y mu / (g * g * varFn cfg.fam cfg.levels mu)

/-- pseudo data of one row -/
def pseudoDatum (cfg : GlmCfg α) (lp y mu : α) : α :=
  lp + (y - mu) * linkGrad cfg.link cfg.levels mu

/-- `BᵀW²B + A` over the rows kept by `_mask` (dropped rows do not enter the sums at all) -/
def normalMat (n : Nat) (B : Nat → Nat → α) (keep : Nat → Bool) (W2 : Nat → α) (A : Nat → Nat → α) :
    Nat → Nat → α :=
  fun i j => sumTo n (fun r => if keep r then B r i * W2 r * B r j else 0) + A i j

/-- `BᵀW² z` over the kept rows -/
def normalRhs (n : Nat) (B : Nat → Nat → α) (keep : Nat → Bool) (W2 z : Nat → α) : Nat → α :=
  fun i => sumTo n (fun r => if keep r then B r i * W2 r * z r else 0)

/-- everything one iteration derives from the entering coefficients -/
structure StepData (α : Type) where
  keep : Nat → Bool
  lp : Nat → α
  mu : Nat → α
  W2 : Nat → α
  z : Nat → α

def stepData (cfg : GlmCfg α) (m : Nat) (B : Nat → Nat → α) (y w : Nat → α) (keep : Nat → Bool)
    (β : Nat → α) : StepData α :=
  let lp := linearPredictor m B β
  let mu := fun r => linkInv cfg.link cfg.levels (lp r)
  { keep := keep, lp := lp, mu := mu,
    W2 := fun r => workWeight2 cfg (w r) (y r) (mu r),
    z := fun r => pseudoDatum cfg (lp r) (y r) (mu r) }

/-- score residual `BᵀW²(z - η) - Aβ` : zero exactly at a fixed point of the PIRLS step -/
def scoreResidual (n m : Nat) (B : Nat → Nat → α) (A : Nat → Nat → α) (d : StepData α) (β : Nat → α) :
    Nat → α :=
  fun i => sumTo n (fun r => if d.keep r then B r i * d.W2 r * (d.z r - d.lp r) else 0)
            - sumTo m (fun j => A i j * β j)

end
end PyGam
