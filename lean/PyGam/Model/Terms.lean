import PyGam.Model.Vec
import PyGam.Model.Penalty
import PyGam.Model.BSpline
/-!
# PyGam.Model.Terms — mirrors the numerical part of `pygam/terms.py`

A *marginal* is a compiled linear / spline / factor term (these are also the admissible marginals of a
tensor term); a *term* is the intercept, a marginal, or a tensor term over a list of marginals with an
optional by-variable.  For a data row `x : Nat → α` (feature index ↦ value):

* `Marg.columns`, `Term.columns`, `columnsAll` : `build_columns` (one row of the model matrix)
* `Marg.penalty`, `Term.penalty`, `penaltyAll` : `build_penalties` ('auto' resolution, lam-weighted sum,
  Kronecker lifting, block-diagonal assembly)
* `Marg.constraint`, `Term.constraint`, `constraintAll` : `build_constraints` (× `constraint_lam`,
  conditioning ridge `constraint_l2` when the matrix has a non-zero entry, tensor marginal slices)
* `coefStart`, `nCoefsAll` : `get_coef_indices`, `n_coefs`

`periodicPen` is a parameter of the penalty functions: the matrix family used for the `'periodic'` penalty.
The specification-level choice is `cycPen`; the present code deviates from it (known finding C04/D14).
-/
namespace PyGam

inductive PenKind | auto | derivative | l2 | none | periodic
  deriving DecidableEq, Repr

inductive ConKind | none | convex | concave | monoInc | monoDec
  deriving DecidableEq, Repr

inductive MargKind | linear | spline | factor
  deriving DecidableEq, Repr

/-- a compiled non-tensor, non-intercept term -/
structure Marg (α : Type) where
  kind : MargKind
  feature : Nat
  nSplines : Nat            -- spline: n_splines; factor: number of categories; linear: unused
  order : Nat               -- spline_order (factor: 0)
  cyclic : Bool             -- basis == 'cp'
  byVar : Option Nat
  dummy : Bool              -- factor coding == 'dummy'
  lam : List α
  penalties : List PenKind
  constraints : List ConKind
  e0 : α                    -- compiled edge knots
  e1 : α
  catDtype : Bool := false  -- spline: dtype == 'categorical' ('auto' resolves to l2; data knots widened by 0.5, already in e0/e1)

inductive Term (α : Type) where
  | intercept : Term α
  | single : Marg α → Term α
  | tensor : List (Marg α) → Option Nat → Term α

variable {α : Type}

/-- `n_coefs` of a marginal -/
def Marg.nCoefs (m : Marg α) : Nat :=
  match m.kind with
  | .linear => 1
  | .spline => m.nSplines
  | .factor => m.nSplines - (if m.dummy then 1 else 0)

/-- `n_coefs` of a term (tensor: product of the marginals') -/
def Term.nCoefs : Term α → Nat
  | .intercept => 1
  | .single m => m.nCoefs
  | .tensor ms _ => prodList (ms.map Marg.nCoefs)

/-- total number of coefficients of a term list -/
def nCoefsAll (ts : List (Term α)) : Nat := (ts.map Term.nCoefs).sum

/-- first coefficient index of term `i` (`get_coef_indices(i) = range(start, start + n_coefs)`) -/
def coefStart (ts : List (Term α)) (i : Nat) : Nat := ((ts.take i).map Term.nCoefs).sum

section columns
variable [Zero α] [One α] [Add α] [Sub α] [Mul α] [Div α] [NatCast α] [LE α] [LT α]
  [DecidableLE α] [DecidableLT α] [DecidableEq α] [Max α] [HasFract α]

/-- value of the by-variable (1 when absent) -/
def byValue (b : Option Nat) (x : Nat → α) : α :=
  match b with
  | none => 1
  | some k => x k

/-- one model-matrix row of a marginal -/
def Marg.columns (ε : α) (m : Marg α) (x : Nat → α) : Nat → α :=
  match m.kind with
  | .linear => fun _ => x m.feature
  | .spline => fun j =>
      basisRow ε ⟨m.nSplines, m.order, m.cyclic, m.e0, m.e1⟩ (x m.feature) j * byValue m.byVar x
  | .factor => fun j =>
      basisRow ε ⟨m.nSplines, 0, false, m.e0, m.e1⟩ (x m.feature) (j + (if m.dummy then 1 else 0))

/-- row-wise Kronecker product of two rows: `out[i_a * n_b + i_b] = a[i_a] * b[i_b]` -/
def kronRow (a : Nat → α) (nb : Nat) (b : Nat → α) : Nat → α :=
  fun k => a (k / nb) * b (k % nb)

/-- `tensor_product` folded over the marginals, left to right, starting from the first -/
def tensorColumns (ε : α) (x : Nat → α) : (acc : Nat → α) → List (Marg α) → Nat → α
  | acc, [] => acc
  | acc, m :: ms => tensorColumns ε x (kronRow acc m.nCoefs (m.columns ε x)) ms

def Term.columns (ε : α) (t : Term α) (x : Nat → α) : Nat → α :=
  match t with
  | .intercept => fun _ => 1
  | .single m => m.columns ε x
  | .tensor [] _ => fun _ => 0
  | .tensor (m :: ms) b => fun j => tensorColumns ε x (m.columns ε x) ms j * byValue b x

/-- one row of the whole model matrix: horizontal concatenation in term order -/
def columnsAll (ε : α) (x : Nat → α) : List (Term α) → Nat → α
  | [] => fun _ => 0
  | t :: ts => fun j => if j < t.nCoefs then t.columns ε x j else columnsAll ε x ts (j - t.nCoefs)

end columns

section penalties
variable [Zero α] [One α] [Add α] [Sub α] [Mul α]

/-- resolution of `'auto'`: numerical spline → derivative (`cp`: periodic); categorical spline, linear, factor → l2 -/
def Marg.resolvePen (m : Marg α) (k : PenKind) : PenKind :=
  match k with
  | .auto =>
    match m.kind with
    | .spline => if m.catDtype then .l2 else if m.cyclic then .periodic else .derivative
    | .linear => .l2
    | .factor => .l2
  | k => k

/-- the matrix of one penalty kind on `n` coefficients (derivative order 2 is the code's default) -/
def penMatrix (periodicPen : Nat → Nat → Nat → α) (n : Nat) : PenKind → Nat → Nat → α
  | .auto => fun _ _ => 0          -- unreachable after resolution
  | .derivative => derivPen n 2
  | .l2 => l2Pen
  | .none => nonePen
  | .periodic => periodicPen n

/-- `Σ_j lam_j · P_j` -/
def weightedPenSum (mats : List (α × (Nat → Nat → α))) : Nat → Nat → α :=
  fun i j => (mats.map (fun lp => lp.1 * lp.2 i j)).foldr (· + ·) 0

/-- `Term.build_penalties` of a marginal -/
def Marg.penalty (periodicPen : Nat → Nat → Nat → α) (m : Marg α) : Nat → Nat → α :=
  weightedPenSum
    ((m.lam.zip m.penalties).map (fun lk => (lk.1, penMatrix periodicPen m.nCoefs (m.resolvePen lk.2))))

/-- `kron(A, B)[i, j] = A[i / nb, j / nb] * B[i % nb, j % nb]` -/
def kronMat (A : Nat → Nat → α) (nb : Nat) (B : Nat → Nat → α) : Nat → Nat → α :=
  fun i j => A (i / nb) (j / nb) * B (i % nb) (j % nb)

/-- `_build_marginal_penalties(i)`: `P_i` in slot `i`, identities elsewhere, composed left to right -/
def margPenLift (periodicPen : Nat → Nat → Nat → α) (i : Nat) :
    (acc : Nat → Nat → α) → (pos : Nat) → List (Marg α) → Nat → Nat → α
  | acc, _, [] => acc
  | acc, pos, m :: ms =>
      margPenLift periodicPen i
        (kronMat acc m.nCoefs (if pos = i then m.penalty periodicPen else ident)) (pos+1) ms

def tensorPenaltyAt (periodicPen : Nat → Nat → Nat → α) (i : Nat) : List (Marg α) → Nat → Nat → α
  | [] => fun _ _ => 0
  | m :: ms => margPenLift periodicPen i (if i = 0 then m.penalty periodicPen else ident) 1 ms

/-- `TensorTerm.build_penalties`: sum over the marginals -/
def tensorPenalty (periodicPen : Nat → Nat → Nat → α) (ms : List (Marg α)) : Nat → Nat → α :=
  fun a b => ((List.range ms.length).map (fun i => tensorPenaltyAt periodicPen i ms a b)).foldr (· + ·) 0

def Term.penalty (periodicPen : Nat → Nat → Nat → α) : Term α → Nat → Nat → α
  | .intercept => fun _ _ => 0
  | .single m => m.penalty periodicPen
  | .tensor ms _ => tensorPenalty periodicPen ms

/-- block-diagonal assembly over a list of (size, block) -/
def blockDiag : List (Nat × (Nat → Nat → α)) → Nat → Nat → α
  | [] => fun _ _ => 0
  | (n, B) :: rest => fun i j =>
      if i < n ∧ j < n then B i j
      else if i < n ∨ j < n then 0
      else blockDiag rest (i - n) (j - n)

/-- `TermList.build_penalties` -/
def penaltyAll (periodicPen : Nat → Nat → Nat → α) (ts : List (Term α)) : Nat → Nat → α :=
  blockDiag (ts.map (fun t => (t.nCoefs, t.penalty periodicPen)))

end penalties

section constraints
variable [Zero α] [One α] [Add α] [Sub α] [Mul α] [LT α] [DecidableLT α] [DecidableEq α]

/-- one constraint matrix on `n` coefficients at the current coefficient vector -/
def conMatrix (n : Nat) (c : Nat → α) : ConKind → Nat → Nat → α
  | .none => nonePen
  | .convex => convPen true n c
  | .concave => convPen false n c
  | .monoInc => monoPen true n c
  | .monoDec => monoPen false n c

/-- does an `n × n` matrix have a non-zero entry (`Cs.nnz > 0`) -/
def hasNonzero (n : Nat) (A : Nat → Nat → α) : Bool :=
  (List.range n).any (fun i => (List.range n).any (fun j => decide (A i j ≠ 0)))

/-- `Term.build_constraints(coef, constraint_lam, constraint_l2)` of a marginal -/
def Marg.constraint (m : Marg α) (coef : Nat → α) (clam cl2 : α) : Nat → Nat → α :=
  let n := m.nCoefs
  let Cs : Nat → Nat → α := fun i j =>
    (m.constraints.map (fun k => conMatrix n coef k i j * clam)).foldr (· + ·) 0
  if hasNonzero n Cs then fun i j => Cs i j + (if i = j then cl2 else 0) else Cs

/-- strides of the row-major coefficient layout of a tensor term -/
def strideAfter (dims : List Nat) (i : Nat) : Nat := prodList (dims.drop (i+1))

/-- `_build_marginal_constraints(i)`: for every fibre of the coefficient tensor along axis `i`, the
marginal's constraint matrix at that slice, scattered back to the composite -/
def tensorConstraintAt (ms : List (Marg α)) (i : Nat) (coef : Nat → α) (clam cl2 : α) :
    Nat → Nat → α :=
  match ms[i]? with
  | none => fun _ _ => 0
  | some m =>
    let dims := ms.map Marg.nCoefs
    let s := strideAfter dims i
    let ni := m.nCoefs
    -- index a = hi * (ni * s) + k * s + lo ; same fibre ⇔ same (hi, lo)
    fun a b =>
      let hiA := a / (ni * s); let loA := a % s; let kA := (a / s) % ni
      let hiB := b / (ni * s); let loB := b % s; let kB := (b / s) % ni
      if hiA = hiB ∧ loA = loB then
        m.constraint (fun k => coef (hiA * (ni * s) + k * s + loA)) clam cl2 kA kB
      else 0

def tensorConstraint (ms : List (Marg α)) (coef : Nat → α) (clam cl2 : α) : Nat → Nat → α :=
  fun a b => ((List.range ms.length).map (fun i => tensorConstraintAt ms i coef clam cl2 a b)).foldr (· + ·) 0

def Term.constraint (t : Term α) (coef : Nat → α) (clam cl2 : α) : Nat → Nat → α :=
  match t with
  | .intercept => fun _ _ => 0
  | .single m => m.constraint coef clam cl2
  | .tensor ms _ => tensorConstraint ms coef clam cl2

/-- `TermList.build_constraints(coefs, constraint_lam, constraint_l2)` -/
def constraintAll (ts : List (Term α)) (coef : Nat → α) (clam cl2 : α) : Nat → Nat → α :=
  let rec go : List (Term α) → Nat → List (Nat × (Nat → Nat → α))
    | [], _ => []
    | t :: rest, off => (t.nCoefs, t.constraint (fun k => coef (off + k)) clam cl2) :: go rest (off + t.nCoefs)
  blockDiag (go ts 0)

end constraints
end PyGam
