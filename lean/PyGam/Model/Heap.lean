/-!
# PyGam.Model.Heap — object identity, sharing and the public calls of a GAM (Mathlib-free)

Mirrors the *object graph* manipulated by `/repo/pygam/pygam.py` (`GAM.__init__`, `_validate_params`
of the seven classes, `_validate_data_dep_params`, `fit`, `_pirls` (only its bindings), `_estimate_model_statistics`
(only `distribution.scale = …`), `gridsearch`, `sample` / `_bootstrap_samples_of_smoothing`,
`Core.set_params`, `MetaTermMixin.__setattr__`) and `/repo/pygam/terms.py` (`*.compile`, `TermList.__init__`,
`__add__`) as they are **now**.

Python objects that are mutated after creation live on a heap (ids are positions, allocation appends):

* **term objects** (`TermObj`): settings (`TermSet`) plus the data-dependent state written by `compile`
  (`edge_knots_`, and `n_splines` of a factor term);
* **distribution objects** (`DistObj`): `scale` is written by `_estimate_model_statistics` unless it is known;
* **log dictionaries** (`logs_`): one entry per PIRLS iteration, appended by every fit;
* coefficient arrays and statistics dictionaries are never written in place, only rebound
  (`self.coef_ = coef_new`, `self.statistics_ = {}`): they are *values* bound in the model record.

A model is a record of references.  The aliasing edges, as the code creates them:

| call | what is copied / shared |
|---|---|
| `s(..)`, `l(..)`, `f(..)` | new term objects (`mkExpr`) |
| `e1 + e2` (`TermList(e1, e2)`) | new list, **same** term objects (`joinExpr`) |
| `GAM(terms=e)` | `terms = deepcopy(terms)`: new term objects; new distribution object; no logs |
| `_validate_params` | `LinearGAM`, `GammaGAM`, `InvGaussGAM`, `ExpectileGAM` create a new distribution object; `GAM`, `LogisticGAM`, `PoissonGAM` keep theirs |
| `_validate_data_dep_params` | `self.terms = deepcopy(TermList(self.terms))` then `compile` in place on the copies |
| `fit` | the two above; `logs_` created only if missing, else appended; `coef_`, `statistics_` rebound; `distribution.scale` written if not known |
| `gridsearch` | unfitted `self`: the two validations on `self`; every candidate is `deepcopy(self)` + `set_params` + `fit`; `keep_best`: `self.__dict__ ← deepcopy(best.__dict__)` |
| `sample` | per extra bootstrap: `deepcopy(self)`, `gridsearch` on the copy, `deepcopy(self)`, `lam = …`, `fit`; the copies are dropped |
| `copy.deepcopy(gam)`, pickle round trip | new objects throughout |
| `set_params(lam=…)`, `gam.lam = …`, `spline_order` | written **through** `self.terms` into the term objects |
| `gam.terms = e`, `set_params(terms=e)` | `GAM.__setattr__` deep-copies: new term objects with the expression's current values (un-compiled); `coef_`, `statistics_`, `logs_`, the distribution are kept (`assignTerms`) |

What is abstract: data sets are ids; the data-derived quantities `knots d feature categorical`
(`gen_edge_knots`) and `ncat d feature` (`len(np.unique(..))`) are parameters (`Env`); the outcome of a fit is
represented by its *input* `FitIn` (class, model settings, compiled terms, data): every interpretation
`fitResult : FitIn → coefficients × statistics × scale` factors through it.  This mirrors the code: a user-level
`fit` deletes a `coef_` left over from a previous fit (`del self.coef_`), so `_pirls` starts from `_initial_estimate`
exactly like a brand-new model; only a grid-search candidate (`_warm_start = True`) starts from the previous model's
coefficients, and that run is redone cold when it raises or does not converge.  That a warm-started candidate which
does converge reaches the optimum determined by `FitIn` is a modelling assumption (C01) which the harness measures on
every candidate against a brand-new model (tolerance tied to `tol`).  The log entries of an abandoned warm-started run
stay in `logs_`: `iters` counts them.  Only successful calls are modelled
(plus the `AttributeError` of queries on an unfitted model); NumPy aliasing of caller arrays is outside the model.
-/
namespace PyGam.Heap

abbrev Id := Nat
/-- a data set `(X, y, weights)` known to the harness -/
abbrev Data := Nat

/-! ## heap helpers -/

/-- in-place update of cell `i` (no-op for a dangling id) -/
def upd {α : Type} (l : List α) (i : Nat) (f : α → α) : List α :=
  match l[i]? with
  | some x => l.set i (f x)
  | none => l

/-- in-place update of several cells; `f` also receives the position in `ids` -/
def updManyFrom {α : Type} (f : Nat → α → α) : List α → List Nat → Nat → List α
  | l, [], _ => l
  | l, i :: is, k => updManyFrom f (upd l i (f k)) is (k + 1)

def updMany {α : Type} (l : List α) (ids : List Nat) (f : Nat → α → α) : List α := updManyFrom f l ids 0

/-! ## term objects -/

inductive Kind
  | spline | linear | factor
  deriving DecidableEq, Repr, Inhabited

/-- the arguments of `s(..)`, `l(..)`, `f(..)` that matter here (codes are opaque numbers chosen by the caller) -/
structure TermSet where
  kind : Kind
  feature : Nat
  /-- `n_splines` (ignored by a linear term; **overwritten** by `compile` for a factor term) -/
  nSplines : Nat
  /-- `spline_order`: enters the basis, hence the predictions; plural-settable -/
  order : Nat
  /-- `lam` (code): enters the fit only; plural-settable -/
  lam : Nat
  /-- user-supplied `edge_knots` (code), kept by `compile`; `none` = derive from the data -/
  userKnots : Option Nat
  deriving DecidableEq, Repr, Inhabited

structure TermObj where
  set : TermSet
  /-- `edge_knots_` (code); `none` = attribute not present -/
  knots : Option Nat
  deriving DecidableEq, Repr, Inhabited

/-- the constructor: `if edge_knots is not None: self.edge_knots_ = edge_knots` -/
def TermObj.fresh (s : TermSet) : TermObj := ⟨s, s.userKnots⟩

/-- the *settings* of a term object: everything except data-dependent state
(`n_splines` of a factor term is data-dependent) -/
def TermObj.settings (t : TermObj) : TermSet :=
  match t.set.kind with
  | .factor => { t.set with nSplines := 0 }
  | _ => t.set

/-- what a prediction reads from a term object (not `lam`) -/
structure PredTerm where
  kind : Kind
  feature : Nat
  nSplines : Nat
  order : Nat
  knots : Option Nat
  deriving DecidableEq, Repr

def TermObj.pred (t : TermObj) : PredTerm := ⟨t.set.kind, t.set.feature, t.set.nSplines, t.set.order, t.knots⟩

/-- number of coefficients of a term -/
def TermObj.nCoefs (t : TermObj) : Nat :=
  match t.set.kind with
  | .linear => 1
  | _ => t.set.nSplines

/-- data-derived quantities -/
structure Env where
  /-- `gen_edge_knots(X_d[:, feature], dtype)`; the flag says `dtype == 'categorical'` -/
  knots : Data → Nat → Bool → Nat
  /-- `len(np.unique(X_d[:, feature]))` -/
  ncat : Data → Nat → Nat

/-- `Term.compile(X_d)`: spline — user knots kept, otherwise recomputed from the data on every call;
linear — always from the data; factor — `n_splines` and knots always from the data -/
def compile (env : Env) (d : Data) (t : TermObj) : TermObj :=
  match t.set.kind with
  | .linear => { t with knots := some (env.knots d t.set.feature false) }
  | .spline => { t with knots := some (t.set.userKnots.getD (env.knots d t.set.feature false)) }
  | .factor => { set := { t.set with nSplines := env.ncat d t.set.feature },
                 knots := some (env.knots d t.set.feature true) }

/-! ## models -/

inductive Cls
  | linear | gamma | invGauss | expectile | logistic | poisson | generic
  deriving DecidableEq, Repr, Inhabited

/-- classes whose `_validate_params` does `self.distribution = XDist(scale=self.scale)` -/
def Cls.recreatesDist : Cls → Bool
  | .linear | .gamma | .invGauss | .expectile => true
  | _ => false

/-- everything the outcome of a fit may depend on -/
structure FitIn where
  cls : Cls
  /-- model-level settings (code for `tol`, `max_iter`, `fit_intercept`, `scale`, `expectile`, …) -/
  mset : Nat
  scaleKnown : Bool
  /-- the compiled term objects, by value -/
  terms : List TermObj
  data : Data
  deriving DecidableEq, Repr

structure DistObj where
  /-- `_known_scale` -/
  known : Bool
  /-- `scale` as estimated by the fit with this input (`none`: never estimated / user value) -/
  scale : Option FitIn
  deriving DecidableEq, Repr, Inhabited

structure Model where
  cls : Cls
  mset : Nat
  scaleKnown : Bool
  /-- `self.terms`: ids of the term objects -/
  terms : List Nat
  /-- `self.distribution` -/
  dist : Nat
  /-- `self.logs_` (absent before the first fit) -/
  logs : Option Nat
  /-- binding of `coef_` / `statistics_`: the results of the fit with this input -/
  fitted : Option FitIn
  deriving DecidableEq, Repr

structure World where
  terms : List TermObj := []
  dists : List DistObj := []
  logs : List (List Data) := []
  /-- term expressions held by the caller (lists of term objects) -/
  exprs : List (List Nat) := []
  models : List Model := []
  deriving DecidableEq, Repr

def World.empty : World := {}

def World.term (w : World) (t : Nat) : TermObj := w.terms.getD t default
def World.dist (w : World) (d : Nat) : DistObj := w.dists.getD d default
def World.log (w : World) (l : Nat) : List Data := w.logs.getD l []

/-- a model seen by value: everything reachable from it -/
structure ModelView where
  cls : Cls
  mset : Nat
  scaleKnown : Bool
  terms : List TermObj
  dist : DistObj
  logs : Option (List Data)
  fitted : Option FitIn
  deriving DecidableEq, Repr

def World.viewOf (w : World) (m : Model) : ModelView :=
  { cls := m.cls, mset := m.mset, scaleKnown := m.scaleKnown, terms := m.terms.map w.term,
    dist := w.dist m.dist, logs := m.logs.map w.log, fitted := m.fitted }

def World.view (w : World) (j : Nat) : Option ModelView := (w.models[j]?).map w.viewOf

/-- the user-visible settings of a model -/
structure Settings where
  cls : Cls
  mset : Nat
  scaleKnown : Bool
  terms : List TermSet
  deriving DecidableEq, Repr

def ModelView.settings (v : ModelView) : Settings := ⟨v.cls, v.mset, v.scaleKnown, v.terms.map TermObj.settings⟩

/-- what every prediction-type query reads: the coefficient binding and the prediction part of the terms -/
structure PredKey where
  coef : FitIn
  terms : List PredTerm
  deriving DecidableEq, Repr

def ModelView.predKey (v : ModelView) : Option PredKey := v.fitted.map fun c => ⟨c, v.terms.map TermObj.pred⟩

/-- what the statistics / likelihood / sampling queries may read in addition -/
structure QueryKey where
  pred : PredKey
  distKnown : Bool
  distScale : Option FitIn
  deriving DecidableEq, Repr

/-- `none`: the query raises — the model is not fitted, or (between `gam.terms = e` and the next fit) its term objects
are not compiled; what exactly the code raises (or returns, when all assigned terms carry user knots) in the second
case is accidental and not modelled further -/
def ModelView.queryKey (v : ModelView) : Option QueryKey :=
  if v.terms.all (·.knots.isSome) then v.predKey.map fun p => ⟨p, v.dist.known, v.dist.scale⟩ else none

def ModelView.nCoefs (v : ModelView) : Nat := (v.terms.map TermObj.nCoefs).sum

/-- the input of a fit of a model with these settings on data `d`: fresh term objects, compiled -/
def Settings.fitIn (env : Env) (s : Settings) (d : Data) : FitIn :=
  { cls := s.cls, mset := s.mset, scaleKnown := s.scaleKnown,
    terms := s.terms.map (fun t => compile env d (TermObj.fresh t)), data := d }

/-- `predict` on a batch, for any interpretation `P` of one row (row-wise by construction, see `Props/C15`) -/
def predict {R V : Type} (P : PredKey → R → V) (k : PredKey) (X : List R) : List V := X.map (P k)

/-! ## the public calls -/

/-- ids of `n` cells allocated at the end of a heap of size `start` -/
def freshIds (start n : Nat) : List Nat := List.range' start n

/-- `s(..) + l(..) + …` with all-new term objects -/
def mkExpr (w : World) (specs : List TermSet) : World :=
  { w with terms := w.terms ++ specs.map TermObj.fresh,
           exprs := w.exprs ++ [freshIds w.terms.length specs.length] }

/-- `e1 + e2`: a new list over the same term objects (objects already present are skipped) -/
def joinExpr (w : World) (a b : Nat) : World :=
  let ea := w.exprs.getD a []
  let eb := w.exprs.getD b []
  { w with exprs := w.exprs ++ [ea ++ eb.filter (fun t => !ea.contains t)] }

/-- `Cls(terms=e, …)`: `terms = deepcopy(terms)`; a distribution object of its own; no logs -/
def construct (w : World) (cls : Cls) (mset : Nat) (scaleKnown : Bool) (e : Nat) : World :=
  let cells := (w.exprs.getD e []).map w.term
  let known := match cls with
    | .logistic | .poisson => true
    | _ => scaleKnown
  { w with terms := w.terms ++ cells,
           dists := w.dists ++ [⟨known, none⟩],
           models := w.models ++ [{ cls := cls, mset := mset, scaleKnown := scaleKnown,
                                    terms := freshIds w.terms.length cells.length,
                                    dist := w.dists.length, logs := none, fitted := none }] }

/-- `copy.deepcopy(gam)` / `pickle.loads(pickle.dumps(gam))`; the copy gets index `w.models.length` -/
def copyModel (w : World) (i : Nat) : World :=
  match w.models[i]? with
  | none => w
  | some m =>
    let cells := m.terms.map w.term
    { w with terms := w.terms ++ cells,
             dists := w.dists ++ [w.dist m.dist],
             logs := w.logs ++ (m.logs.map w.log).toList,
             models := w.models ++ [{ m with terms := freshIds w.terms.length cells.length,
                                             dist := w.dists.length,
                                             logs := m.logs.map (fun _ => w.logs.length) }] }

/-- `set_params(<plural>=…)` / `gam.<plural> = …`: written through `self.terms` into the term objects -/
def setTerms (w : World) (i : Nat) (f : Nat → TermObj → TermObj) : World :=
  match w.models[i]? with
  | none => w
  | some m => { w with terms := updMany w.terms m.terms f }

def setLam (w : World) (i : Nat) (c : Nat) : World :=
  setTerms w i (fun _ t => { t with set := { t.set with lam := c } })

/-- `gam.lam = [..]` with one value per term -/
def setLams (w : World) (i : Nat) (cs : List Nat) : World :=
  setTerms w i (fun k t => { t with set := { t.set with lam := cs.getD k t.set.lam } })

/-- `set_params(spline_order=c)` (models whose terms are all spline terms) -/
def setOrder (w : World) (i : Nat) (c : Nat) : World :=
  setTerms w i (fun _ t => match t.set.kind with
    | .spline => { t with set := { t.set with order := c } }
    | _ => t)

/-- `gam.terms = e` / `gam.set_params(terms=e)`: `GAM.__setattr__` stores a deep copy — new term objects holding what
the expression's term objects hold at that moment; nothing else changes (a fitted model keeps `coef_`, `statistics_`,
`logs_` and its distribution, and its queries read the new, un-compiled term objects until the next fit) -/
def assignTerms (w : World) (i e : Nat) : World :=
  match w.models[i]?, w.exprs[e]? with
  | some m, some ex =>
    let cells := ex.map w.term
    { w with terms := w.terms ++ cells,
             models := w.models.set i { m with terms := freshIds w.terms.length cells.length } }
  | _, _ => w

/-- `set_params(tol=…, max_iter=…, …)`: model-level attributes -/
def setModel (w : World) (i : Nat) (c : Nat) : World :=
  match w.models[i]? with
  | none => w
  | some m => { w with models := w.models.set i { m with mset := c } }

/-- `_validate_params(); _validate_data_dep_params(X_d)`: a new distribution object for the classes that
recreate it; the terms are deep-copied and the copies compiled on `d` -/
def prepare (env : Env) (w : World) (i : Nat) (d : Data) : World :=
  match w.models[i]? with
  | none => w
  | some m =>
    let cells := m.terms.map (fun t => compile env d (w.term t))
    let rec' := m.cls.recreatesDist
    { w with terms := w.terms ++ cells,
             dists := if rec' then w.dists ++ [⟨m.scaleKnown, none⟩] else w.dists,
             models := w.models.set i { m with terms := freshIds w.terms.length cells.length,
                                               dist := if rec' then w.dists.length else m.dist } }

/-- the rest of `fit` once the parameters are validated: `logs_` created only if missing; `_pirls` appends one
log entry per iteration, rebinds `coef_` / `statistics_` and writes `distribution.scale` unless it is known -/
def pirls (w : World) (i : Nat) (d : Data) (iters : Nat) : World :=
  match w.models[i]? with
  | none => w
  | some m =>
    let inp : FitIn := { cls := m.cls, mset := m.mset, scaleKnown := m.scaleKnown,
                         terms := m.terms.map w.term, data := d }
    -- `if not hasattr(self, 'logs_'): self.logs_ = defaultdict(list)`
    let logs1 := w.logs ++ (match m.logs with
      | some _ => []
      | none => [[]])
    let lid := m.logs.getD w.logs.length
    { w with logs := upd logs1 lid (· ++ List.replicate iters d),
             dists := upd w.dists m.dist (fun o => if o.known then o else { o with scale := some inp }),
             models := w.models.set i { m with logs := some lid, fitted := some inp } }

/-- `fit(X_d, y_d, w_d)` taking `iters` PIRLS iterations -/
def fitModel (env : Env) (w : World) (i : Nat) (d : Data) (iters : Nat) : World :=
  pirls (prepare env w i d) i d iters

/-- one grid-search candidate: `gam = deepcopy(self); gam.set_params(lam=c); gam.fit(X_d, …)`;
`c = (lam code, iterations)`; the candidate gets index `w.models.length` -/
def candidate (env : Env) (i : Nat) (d : Data) (w : World) (c : Nat × Nat) : World :=
  let g := w.models.length
  fitModel env (setLam (copyModel w i) g c.1) g d c.2

/-- `self.set_params(deep=True, force=True, **deepcopy(best.get_params(deep=True)))`:
`self` gets copies of everything the winner holds -/
def adopt (w : World) (i b : Nat) : World :=
  match w.models[b]? with
  | none => w
  | some mb =>
    if i < w.models.length then
      let cells := mb.terms.map w.term
      { w with terms := w.terms ++ cells,
               dists := w.dists ++ [w.dist mb.dist],
               logs := w.logs ++ (mb.logs.map w.log).toList,
               models := w.models.set i { mb with terms := freshIds w.terms.length cells.length,
                                                  dist := w.dists.length,
                                                  logs := mb.logs.map (fun _ => w.logs.length) } }
    else w

/-- index in the world of entry `p` of gridsearch's list `models`
(`[self] ++ candidates` when `self` was fitted, else the candidates); `n0` = index of the first candidate -/
def poolIndex (selfFitted : Bool) (i n0 p : Nat) : Nat :=
  if selfFitted then (if p = 0 then i else n0 + (p - 1)) else n0 + p

/-- `gam.gridsearch(X_d, y_d, lam=grid, keep_best=…, return_scores=True)`; `winner` indexes the list
`models` of the code (it is determined by the scores, which are outside this model); the candidates stay
in the world as models `n0, n0+1, …` (the keys of the returned dictionary) -/
def gridsearch (env : Env) (w : World) (i : Nat) (d : Data) (keepBest : Bool)
    (grid : List (Nat × Nat)) (winner : Nat) : World :=
  match w.models[i]? with
  | none => w
  | some m0 =>
    let w1 := if m0.fitted.isSome then w else prepare env w i d
    let n0 := w1.models.length
    let w2 := grid.foldl (candidate env i d) w1
    if keepBest ∧ winner < (if m0.fitted.isSome then grid.length + 1 else grid.length) then
      adopt w2 i (poolIndex m0.fitted.isSome i n0 winner)
    else w2

/-- one extra bootstrap of `_bootstrap_samples_of_smoothing`; `b = (lam grid of the inner search, its winner)` -/
def bootstrap (env : Env) (i : Nat) (d : Data) (w : World) (b : List (Nat × Nat) × Nat) : World :=
  let g := w.models.length
  let w1 := gridsearch env (copyModel w i) g d true b.1 b.2
  let lams := ((w1.view g).map (fun v => v.terms.map (·.set.lam))).getD []
  let g2 := w1.models.length
  fitModel env (setLams (copyModel w1 i) g2 lams) g2 d 1

/-- `gam.sample(X_d, y_d, n_bootstraps = boots.length + 1)`: all work happens on copies, which are dropped -/
def sample (env : Env) (w : World) (i : Nat) (d : Data) (boots : List (List (Nat × Nat) × Nat)) : World :=
  let w' := boots.foldl (bootstrap env i d) w
  { w' with models := w'.models.take w.models.length }

inductive Query
  | predict | intervals | partialDependence | loglikelihood | devianceResiduals | summary
  deriving DecidableEq, Repr

inductive Op
  | mkExpr (specs : List TermSet)
  | joinExpr (a b : Nat)
  | construct (cls : Cls) (mset : Nat) (scaleKnown : Bool) (e : Nat)
  | fit (i : Nat) (d : Data) (iters : Nat)
  | query (q : Query) (i : Nat) (d : Data)
  | sample (i : Nat) (d : Data) (boots : List (List (Nat × Nat) × Nat))
  | gridsearch (i : Nat) (d : Data) (keepBest : Bool) (grid : List (Nat × Nat)) (winner : Nat)
  | setLam (i : Nat) (c : Nat)
  | setOrder (i : Nat) (c : Nat)
  | setModel (i : Nat) (c : Nat)
  | copy (i : Nat)
  | assignTerms (i e : Nat)
  deriving Repr

inductive Out
  | unit
  /-- index of the new expression / model / first new model -/
  | created (i : Nat)
  /-- a query result is a function of this key (and of the argument arrays) -/
  | result (k : QueryKey)
  /-- `AttributeError('GAM has not been fitted')` / unknown object -/
  | error
  deriving DecidableEq, Repr

/-- the model a call is made on -/
def Op.target : Op → Option Nat
  | .mkExpr _ | .joinExpr _ _ | .construct .. => none
  | .fit i _ _ | .query _ i _ | .sample i _ _ | .gridsearch i _ _ _ _ | .setLam i _ | .setOrder i _
  | .setModel i _ | .assignTerms i _ => some i
  | .copy _ => none

/-- calls that only read -/
def Op.isQuery : Op → Bool
  | .query .. => true
  | _ => false

def World.queryKey (w : World) (i : Nat) : Option QueryKey := (w.view i).bind ModelView.queryKey

def step (env : Env) (w : World) : Op → World × Out
  | .mkExpr specs => (mkExpr w specs, .created w.exprs.length)
  | .joinExpr a b =>
    if a < w.exprs.length ∧ b < w.exprs.length then (joinExpr w a b, .created w.exprs.length) else (w, .error)
  | .construct cls mset sk e =>
    if e < w.exprs.length then (construct w cls mset sk e, .created w.models.length) else (w, .error)
  | .fit i d k => if i < w.models.length then (fitModel env w i d k, .unit) else (w, .error)
  | .query _ i _ =>
    match w.queryKey i with
    | some k => (w, .result k)
    | none => (w, .error)
  | .sample i d boots =>
    match w.queryKey i with
    | some k => (sample env w i d boots, .result k)
    | none => (w, .error)
  | .gridsearch i d keep grid win =>
    if i < w.models.length then
      (gridsearch env w i d keep grid win, .created w.models.length)
    else (w, .error)
  | .setLam i c => if i < w.models.length then (setLam w i c, .unit) else (w, .error)
  | .setOrder i c => if i < w.models.length then (setOrder w i c, .unit) else (w, .error)
  | .setModel i c => if i < w.models.length then (setModel w i c, .unit) else (w, .error)
  | .copy i => if i < w.models.length then (copyModel w i, .created w.models.length) else (w, .error)
  | .assignTerms i e =>
    if i < w.models.length ∧ e < w.exprs.length then (assignTerms w i e, .unit) else (w, .error)

/-- run a history -/
def run (env : Env) (w : World) (h : List Op) : World := h.foldl (fun w o => (step env w o).1) w

end PyGam.Heap
