import PyGam.Model.Exposure
import PyGam.Model.Stats
/-!
# PyGam.Model.ExposureStats — the statistics of a `PoissonGAM` fitted with exposure (Mathlib-free)

`PoissonGAM.fit(X, y, exposure, weights)` converts `(y, exposure, weights)` with `_exposure_to_weights`
(`Model/Exposure.lean: exposureToWeights`) and calls `GAM.fit(X, rates, weights)`, which casts the weights to
float32 once more and, after PIRLS, runs `GAM._estimate_model_statistics(rates, modelmat, weights=…)`.  Every
statistic derived there from the log-likelihood or the deviance is therefore evaluated on the *converted* data:

* `fitRates`, `fitWeights` : what `_estimate_model_statistics` receives as `y` and `weights`;
* `fitLoglik`   : `self._loglikelihood(rates, mu, weights)` — `PoissonGAM`'s override, which rescales the rates back to
  counts (`np.round(rates * weights)`) before calling `PoissonDist.log_pdf`; this is `statistics_['loglikelihood']`
  and the `ℓ` of `_estimate_AIC`, `_estimate_AICc` and of `_estimate_r2` (McFadden);
* `fitDeviance` : `distribution.deviance(rates, mu, weights).sum()` (scale 1);
* `fitAIC`, `fitAICc`, `fitUBRE` : `Stats.aic / aicc / ubre` (`_known_scale`, `gamma = 1.4`, `add_scale = True`)
  on those — the values `gridsearch(objective='AIC' | 'AICc' | 'UBRE' | 'auto')` compares;
* `fitNullMu`   : the null model of `_estimate_r2`: the constant *rate* `rates.mean()`;
* `fitMcFadden`, `fitMcFaddenAdj`, `fitExplained` : the three `pseudo_r2` entries.

`mu` is the fitted rate `predict_mu(X)`, `edof` the reported `statistics_['edof']`.
-/
namespace PyGam.Exposure
variable {α : Type}

section defs
variable [Zero α] [One α] [Add α] [Sub α] [Mul α] [Div α] [LE α] [LT α] [DecidableLE α] [DecidableLT α]
  [LogOp α]

/-- the response `GAM.fit` (hence `_estimate_model_statistics`) receives: the rates `y / exposure` -/
def fitRates (cast : α → α) (y : Nat → α) (e w : Option (Nat → α)) : Nat → α :=
  (exposureToWeights cast y e w).1

/-- the weights `_estimate_model_statistics` receives: `weights * exposure`, cast to float32 by `GAM.fit` -/
def fitWeights (cast : α → α) (y : Nat → α) (e w : Option (Nat → α)) : Nat → α :=
  fun i => cast ((exposureToWeights cast y e w).2 i)

/-- `self._loglikelihood(rates, mu, weights)` inside `_estimate_model_statistics` (PoissonGAM override:
`rescale_y=True`) -/
def fitLoglik (cast round norm : α → α) (n : Nat) (mu y : Nat → α) (e w : Option (Nat → α)) : α :=
  loglikInner round norm n (fitRates cast y e w) mu (fitWeights cast y e w)

/-- `distribution.deviance(rates, mu, weights).sum()` (Poisson: scale 1) -/
def fitDeviance (cast : α → α) (n : Nat) (mu y : Nat → α) (e w : Option (Nat → α)) : α :=
  weightedDev n (fitRates cast y e w) mu (fitWeights cast y e w)

/-- `statistics_['AIC']` (known scale: no `+ 2`) -/
def fitAIC (cast round norm : α → α) (n : Nat) (mu y : Nat → α) (e w : Option (Nat → α)) (edof : α) : α :=
  Stats.aic (fitLoglik cast round norm n mu y e w) edof false

/-- `statistics_['AICc']` -/
def fitAICc (cast round norm : α → α) (n : Nat) (mu y : Nat → α) (e w : Option (Nat → α)) (edof : α) : α :=
  Stats.aicc (fitAIC cast round norm n mu y e w edof) edof n

/-- `statistics_['UBRE']` (`gamma = 1.4`, `add_scale = True`, scale 1) -/
def fitUBRE (cast : α → α) (n : Nat) (mu y : Nat → α) (e w : Option (Nat → α)) (edof : α) : α :=
  Stats.ubre Stats.gammaDefault true n (fitDeviance cast n mu y e w) edof 1

/-- the null model of `_estimate_r2`: `null_mu = rates.mean()` (a constant rate) -/
def fitNullMu (cast : α → α) (n : Nat) (y : Nat → α) (e w : Option (Nat → α)) : Nat → α :=
  fun _ => Stats.meanOf n (fitRates cast y e w)

/-- `pseudo_r2['McFadden']` -/
def fitMcFadden (cast round norm : α → α) (n : Nat) (mu y : Nat → α) (e w : Option (Nat → α)) : α :=
  Stats.mcFadden (fitLoglik cast round norm n mu y e w)
    (fitLoglik cast round norm n (fitNullMu cast n y e w) y e w)

/-- `pseudo_r2['McFadden_adj']` -/
def fitMcFaddenAdj (cast round norm : α → α) (n : Nat) (mu y : Nat → α) (e w : Option (Nat → α))
    (edof : α) : α :=
  Stats.mcFaddenAdj (fitLoglik cast round norm n mu y e w)
    (fitLoglik cast round norm n (fitNullMu cast n y e w) y e w) edof

/-- `pseudo_r2['explained_deviance']` -/
def fitExplained (cast : α → α) (n : Nat) (mu y : Nat → α) (e w : Option (Nat → α)) : α :=
  Stats.explainedDeviance (fitDeviance cast n mu y e w)
    (fitDeviance cast n (fitNullMu cast n y e w) y e w)

end defs
end PyGam.Exposure
