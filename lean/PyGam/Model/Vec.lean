/-!
# PyGam.Model.Vec — vectors and matrices as functions, Mathlib-free

Vectors are `Nat → α`, matrices `Nat → Nat → α`, sizes are passed explicitly.  All
definitions take notation classes only, so the same definition is executed by the driver
at `Int`/`Rat`/`Float` and reasoned about over an abstract (ordered) ring or field.
-/
namespace PyGam

variable {α : Type}

/-- `sumTo n f = f 0 + ... + f (n-1)` -/
def sumTo [Zero α] [Add α] : Nat → (Nat → α) → α
  | 0, _ => 0
  | n+1, f => sumTo n f + f n

/-- dot product of the first `n` entries -/
def dot [Zero α] [Add α] [Mul α] (n : Nat) (u v : Nat → α) : α :=
  sumTo n (fun i => u i * v i)

/-- `cᵀ P c` for an `n × n` matrix -/
def quadForm [Zero α] [Add α] [Mul α] (n : Nat) (P : Nat → Nat → α) (c : Nat → α) : α :=
  sumTo n (fun i => sumTo n (fun j => c i * P i j * c j))

/-- bilinear form `xᵀ P y` -/
def bilin [Zero α] [Add α] [Mul α] (n : Nat) (P : Nat → Nat → α) (x y : Nat → α) : α :=
  sumTo n (fun i => sumTo n (fun j => x i * P i j * y j))

/-- matrix–vector product of an `n × m` matrix -/
def mulVec [Zero α] [Add α] [Mul α] (m : Nat) (A : Nat → Nat → α) (v : Nat → α) : Nat → α :=
  fun i => sumTo m (fun j => A i j * v j)

/-- matrix product `A (n×k) * B (k×m)` -/
def matMul [Zero α] [Add α] [Mul α] (k : Nat) (A B : Nat → Nat → α) : Nat → Nat → α :=
  fun i j => sumTo k (fun l => A i l * B l j)

def transpose (A : Nat → Nat → α) : Nat → Nat → α := fun i j => A j i

/-- identity matrix -/
def ident [Zero α] [One α] : Nat → Nat → α := fun i j => if i = j then 1 else 0

/-- list view of a vector -/
def vecToList (n : Nat) (v : Nat → α) : List α := (List.range n).map v

/-- list-of-rows view of an `n × m` matrix -/
def matToLists (n m : Nat) (A : Nat → Nat → α) : List (List α) :=
  (List.range n).map (fun i => (List.range m).map (fun j => A i j))

/-- function view of a list (default outside) -/
def listToVec [Zero α] (l : List α) : Nat → α := fun i => l.getD i 0

/-- product of a list of naturals -/
def prodList : List Nat → Nat
  | [] => 1
  | a :: l => a * prodList l

end PyGam
