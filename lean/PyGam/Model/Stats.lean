import PyGam.Model.Vec
import PyGam.Model.Dists
import PyGam.Model.Links
import PyGam.Model.Pirls
/-!
# PyGam.Model.Stats — mirrors the model statistics of `pygam/pygam.py` (Mathlib-free)

`GAM._estimate_model_statistics`, `_estimate_AIC`, `_estimate_AICc`, `_estimate_r2`, `_estimate_GCV_UBRE`
(`gamma = 1.4`, `add_scale = True`), `_compute_p_value`, `deviance_residuals`, `score`, `LogisticGAM.accuracy`,
`loglikelihood`, as the code is *now*:

* `edof  = tr(U₁ U₁ᵀ)`, `cov = scale · B Bᵀ` with the code's `B = V D⁻¹ U₁ᵀ Qᵀ`, `se = √diag cov`.
  `Props/C08.lean` proves (from the LAPACK contracts `Solve.Factor`) that `B` is *the* solution `Bm` of
  `(WBᵀWB + A) Bm = WBᵀ`, that `tr(U₁U₁ᵀ) = tr(WB · Bm)` and that `B Bᵀ` is the sandwich; the executable
  definitions below (`edofOf`, `covOf`, `seOf`) are therefore written in terms of any such solution `Bm`
  (the driver obtains it by Gaussian elimination, `Model/SolveMany.lean`).
* `scale = Distribution.phi` (`Model/Dists.lean: phi`): the user's value, or Pearson `/ (n - edof)`.
* `AIC = -2ℓ + 2 edof + 2·[scale estimated]`, `AICc = AIC + 2(edof+1)(edof+2)/(n - edof - 2)`,
  `GCV = n D / (n - γ edof)²` (unknown scale), `UBRE = D/n - [¬add_scale]·φ + 2γ/n · edof · φ` (known scale),
  `D` the *unscaled* weighted deviance.
* `pseudo_r2`: explained deviance `1 - D/D₀`, McFadden `1 - ℓ/ℓ₀`, adjusted `1 - (ℓ - edof)/ℓ₀`;
  the null model is the *unweighted* mean `y.mean()`.
* `statistics_['deviance']` is the *scaled* weighted deviance (`deviance(...)` default `scaled=True`).
* p-value of a term: `c = coef[idxs]` (centred, `c - mean c`, for a `SplineTerm`), `score = cᵀ cov⁺ c`,
  known scale: `1 - chi2.cdf(score, rank)`; estimated: `1 - f.cdf(score/rank, rank, n - edof)`.  The
  pseudo-inverse, its rank and the two reference cdfs are library parameters (SciPy; trusted).
* `deviance_residuals = sign(y - μ) · √deviance(y, μ, weights, scaled)`; `score` = explained deviance on the
  data passed; `LogisticGAM.accuracy = mean((μ > 0.5) == y)`.
* log-likelihood: `Σ log_pdf` = `Σ (c_i + logKernel …)` with `c_i` the `μ`-free normaliser (`Model/Dists.lean`);
  `PoissonGAM._loglikelihood` first replaces `y` by `round(y · weights)`.

All definitions take notation classes only: the driver (`Drv/C08.lean`) runs them at `Float`, the theorems of
`Props/C08.lean` are over ordered fields / `ℝ`.
-/
namespace PyGam.Stats
open PyGam HasLogSqrt

variable {α : Type}

section defs
variable [Zero α] [One α] [Add α] [Sub α] [Mul α] [Div α] [LE α] [LT α] [DecidableLE α] [DecidableLT α]

/-- the default `gamma = 1.4` of `_estimate_GCV_UBRE` (`14/10`, correctly rounded at `Float`) -/
def gammaDefault : α := natTo 14 / natTo 10

/-! ### information criteria -/

/-- `_estimate_AIC`: `-2 * loglik + 2 * edof + 2 * estimated_scale` -/
def aic (ll edof : α) (estimated : Bool) : α :=
  (0 - two * ll) + two * edof + (if estimated then two else 0)

/-- `_estimate_AICc`: `AIC + 2 * (edof + 1) * (edof + 2) / (n - edof - 2)` -/
def aicc (aicV edof : α) (n : Nat) : α :=
  aicV + two * (edof + 1) * (edof + two) / (natTo n - edof - two)

/-- `GCV = (n * dev) / (n - gamma * edof) ** 2` -/
def gcv (gamma : α) (n : Nat) (dev edof : α) : α :=
  (natTo n * dev) / ((natTo n - gamma * edof) * (natTo n - gamma * edof))

/-- `UBRE = 1.0 / n * dev - (not add_scale) * (scale) + 2.0 * gamma / n * edof * scale` -/
def ubre (gamma : α) (addScale : Bool) (n : Nat) (dev edof scale : α) : α :=
  1 / natTo n * dev - (if addScale then 0 else 1) * scale + two * gamma / natTo n * edof * scale

/-- `_estimate_GCV_UBRE` returns `(GCV, UBRE)`: UBRE when the scale is known, GCV otherwise, the other `None` -/
def gcvUbre (known : Bool) (gamma : α) (addScale : Bool) (n : Nat) (dev edof scale : α) :
    Option α × Option α :=
  if known then (none, some (ubre gamma addScale n dev edof scale))
  else (some (gcv gamma n dev edof), none)

/-! ### pseudo R² -/

/-- `1.0 - full_d.sum() / null_d.sum()` -/
def explainedDeviance (d d0 : α) : α := 1 - d / d0

/-- `1.0 - full_ll / null_ll` -/
def mcFadden (ll ll0 : α) : α := 1 - ll / ll0

/-- `1.0 - (full_ll - edof) / null_ll` -/
def mcFaddenAdj (ll ll0 edof : α) : α := 1 - (ll - edof) / ll0

/-- `y.mean()` (unweighted) -/
def meanOf (n : Nat) (y : Nat → α) : α := sumTo n y / natTo n

end defs

section devdefs
variable [Zero α] [One α] [Add α] [Sub α] [Mul α] [Div α] [LE α] [LT α] [DecidableLE α] [DecidableLT α]
  [HasLogSqrt α]

/-- `distribution.deviance(y, mu, weights, scaled).sum()` -/
def totalDeviance (fam : Family) (levels scale : α) (scaled : Bool) (n : Nat) (w y mu : Nat → α) : α :=
  sumTo n (fun i => deviance fam levels scale scaled (w i) (y i) (mu i))

/-- the `explained_deviance` entry of `_estimate_r2` (and the return value of `GAM.score`): both deviances
use the default `scaled=True`; the null model is the constant `y.mean()` -/
def r2Explained (fam : Family) (levels scale : α) (n : Nat) (w y mu : Nat → α) : α :=
  explainedDeviance (totalDeviance fam levels scale true n w y mu)
    (totalDeviance fam levels scale true n w y (fun _ => meanOf n y))

/-- `np.sign` (of a non-NaN number) -/
def signOf (x : α) : α := if 0 < x then 1 else if x < 0 then 0 - 1 else 0

/-- `deviance_residuals`: `sign(y - mu) * deviance(y, mu, weights, scaled) ** 0.5` -/
def devResid (fam : Family) (levels scale : α) (scaled : Bool) (w y mu : α) : α :=
  signOf (y - mu) * sqrt (deviance fam levels scale scaled w y mu)

/-- `(mu > 0.5).astype(int)` -/
def predictClass (mu : α) : α := if 1 / two < mu then 1 else 0

/-- `LogisticGAM.accuracy`: `((mu > 0.5).astype(int) == y).mean()` -/
def accuracy (n : Nat) (y mu : Nat → α) : α :=
  sumTo n (fun i => if isZero (predictClass (mu i) - y i) then (1 : α) else 0) / natTo n

/-- the `mu`-dependent part of `_loglikelihood(y, mu, weights)` -/
def logKernelSum (fam : Family) (levels scale : α) (n : Nat) (w y mu : Nat → α) : α :=
  sumTo n (fun i => logKernel fam levels scale (w i) (y i) (mu i))

/-- `PoissonGAM._loglikelihood(rescale_y=True)` evaluates the pmf at `np.round(y * weights)` -/
def rescaleY (round : α → α) (w y : Nat → α) : Nat → α := fun i => round (y i * w i)

/-! ### edof, covariance, standard errors — in terms of a solution `Bm` (`m × n`) of
`(WBᵀWB + A) Bm = WBᵀ` (`Props/C08.lean`: the code's `B` is that solution, and `tr(U₁U₁ᵀ) = tr(WB · Bm)`) -/

/-- the PIRLS weight `W = (g'(μ)² V(μ) / w)^(-1/2)` of one row (`GAM._W`), as the root of `workWeight2` -/
def workW [Neg α] (cfg : GlmCfg α) (w y mu : α) : α := sqrt (workWeight2 cfg w y mu)

/-- `WB = W · modelmat[mask]`, the rows dropped by `_mask` being zero rows (they contribute nothing) -/
def weightedB (B : Nat → Nat → α) (keep : Nat → Bool) (W : Nat → α) : Nat → Nat → α :=
  fun r j => if keep r then W r * B r j else 0

/-- `tr(WB · Bm)`, the trace of the influence matrix -/
def edofOf (n m : Nat) (WB Bm : Nat → Nat → α) : α :=
  sumTo n (fun r => sumTo m (fun j => WB r j * Bm j r))

/-- `cov = B.dot(B.T) * scale` -/
def covOf (n : Nat) (scale : α) (Bm : Nat → Nat → α) : Nat → Nat → α :=
  fun i j => sumTo n (fun r => Bm i r * Bm j r) * scale

/-- `se = cov.diagonal() ** 0.5` -/
def seOf (cov : Nat → Nat → α) : Nat → α := fun i => sqrt (cov i i)

/-! ### p-values -/

/-- `coef -= coef.mean()` for spline terms -/
def centre (k : Nat) (c : Nat → α) : Nat → α := fun i => c i - meanOf k c

/-- the coefficient block that enters the Wald statistic -/
def waldCoef (isSpline : Bool) (k : Nat) (c : Nat → α) : Nat → α := if isSpline then centre k c else c

/-- `score = coef.T.dot(inv_cov).dot(coef)`; `P = pinv(cov_block)` is a library parameter -/
def waldStat (k : Nat) (P : Nat → Nat → α) (c : Nat → α) : α := quadForm k P c

/-- the arguments `_compute_p_value` hands to the reference cdf: `(score, ·)` for `chi2.cdf(score, rank)` when the
scale is known, `(score / rank, n - edof)` for `f.cdf(score / rank, rank, n - edof)` otherwise -/
def cdfArgs (known : Bool) (score : α) (rank n : Nat) (edof : α) : α × α :=
  if known then (score, 0) else (score / natTo rank, natTo n - edof)

/-- `_compute_p_value`: chi-squared reference for a known scale, `F(rank, n - edof)` of `score / rank` otherwise;
`chi2cdf x df` and `fcdf x d1 d2` are SciPy's (trusted parameters) -/
def pValue (chi2cdf : α → Nat → α) (fcdf : α → Nat → α → α) (known : Bool) (score : α) (rank n : Nat)
    (edof : α) : α :=
  let a := cdfArgs known score rank n edof
  if known then 1 - chi2cdf a.1 rank else 1 - fcdf a.1 rank a.2

/-! ### the scalar part of `statistics_` as one function of `(y, mu, weights, edof, ℓ, ℓ₀)` -/

structure Scalars (α : Type) where
  scale : α
  aic : α
  aicc : α
  gcv : Option α
  ubre : Option α
  explained : α
  mcFadden : α
  mcFaddenAdj : α
  deviance : α        -- `statistics_['deviance']` (scaled)

/-- `_estimate_model_statistics` after `edof` is known.  `known = some s` for a user-supplied (or fixed) scale.
`ll s`, `ll0 s` : the log-likelihood at the fitted and at the null mean *as functions of the scale* (they are
evaluated after the scale has been stored in the distribution). -/
def scalars (known : Option α) (fam : Family) (levels : α) (n : Nat) (edof : α) (w y mu : Nat → α)
    (ll ll0 : α → α) : Scalars α :=
  let scale := phi known fam levels n edof w y mu
  let a := aic (ll scale) edof known.isNone
  let devU := totalDeviance fam levels scale false n w y mu
  let gu := gcvUbre known.isSome gammaDefault true n devU edof scale
  { scale := scale, aic := a, aicc := aicc a edof n, gcv := gu.1, ubre := gu.2,
    explained := r2Explained fam levels scale n w y mu,
    mcFadden := mcFadden (ll scale) (ll0 scale),
    mcFaddenAdj := mcFaddenAdj (ll scale) (ll0 scale) edof,
    deviance := totalDeviance fam levels scale true n w y mu }

end devdefs
end PyGam.Stats
