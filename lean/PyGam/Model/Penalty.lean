import PyGam.Model.Vec
/-!
# PyGam.Model.Penalty — mirrors `pygam/penalties.py`

* `derivPen n d`   : `derivative(n, coef, derivative=d)`  = `D Dᵀ`, `D = sparse_diff(identity(n), d)`
* `cycPen n d`     : `periodic(n, coef, derivative=d)`    = `D Dᵀ`, `D` the d-fold cyclic difference of `identity(n)`
* `l2Pen`, `nonePen`
* `monoPen incr n c`, `convPen convex n c` : `monotonicity_`, `convexity_`
* `wrapPenalty` : `wrap_penalty`
-/
namespace PyGam
variable {α : Type}

section ring
variable [Zero α] [One α] [Add α] [Sub α] [Mul α]

/-- `A[:, 1:] - A[:, :-1]` (columns) -/
def diffLast (A : Nat → Nat → α) : Nat → Nat → α := fun i j => A i (j+1) - A i j

/-- `sparse_diff(A, n=d)` along the last axis -/
def iterDiffLast : Nat → (Nat → Nat → α) → Nat → Nat → α
  | 0, A => A
  | d+1, A => diffLast (iterDiffLast d A)

/-- `np.diff(c)` -/
def diffVec (c : Nat → α) : Nat → α := fun k => c (k+1) - c k

/-- `np.diff(c, n=d)` -/
def iterDiffVec : Nat → (Nat → α) → Nat → α
  | 0, c => c
  | d+1, c => diffVec (iterDiffVec d c)

/-- the matrix `D = sparse_diff(identity(n), d)` of shape `n × (n-d)` -/
def diffMat (d : Nat) : Nat → Nat → α := iterDiffLast d (ident (α := α))

/-- `penalties.derivative(n, coef, derivative=d)`; for `n = 1` (and any `n ≤ d`) the zero matrix -/
def derivPen (n d : Nat) : Nat → Nat → α :=
  fun i j => sumTo (n - d) (fun k => diffMat (α := α) d i k * diffMat (α := α) d j k)

/-- cyclic column difference on `n` columns: `A[:, (j+1) mod n] - A[:, j]` -/
def cycDiffLast (n : Nat) (A : Nat → Nat → α) : Nat → Nat → α :=
  fun i j => A i ((j+1) % n) - A i j

def iterCycDiffLast (n : Nat) : Nat → (Nat → Nat → α) → Nat → Nat → α
  | 0, A => A
  | d+1, A => cycDiffLast n (iterCycDiffLast n d A)

/-- cyclic difference of a coefficient vector of length `n` -/
def cycDiffVec (n : Nat) (c : Nat → α) : Nat → α := fun k => c ((k+1) % n) - c k

def iterCycDiffVec (n : Nat) : Nat → (Nat → α) → Nat → α
  | 0, c => c
  | d+1, c => cycDiffVec n (iterCycDiffVec n d c)

def cycDiffMat (n d : Nat) : Nat → Nat → α := iterCycDiffLast n d (ident (α := α))

/-- `penalties.periodic(n, coef, derivative=d)` : `D Dᵀ` with `D` the `n × n` d-fold cyclic
difference of the identity; the code returns the `1×1` zero matrix for `n = 1`. -/
def cycPen (n d : Nat) : Nat → Nat → α :=
  fun i j => if n = 1 then 0 else
    sumTo n (fun k => cycDiffMat (α := α) n d i k * cycDiffMat (α := α) n d j k)

/-- `penalties.l2` -/
def l2Pen : Nat → Nat → α := ident

/-- `penalties.none` -/
def nonePen : Nat → Nat → α := fun _ _ => 0

/-- `wrap_penalty(p, fit_linear, linear_penalty)(n)` as a block diagonal `[[lp, 0], [0, p(n-1)]]` -/
def wrapPenalty (p : Nat → Nat → Nat → α) (fitLinear : Bool) (linearPenalty : α) (n : Nat) :
    Nat → Nat → α :=
  if fitLinear then
    fun i j => if i = 0 ∧ j = 0 then linearPenalty
               else if i = 0 ∨ j = 0 then 0
               else if n = 1 then 0 else p (n-1) (i-1) (j-1)
  else p n

end ring

section ordered
variable [Zero α] [One α] [Add α] [Sub α] [Mul α] [LT α] [DecidableLT α]

/-- violation indicator of `monotonicity_`: increasing penalises `Δc_k < 0`, decreasing `Δc_k > 0` -/
def monoMask (incr : Bool) (c : Nat → α) : Nat → α :=
  fun k => if incr then (if diffVec c k < 0 then 1 else 0) else (if 0 < diffVec c k then 1 else 0)

/-- violation indicator of `convexity_`: convex penalises `Δ²c_k < 0`, concave `Δ²c_k > 0` -/
def convMask (convex : Bool) (c : Nat → α) : Nat → α :=
  fun k => if convex then (if iterDiffVec 2 c k < 0 then 1 else 0)
           else (if 0 < iterDiffVec 2 c k then 1 else 0)

/-- `(D * mask)(D * mask)ᵀ` with `D = sparse_diff(identity(n), d)` and a diagonal mask -/
def maskedPen (n d : Nat) (mask : Nat → α) : Nat → Nat → α :=
  fun i j => sumTo (n - d)
    (fun k => (diffMat (α := α) d i k * mask k) * (diffMat (α := α) d j k * mask k))

/-- `penalties.monotonicity_(n, coef, increasing)` -/
def monoPen (incr : Bool) (n : Nat) (c : Nat → α) : Nat → Nat → α := maskedPen n 1 (monoMask incr c)

/-- `penalties.convexity_(n, coef, convex)` -/
def convPen (convex : Bool) (n : Nat) (c : Nat → α) : Nat → Nat → α := maskedPen n 2 (convMask convex c)

end ordered
end PyGam
