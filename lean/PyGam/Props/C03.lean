import PyGam.Proofs.BSplineRows
import Mathlib.Data.Rat.Floor
import PyGam.Gen.Decisions
/-!
# C03 — the spline basis is the Cox–de Boor B-spline basis with linear / periodic continuation

Property theorems about `PyGam.basisRow` (the model of `pygam.utils.b_spline_basis`, executed by the driver
against the real code on every run).  All statements hold for every order `p`, every number of functions
`n > p`, every pair of distinct edge knots, every `x`, over any linear ordered field; `ε ≥ 0` is the
amount by which the code pushes out its last knot (`1e-9`; order 0 needs `ε > 0` to own the right edge).
-/
open Finset
namespace PyGam.C03
open PyGam
variable {α : Type} [Field α] [LinearOrder α] [IsStrictOrderedRing α]

/-! ### rescaling -/

theorem lo_le_hi [HasFract α] (c : BasisCfg α) : c.lo ≤ c.hi := by
  simp only [BasisCfg.lo, BasisCfg.hi]; split <;> [exact le_of_lt ‹_›; exact not_lt.mp ‹_›]

theorem scale_pos [HasFract α] (c : BasisCfg α) : 0 < c.scale := by
  have := lo_le_hi c
  simp only [BasisCfg.scale]; split
  · exact zero_lt_one
  · rename_i h; exact lt_of_le_of_ne (by linarith) (Ne.symm h)

theorem rescale_mem [HasFract α] (c : BasisCfg α) (hk : c.e0 ≠ c.e1) (x : α) (h0 : c.lo ≤ x) (h1 : x ≤ c.hi) :
    0 ≤ c.rescale x ∧ c.rescale x ≤ 1 := by
  have hs := scale_pos c
  have hsc : c.scale = c.hi - c.lo := by
    simp only [BasisCfg.scale]; rw [if_neg]
    simp only [BasisCfg.lo, BasisCfg.hi]; split
    · intro h; apply hk; linarith
    · intro h; apply hk; linarith
  simp only [BasisCfg.rescale]
  constructor
  · apply div_nonneg (by linarith) (le_of_lt hs)
  · rw [div_le_one hs, hsc]; linarith

theorem basisRow_open [HasFract α] (ε : α) (c : BasisCfg α) (hper : c.periodic = false) (x : α) :
    basisRow ε c x = openRow c.nSplines c.order ε (c.rescale x) := by
  simp [basisRow, hper]

theorem basisRow_cyclic [HasFract α] (ε : α) (c : BasisCfg α) (hper : c.periodic = true) (x : α) :
    basisRow ε c x = cyclicRow c.nSplines c.order ε (c.rescale x) := by
  simp [basisRow, hper]

theorem cyclicRow_apply [HasFract α] (n p : Nat) (ε x : α) (j : Nat) :
    cyclicRow n p ε x j = if j < p then max (innerRow (n+p) p ε (wrapUnit x) j) (innerRow (n+p) p ε (wrapUnit x) (n+j))
                          else innerRow (n+p) p ε (wrapUnit x) j := rfl

theorem openRow_inside [HasFract α] (N p : Nat) (ε y : α) (a : 0 ≤ y) (b : y ≤ 1) :
    openRow N p ε y = innerRow N p ε y := by
  unfold openRow
  rw [if_neg (by intro h; exact absurd h.1 (not_lt.mpr a)), if_neg (by intro h; exact absurd h.1 (not_lt.mpr b))]

/-! ### inside the knot range (non-periodic) -/

/-- entries are non-negative -/
theorem inside_nonneg [HasFract α] (ε : α) (c : BasisCfg α) (hper : c.periodic = false)
    (hn : c.order < c.nSplines) (hε : 0 ≤ ε) (hk : c.e0 ≠ c.e1) (x : α) (h0 : c.lo ≤ x) (h1 : x ≤ c.hi)
    (j : Nat) : 0 ≤ basisRow ε c x j := by
  obtain ⟨a, b⟩ := rescale_mem c hk x h0 h1
  rw [basisRow_open ε c hper, openRow_inside _ _ _ _ a b]
  exact innerRow_nonneg _ _ ε hn hε _ j

/-- every row sums to one (both edge knots included) -/
theorem inside_sum [HasFract α] (ε : α) (c : BasisCfg α) (hper : c.periodic = false)
    (hn : c.order < c.nSplines) (hε : 0 ≤ ε) (hε0 : c.order = 0 → 0 < ε) (hk : c.e0 ≠ c.e1)
    (x : α) (h0 : c.lo ≤ x) (h1 : x ≤ c.hi) :
    ∑ j ∈ range c.nSplines, basisRow ε c x j = 1 := by
  obtain ⟨a, b⟩ := rescale_mem c hk x h0 h1
  simp only [basisRow_open ε c hper]
  exact openRow_sum _ _ ε hn hε hε0 _ (Or.inr ⟨a, b⟩)

/-- at most `order + 1` consecutive functions are non-zero -/
theorem inside_band [HasFract α] (ε : α) (c : BasisCfg α) (hper : c.periodic = false)
    (hn : c.order < c.nSplines) (hε : 0 ≤ ε) (hk : c.e0 ≠ c.e1) (x : α) (h0 : c.lo ≤ x) (h1 : x ≤ c.hi)
    (i j : Nat) (hi : basisRow ε c x i ≠ 0) (hj : basisRow ε c x j ≠ 0) : j ≤ i + c.order := by
  obtain ⟨a, b⟩ := rescale_mem c hk x h0 h1
  rw [basisRow_open ε c hper, openRow_inside _ _ _ _ a b] at hi hj
  exact innerRow_band _ _ ε hn hε _ i j hi hj

/-! ### outside the knot range (non-periodic, order ≥ 1): linear continuation -/

/-- rows still sum to one, for every real `x` -/
theorem everywhere_sum [HasFract α] (ε : α) (c : BasisCfg α) (hper : c.periodic = false)
    (hn : c.order < c.nSplines) (hp : 0 < c.order) (hε : 0 ≤ ε) (x : α) :
    ∑ j ∈ range c.nSplines, basisRow ε c x j = 1 := by
  simp only [basisRow_open ε c hper]
  exact openRow_sum _ _ ε hn hε (by omega) _ (Or.inl hp)

/-- left of the range every function is affine in `x`, with the boundary value as intercept
(at the rescaled position 0) and a slope that does not depend on `x` -/
theorem left_affine [HasFract α] (ε : α) (c : BasisCfg α) (hper : c.periodic = false) (hp : 0 < c.order)
    (j : Nat) : ∃ slope : α, ∀ x, c.rescale x < 0 →
      basisRow ε c x j = slope * c.rescale x + row0 c.nSplines c.order ε j := by
  refine ⟨gradOf c.nSplines c.order ε (prev0 c.nSplines c.order ε) j, ?_⟩
  intro x hx
  rw [basisRow_open ε c hper]; unfold openRow
  rw [if_pos ⟨hx, hp⟩]

/-- right of the range likewise (intercept = value at the rescaled position 1) -/
theorem right_affine [HasFract α] (ε : α) (c : BasisCfg α) (hper : c.periodic = false) (hp : 0 < c.order)
    (j : Nat) : ∃ slope : α, ∀ x, 1 < c.rescale x →
      basisRow ε c x j = slope * (c.rescale x - 1) + row1 c.nSplines c.order ε j := by
  refine ⟨gradOf c.nSplines c.order ε (prev1 c.nSplines c.order ε) j, ?_⟩
  intro x hx
  have : ¬ (c.rescale x < 0 ∧ 0 < c.order) := by intro h; linarith [h.1]
  rw [basisRow_open ε c hper]; unfold openRow
  rw [if_neg this, if_pos ⟨hx, hp⟩]

/-! ### dependence on `x` only through its position relative to the edge knots -/

/-- affine invariance: mapping `x` and both edge knots by `u ↦ a u + b`, `a > 0`, changes nothing -/
theorem affine_invariant [HasFract α] (ε : α) (n p : Nat) (per : Bool) (e0 e1 a b x : α) (ha : 0 < a)
    (hk : e0 ≠ e1) :
    basisRow ε ⟨n, p, per, a * e0 + b, a * e1 + b⟩ (a * x + b) = basisRow ε ⟨n, p, per, e0, e1⟩ x := by
  have key : (BasisCfg.mk n p per (a * e0 + b) (a * e1 + b)).rescale (a * x + b)
      = (BasisCfg.mk n p per e0 e1).rescale x := by
    simp only [BasisCfg.rescale, BasisCfg.scale, BasisCfg.lo, BasisCfg.hi]
    have hlt : (a * e1 + b < a * e0 + b) ↔ (e1 < e0) := by
      constructor
      · intro h; by_contra h'; have := mul_le_mul_of_nonneg_left (not_lt.mp h') (le_of_lt ha); linarith
      · intro h; have := mul_lt_mul_of_pos_left h ha; linarith
    by_cases h : e1 < e0
    · have h' := hlt.mpr h
      have hne : e0 - e1 ≠ 0 := sub_ne_zero.mpr hk
      have hne' : a * e0 + b - (a * e1 + b) ≠ 0 := by
        have : a * e0 + b - (a * e1 + b) = a * (e0 - e1) := by ring
        rw [this]; exact mul_ne_zero (ne_of_gt ha) hne
      simp only [h, h', if_true, hne, hne', if_false]
      field_simp; ring
    · have h' : ¬ (a * e1 + b < a * e0 + b) := fun q => h (hlt.mp q)
      have hne : e1 - e0 ≠ 0 := sub_ne_zero.mpr (Ne.symm hk)
      have hne' : a * e1 + b - (a * e0 + b) ≠ 0 := by
        have : a * e1 + b - (a * e0 + b) = a * (e1 - e0) := by ring
        rw [this]; exact mul_ne_zero (ne_of_gt ha) hne
      simp only [h, h', if_false, hne, hne']
      field_simp; ring
  simp only [basisRow]
  rw [key]

/-- the default edge knots of a numerical feature are its minimum and maximum -/
theorem default_knots (dmin dmax half : α) : edgeKnots false dmin dmax half = (dmin, dmax) := rfl

/-- categorical features get half a unit of margin on both sides -/
theorem categorical_knots (dmin dmax half : α) :
    edgeKnots true dmin dmax half = (dmin - half, dmax + half) := rfl

/-! ### periodic basis -/

section periodic
variable [FloorRing α] [HasFract α]

/-- the wrapped position lies in the closed unit interval -/
theorem wrapUnit_mem (hfr : ∀ x : α, HasFract.fract x = Int.fract x) (x : α) :
    0 ≤ wrapUnit x ∧ wrapUnit x ≤ 1 := by
  simp only [wrapUnit]
  by_cases h : x < 0
  · rw [if_pos h, hfr]; exact ⟨Int.fract_nonneg x, le_of_lt (Int.fract_lt_one x)⟩
  · rw [if_neg h]
    by_cases h' : 1 < x
    · rw [if_pos h', hfr]
      have a := Int.fract_nonneg (0 - x); have b := Int.fract_lt_one (0 - x)
      constructor <;> linarith
    · rw [if_neg h']; exact ⟨not_lt.mp h, not_lt.mp h'⟩

/-- away from the period boundaries the wrapped position is the fractional part -/
theorem wrapUnit_eq_fract (hfr : ∀ x : α, HasFract.fract x = Int.fract x) (x : α)
    (hx : Int.fract x ≠ 0) : wrapUnit x = Int.fract x := by
  simp only [wrapUnit]
  by_cases h : x < 0
  · rw [if_pos h, hfr]
  · rw [if_neg h]
    by_cases h' : 1 < x
    · rw [if_pos h', hfr, zero_sub, Int.fract_neg hx]; ring
    · rw [if_neg h']
      have h0 : 0 ≤ x := not_lt.mp h
      have h1 : x ≤ 1 := not_lt.mp h'
      have : x < 1 := by
        rcases lt_or_eq_of_le h1 with q | q
        · exact q
        · exfalso; apply hx; rw [q]; simp
      exact (Int.fract_eq_self.mpr ⟨h0, this⟩).symm

/-- periodic rows are non-negative, for every real `x` -/
theorem periodic_nonneg (hfr : ∀ x : α, HasFract.fract x = Int.fract x) (ε : α) (c : BasisCfg α)
    (hper : c.periodic = true) (hn : c.order < c.nSplines) (hε : 0 ≤ ε) (x : α) (j : Nat) :
    0 ≤ basisRow ε c x j := by
  rw [basisRow_cyclic ε c hper, cyclicRow_apply]
  have hNp : c.order < c.nSplines + c.order := by omega
  split
  · exact le_max_of_le_left (innerRow_nonneg _ _ ε hNp hε _ _)
  · exact innerRow_nonneg _ _ ε hNp hε _ _

/-- periodic rows sum to one, for every real `x` -/
theorem periodic_sum (hfr : ∀ x : α, HasFract.fract x = Int.fract x) (ε : α) (c : BasisCfg α)
    (hper : c.periodic = true) (hn : c.order < c.nSplines) (hε : 0 ≤ ε) (hε0 : c.order = 0 → 0 < ε)
    (x : α) : ∑ j ∈ range c.nSplines, basisRow ε c x j = 1 := by
  obtain ⟨a, b⟩ := wrapUnit_mem hfr (c.rescale x)
  simp only [basisRow_cyclic ε c hper, cyclicRow_apply]
  exact cyclic_fold_sum c.nSplines c.order ε hn hε hε0 _ a b

/-- the periodic basis repeats with period equal to the knot range (`x` not on a period boundary) -/
theorem periodic_period (hfr : ∀ x : α, HasFract.fract x = Int.fract x) (ε : α) (c : BasisCfg α)
    (hper : c.periodic = true) (hk : c.e0 ≠ c.e1) (x : α) (k : ℤ)
    (hx : Int.fract (c.rescale x) ≠ 0) :
    basisRow ε c (x + k * (c.hi - c.lo)) = basisRow ε c x := by
  have hsc : c.scale = c.hi - c.lo := by
    simp only [BasisCfg.scale]; rw [if_neg]
    simp only [BasisCfg.lo, BasisCfg.hi]; split
    · intro h; apply hk; linarith
    · intro h; apply hk; linarith
  have hs := scale_pos c
  have hr : c.rescale (x + k * (c.hi - c.lo)) = c.rescale x + k := by
    simp only [BasisCfg.rescale]; rw [← hsc]; field_simp; ring
  have hx' : Int.fract (c.rescale x + k) ≠ 0 := by rw [Int.fract_add_intCast]; exact hx
  rw [basisRow_cyclic ε c hper, basisRow_cyclic ε c hper]
  funext j
  rw [cyclicRow_apply, cyclicRow_apply, hr, wrapUnit_eq_fract hfr _ hx', wrapUnit_eq_fract hfr _ hx,
    Int.fract_add_intCast]

end periodic

/-- the driver's `Rat` instance of `x % 1` is the fractional part -/
example : ∀ x : ℚ, HasFract.fract x = Int.fract x := by
  intro x; rfl

/-! ### non-vacuity: concrete instances meet the hypotheses -/
example : (BasisCfg.mk 5 2 false (0:ℚ) 1).order < (BasisCfg.mk 5 2 false (0:ℚ) 1).nSplines := by decide
example : basisRow (1/1000000000 : ℚ) ⟨5, 2, false, 0, 1⟩ (1/3) 1 = 1/2 := by decide +kernel

/-! ### tie to the source by translation of the decision logic (`gen_decision_*`)

`Gen/Decisions.lean` is regenerated on every run from the abstract syntax tree of `pygam/utils.py`: `Gen.gen_edge_knots` is
`gen_edge_knots(data, dtype)` with `np.min(data)`, `np.max(data)` as parameters and `np.r_[a, b]` as the pair (the
`ValueError` guard on `dtype` and the constant-feature warning are not translated). -/
section gen_decisions
set_option linter.unusedSectionVars false

/-- `gen_edge_knots` is the model's `edgeKnots` with `half = 1/2`: categorical ↦ `(min − ½, max + ½)`, numerical ↦
`(min, max)`.  The source's `0.5` is translated as `5/10`; over a field of characteristic 0 that is `1/2` -/
theorem gen_decision_edge_knots (cat : Bool) (dmin dmax : α) :
    Gen.gen_edge_knots dmin dmax (if cat then "categorical" else "numerical") = edgeKnots cat dmin dmax (1 / 2) := by
  have h : (natTo 5 / natTo 10 : α) = 1 / 2 := by simp [natTo]; norm_num
  cases cat <;> simp [Gen.gen_edge_knots, edgeKnots, h]

end gen_decisions

end PyGam.C03
