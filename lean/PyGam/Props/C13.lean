import PyGam.Proofs.NormalEq
import PyGam.Proofs.EdofMonotone
import PyGam.Props.C01
import PyGam.Props.C04
import Mathlib.Algebra.BigOperators.Fin
import Mathlib.Algebra.Order.BigOperators.Ring.Finset
import Mathlib.Data.Matrix.Mul
import Mathlib.Data.Matrix.Diagonal
import Mathlib.LinearAlgebra.Matrix.Trace
import Mathlib.LinearAlgebra.Matrix.NonsingularInverse
import Mathlib.Tactic.FinCases
import Mathlib.Tactic.NormNum
import Mathlib.Tactic.Positivity
/-!
# C13 — lam trades fidelity for smoothness monotonically and with the right limits

Unconstrained normal / identity models.  The fit at smoothing parameter `λ` is the solution `β_λ` of the penalised normal
equations (C01 `solve_correct`) with total penalty `A(λ) = R + λ P`, where `P` is the penalty whose `lam` is being
increased (one penalty of one term, or — all lams scaled jointly — the whole `Σ_k lam_k P_k`) and `R` collects
everything held fixed: the `√ε` ridge `S` and the other penalties.  By C01 `normal_eq_is_minimiser` `β_λ` minimises
`RSS(β) + βᵀRβ + λ βᵀPβ`.  Everything below follows from that and from `crit_excess` only.

* `penalty_antitone`, `fidelity_monotone` : `J = βᵀPβ` never increases, `RSS + βᵀRβ` never decreases
* `rss_monotone_up_to_fixed_penalties`, `rss_monotone` : the weighted RSS itself never decreases *up to the change of the
  fixed penalty terms* — exactly monotone when nothing else is penalised; `rss_not_monotone_in_general` shows the
  restriction is necessary (2 × 2 instance in which RSS drops from 2/9 to 1/5 when one lam goes from 0 to 1 while another
  penalty is held at 1)
* `squeeze`, `limit_distance` : quantitative form of `λ → ∞`: for every `β⁰` in the null space of `P` (straight lines for
  the default second-difference penalty by C04 `derivPen_poly`; zero coefficients for a ridge term), `J(β_λ) ≤ F(β⁰)/λ`,
  `F(β_λ) ≤ F(β⁰)` with `F = RSS + βᵀRβ`, and the weighted distance of the fitted values from those of `β⁰` is at most
  `F(β⁰) - F(β_λ)`
* `lam_zero` : at `λ = 0` the normal equations are those of weighted least squares with the fixed part `R` alone
  (`R = S`: unpenalised WLS on the basis plus the `√ε` ridge)
* `edof_antitone` : **full strength** — `edof(λ) = tr((G + R + λP)⁻¹ G)`, `G = AᵀA` (`A = W B`), is non-increasing in `λ ≥ 0`
  for symmetric `R`, `P` with non-negative quadratic forms, whenever the two normal matrices are invertible; no
  diagonalisation hypothesis (`Proofs/EdofMonotone.lean`: `N₁ - N₂ = N₂ΔN₂ + N₂ΔN₁ΔN₂`); `edof_bounds`: `0 ≤ edof`
* `edof_antitone_partial`, `edof_diag_formula_partial` : (kept; superseded by `edof_antitone`) under a simultaneous diagonalisation `Tᵀ(G + R)T = 1`,
  `TᵀPT = diag γ`, `edof(λ) = tr((G + R + λP)⁻¹G) = Σ_j a_j / (1 + λ γ_j)` with `a_j = (TᵀGT)_jj`, which is non-increasing in `λ`
-/
open Finset
namespace PyGam.C13
open PyGam NormalEq

section path
variable {α : Type} [Field α] [LinearOrder α] [IsStrictOrderedRing α] {n m : ℕ}

/-- weighted residual sum of squares -/
def rss (B : Fin n → Fin m → α) (w y : Fin n → α) (β : Fin m → α) : α := ∑ r, w r * (y r - lp B β r) ^ 2

/-- total penalty along the path: fixed part `R` plus `λ` times the varied penalty `P` -/
def pen (R P : Fin m → Fin m → α) (lam : α) : Fin m → Fin m → α := fun i j => R i j + lam * P i j

/-- the penalised normal equations `Bᵀ W (y - Bβ) = A β` -/
def NormalEqs (B : Fin n → Fin m → α) (A : Fin m → Fin m → α) (w y : Fin n → α) (β : Fin m → α) : Prop :=
  ∀ i, ∑ r, B r i * w r * (y r - lp B β r) = ∑ j, A i j * β j

theorem bil_pen (R P : Fin m → Fin m → α) (lam : α) (β δ : Fin m → α) :
    bil (pen R P lam) β δ = bil R β δ + lam * bil P β δ := by
  simp only [bil, pen, mul_sum, ← sum_add_distrib]
  apply sum_congr rfl; intro i _; apply sum_congr rfl; intro j _; ring

/-- the criterion splits as `RSS + βᵀRβ + λ βᵀPβ`: "lam multiplies each penalty matrix" -/
theorem crit_split (B : Fin n → Fin m → α) (R P : Fin m → Fin m → α) (lam : α) (w y : Fin n → α) (β : Fin m → α) :
    crit B (pen R P lam) w y β = rss B w y β + bil R β β + lam * bil P β β := by
  simp only [crit, rss, bil_pen]; ring

theorem pen_symm (R P : Fin m → Fin m → α) (hR : ∀ i j, R i j = R j i) (hP : ∀ i j, P i j = P j i) (lam : α) :
    ∀ i j, pen R P lam i j = pen R P lam j i := by
  intro i j; simp only [pen]; rw [hR i j, hP i j]

theorem pen_psd (R P : Fin m → Fin m → α) (hR : ∀ δ, 0 ≤ bil R δ δ) (hP : ∀ δ, 0 ≤ bil P δ δ) (lam : α) (hl : 0 ≤ lam) :
    ∀ δ, 0 ≤ bil (pen R P lam) δ δ := by
  intro δ; rw [bil_pen]; have := mul_nonneg hl (hP δ); linarith [hR δ]

/-- the exchange argument for two minimisers of `F + λ J` -/
theorem exchange {X : Type} (F J : X → α) (l₁ l₂ : α) (h0 : 0 ≤ l₁) (hlt : l₁ < l₂) (x₁ x₂ : X)
    (h₁ : ∀ x, F x₁ + l₁ * J x₁ ≤ F x + l₁ * J x) (h₂ : ∀ x, F x₂ + l₂ * J x₂ ≤ F x + l₂ * J x) :
    J x₂ ≤ J x₁ ∧ F x₁ ≤ F x₂ := by
  have a := h₁ x₂
  have b := h₂ x₁
  have hJ : J x₂ ≤ J x₁ := by
    by_contra hc
    have hc' : J x₁ < J x₂ := not_le.mp hc
    have : (l₂ - l₁) * (J x₂ - J x₁) > 0 := mul_pos (by linarith) (by linarith)
    nlinarith
  refine ⟨hJ, ?_⟩
  have : l₁ * (J x₂ - J x₁) ≤ 0 := mul_nonpos_of_nonneg_of_nonpos h0 (by linarith)
  nlinarith

variable (B : Fin n → Fin m → α) (R P : Fin m → Fin m → α) (w y : Fin n → α)

/-- a solution of the normal equations at `λ ≥ 0` minimises `RSS + βᵀRβ + λ βᵀPβ` (C01 `normal_eq_is_minimiser`) -/
theorem solution_minimises (hR : ∀ i j, R i j = R j i) (hP : ∀ i j, P i j = P j i)
    (hRp : ∀ δ, 0 ≤ bil R δ δ) (hPp : ∀ δ, 0 ≤ bil P δ δ) (hw : ∀ r, 0 ≤ w r) (lam : α) (hl : 0 ≤ lam)
    (β : Fin m → α) (h : NormalEqs B (pen R P lam) w y β) (γ : Fin m → α) :
    (rss B w y β + bil R β β) + lam * bil P β β ≤ (rss B w y γ + bil R γ γ) + lam * bil P γ γ := by
  have := C01.normal_eq_is_minimiser B (pen R P lam) (pen_symm R P hR hP lam) (pen_psd R P hRp hPp lam hl) w y hw β h γ
  rw [crit_split, crit_split] at this
  exact this

/-- **smoothness**: increasing the `lam` of a penalty never increases that penalty's value `βᵀPβ` at the fit -/
theorem penalty_antitone (hR : ∀ i j, R i j = R j i) (hP : ∀ i j, P i j = P j i)
    (hRp : ∀ δ, 0 ≤ bil R δ δ) (hPp : ∀ δ, 0 ≤ bil P δ δ) (hw : ∀ r, 0 ≤ w r) (l₁ l₂ : α) (h0 : 0 ≤ l₁) (hlt : l₁ < l₂)
    (β₁ β₂ : Fin m → α) (h₁ : NormalEqs B (pen R P l₁) w y β₁) (h₂ : NormalEqs B (pen R P l₂) w y β₂) :
    bil P β₂ β₂ ≤ bil P β₁ β₁ :=
  (exchange (fun β => rss B w y β + bil R β β) (fun β => bil P β β) l₁ l₂ h0 hlt β₁ β₂
    (solution_minimises B R P w y hR hP hRp hPp hw l₁ h0 β₁ h₁)
    (solution_minimises B R P w y hR hP hRp hPp hw l₂ (by linarith) β₂ h₂)).1

/-- **fidelity**: … and never decreases `RSS + βᵀRβ` (weighted RSS plus the penalty terms held fixed) -/
theorem fidelity_monotone (hR : ∀ i j, R i j = R j i) (hP : ∀ i j, P i j = P j i)
    (hRp : ∀ δ, 0 ≤ bil R δ δ) (hPp : ∀ δ, 0 ≤ bil P δ δ) (hw : ∀ r, 0 ≤ w r) (l₁ l₂ : α) (h0 : 0 ≤ l₁) (hlt : l₁ < l₂)
    (β₁ β₂ : Fin m → α) (h₁ : NormalEqs B (pen R P l₁) w y β₁) (h₂ : NormalEqs B (pen R P l₂) w y β₂) :
    rss B w y β₁ + bil R β₁ β₁ ≤ rss B w y β₂ + bil R β₂ β₂ :=
  (exchange (fun β => rss B w y β + bil R β β) (fun β => bil P β β) l₁ l₂ h0 hlt β₁ β₂
    (solution_minimises B R P w y hR hP hRp hPp hw l₁ h0 β₁ h₁)
    (solution_minimises B R P w y hR hP hRp hPp hw l₂ (by linarith) β₂ h₂)).2

/-- the weighted RSS can only decrease by what the fixed penalty terms gain:
`RSS(β₁) ≤ RSS(β₂) + (β₂ᵀRβ₂ - β₁ᵀRβ₁)` — with `R = S = √ε·I` a slack of at most `√ε (‖β₂‖² - ‖β₁‖²)` -/
theorem rss_monotone_up_to_fixed_penalties (hR : ∀ i j, R i j = R j i) (hP : ∀ i j, P i j = P j i)
    (hRp : ∀ δ, 0 ≤ bil R δ δ) (hPp : ∀ δ, 0 ≤ bil P δ δ) (hw : ∀ r, 0 ≤ w r) (l₁ l₂ : α) (h0 : 0 ≤ l₁) (hlt : l₁ < l₂)
    (β₁ β₂ : Fin m → α) (h₁ : NormalEqs B (pen R P l₁) w y β₁) (h₂ : NormalEqs B (pen R P l₂) w y β₂) :
    rss B w y β₁ ≤ rss B w y β₂ + (bil R β₂ β₂ - bil R β₁ β₁) := by
  have := fidelity_monotone B R P w y hR hP hRp hPp hw l₁ l₂ h0 hlt β₁ β₂ h₁ h₂
  linarith

/-- **the property sentence as stated** ("never decreases the weighted residual sum of squares") holds when nothing
else is penalised (`R = 0`; all lams scaled jointly, or a single penalty in the model) -/
theorem rss_monotone (hP : ∀ i j, P i j = P j i) (hPp : ∀ δ, 0 ≤ bil P δ δ) (hw : ∀ r, 0 ≤ w r)
    (l₁ l₂ : α) (h0 : 0 ≤ l₁) (hlt : l₁ < l₂) (β₁ β₂ : Fin m → α)
    (h₁ : NormalEqs B (pen (fun _ _ => 0) P l₁) w y β₁) (h₂ : NormalEqs B (pen (fun _ _ => 0) P l₂) w y β₂) :
    rss B w y β₁ ≤ rss B w y β₂ := by
  have hz : ∀ δ : Fin m → α, bil (fun _ _ => (0:α)) δ δ = 0 := by intro δ; simp [bil]
  have := rss_monotone_up_to_fixed_penalties B (fun _ _ => 0) P w y (fun _ _ => rfl) hP
    (fun δ => by rw [hz]) hPp hw l₁ l₂ h0 hlt β₁ β₂ h₁ h₂
  rw [hz, hz] at this; linarith

/-- **limit `λ → ∞`, quantitatively**: for every `β⁰` in the null space of the varied penalty (`β⁰ᵀPβ⁰ = 0`) and
`F = RSS + βᵀRβ`:  `βᵀPβ ≤ F(β⁰)/λ` (the penalised part is squeezed out) and `F(β_λ) ≤ F(β⁰)` (the fit is at least as
good as the best member of the null space) -/
theorem squeeze (hR : ∀ i j, R i j = R j i) (hP : ∀ i j, P i j = P j i)
    (hRp : ∀ δ, 0 ≤ bil R δ δ) (hPp : ∀ δ, 0 ≤ bil P δ δ) (hw : ∀ r, 0 ≤ w r) (lam : α) (hl : 0 < lam)
    (β : Fin m → α) (h : NormalEqs B (pen R P lam) w y β) (β0 : Fin m → α) (h0 : bil P β0 β0 = 0) :
    bil P β β ≤ (rss B w y β0 + bil R β0 β0) / lam
      ∧ rss B w y β + bil R β β ≤ rss B w y β0 + bil R β0 β0 := by
  have hm := solution_minimises B R P w y hR hP hRp hPp hw lam (le_of_lt hl) β h β0
  rw [h0, mul_zero, add_zero] at hm
  have hrss : 0 ≤ rss B w y β := sum_nonneg (fun r _ => mul_nonneg (hw r) (sq_nonneg _))
  have hJ := hPp β
  constructor
  · rw [le_div_iff₀ hl]
    have := hRp β
    nlinarith
  · have := mul_nonneg (le_of_lt hl) hJ
    linarith

/-- … and the fitted values approach those of `β⁰`: with `δ = β⁰ - β_λ`,
`Σ w (Bδ)² + δᵀRδ + λ δᵀPδ = F(β⁰) - F(β_λ) - λ β_λᵀPβ_λ ≤ F(β⁰) - F(β_λ)` (from `crit_excess`) -/
theorem limit_distance (hR : ∀ i j, R i j = R j i) (hP : ∀ i j, P i j = P j i)
    (lam : α) (β : Fin m → α) (h : NormalEqs B (pen R P lam) w y β) (β0 : Fin m → α) (h0 : bil P β0 β0 = 0) :
    ∑ r, w r * (lp B (fun j => β0 j - β j) r) ^ 2 + bil R (fun j => β0 j - β j) (fun j => β0 j - β j)
        + lam * bil P (fun j => β0 j - β j) (fun j => β0 j - β j)
      = (rss B w y β0 + bil R β0 β0) - (rss B w y β + bil R β β) - lam * bil P β β := by
  have e := crit_excess B (pen R P lam) (pen_symm R P hR hP lam) w y β (fun j => β0 j - β j) h
  have r1 : (fun j => β j + (β0 j - β j)) = β0 := by funext j; ring
  rw [r1, crit_split, crit_split, bil_pen, h0] at e
  linarith

/-- **`λ = 0`**: the normal equations are those of weighted least squares with the fixed part alone
(`R = S`: unpenalised WLS on the basis, plus the `√ε` ridge) -/
theorem lam_zero (β : Fin m → α) : NormalEqs B (pen R P 0) w y β ↔ NormalEqs B R w y β := by
  have : pen R P 0 = R := by funext i j; simp [pen]
  rw [this]

end path

/-! ### what the null space is (C04): straight lines for the default spline penalty, nothing for a ridge term -/
section nullspace
variable {α : Type} [Field α] [LinearOrder α] [IsStrictOrderedRing α]

/-- coefficients that are an affine function of their index — for the uniform B-spline basis: a straight line in
`x` — are in the null space of the default second-difference penalty, so `squeeze` / `limit_distance` apply with
any such `β⁰`: "a straight line for a default spline term" -/
theorem line_unpenalised (m : ℕ) (a b : α) :
    bil (fun i j : Fin m => derivPen (α := α) m 2 i j) (fun j => a + b * ((j : ℕ) : α)) (fun j => a + b * ((j : ℕ) : α))
      = 0 := by
  have h := C04.derivPen_poly (α := α) m 2 (fun j => if j = 0 then a else b)
  have e : (fun k : ℕ => ∑ j ∈ range 2, (if j = 0 then a else b) * (k : α) ^ j) = fun k : ℕ => a + b * (k : α) := by
    funext k; simp [sum_range_succ]
  rw [e] at h
  simp only [quadForm, sumTo_eq] at h
  simp only [bil]
  rw [← h, Finset.sum_range]
  apply sum_congr rfl; intro i _
  rw [Finset.sum_range]

/-- the ridge penalty (`l2`, the default of linear and factor terms) has the trivial null space: `βᵀ I β = 0` only
for `β = 0` — "zero effect for ridge-penalised linear and factor terms" -/
theorem ridge_null_space {m : ℕ} (β : Fin m → α) (h : bil (fun i j : Fin m => if i = j then (1:α) else 0) β β = 0) :
    β = 0 := by
  have e : bil (fun i j : Fin m => if i = j then (1:α) else 0) β β = ∑ i, β i * β i := by
    simp only [bil]; apply sum_congr rfl; intro i _
    simp [mul_ite, ite_mul]
  rw [e] at h
  funext i
  have hz := (sum_eq_zero_iff_of_nonneg (fun i _ => mul_self_nonneg (β i))).mp h i (mem_univ i)
  exact mul_self_eq_zero.mp hz

end nullspace

/-! ### the literal sentence needs the restriction: a counter-example with a second, fixed penalty

`B = [[1, 1], [1, 0]]`, `y = (1, 0)`, unit weights, varied penalty `P = diag(1, 0)`, fixed penalty `R = diag(0, 1)`:
at `λ = 0` the solution is `(1/3, 1/3)` with `RSS = 2/9`; at `λ = 1` it is `(1/5, 2/5)` with `RSS = 1/5 < 2/9`. -/
section counterexample

def cB : Fin 2 → Fin 2 → ℚ := ![![1, 1], ![1, 0]]
def cy : Fin 2 → ℚ := ![1, 0]
def cP : Fin 2 → Fin 2 → ℚ := ![![1, 0], ![0, 0]]
def cR : Fin 2 → Fin 2 → ℚ := ![![0, 0], ![0, 1]]

theorem rss_not_monotone_in_general :
    NormalEqs cB (pen cR cP 0) (fun _ => 1) cy ![1/3, 1/3]
      ∧ NormalEqs cB (pen cR cP 1) (fun _ => 1) cy ![1/5, 2/5]
      ∧ rss cB (fun _ => 1) cy ![1/5, 2/5] < rss cB (fun _ => 1) cy ![1/3, 1/3] := by
  refine ⟨?_, ?_, ?_⟩
  · intro i; fin_cases i <;> simp [lp, pen, cB, cy, cP, cR, Fin.sum_univ_two] <;> norm_num
  · intro i; fin_cases i <;> simp [lp, pen, cB, cy, cP, cR, Fin.sum_univ_two] <;> norm_num
  · simp [rss, lp, cB, cy, Fin.sum_univ_two]; norm_num

end counterexample

/-! ### effective degrees of freedom -/
section edof
variable {α : Type} [Field α] [LinearOrder α] [IsStrictOrderedRing α]

/-- `edof(λ) = Σ_j a_j / (1 + λ γ_j)` with `a_j, γ_j ≥ 0` is non-increasing in `λ ≥ 0`.
Partial: the representation is `edof_diag_formula_partial` below, which assumes a simultaneous diagonalisation of
`G + R` (positive definite) and `P` (PSD) — standard linear algebra (generalised symmetric eigenproblem), not a fact
about the code. -/
theorem edof_antitone_partial {k : ℕ} (a γ : Fin k → α) (ha : ∀ j, 0 ≤ a j) (hγ : ∀ j, 0 ≤ γ j)
    (l₁ l₂ : α) (h0 : 0 ≤ l₁) (hle : l₁ ≤ l₂) :
    ∑ j, a j / (1 + l₂ * γ j) ≤ ∑ j, a j / (1 + l₁ * γ j) := by
  apply sum_le_sum; intro j _
  have p1 : 0 < 1 + l₁ * γ j := by have := mul_nonneg h0 (hγ j); linarith
  have hmul : l₁ * γ j ≤ l₂ * γ j := mul_le_mul_of_nonneg_right hle (hγ j)
  exact div_le_div_of_nonneg_left (ha j) p1 (by linarith)

open Matrix in
/-- if `T` diagonalises simultaneously, `Tᵀ (G + R) T = 1` and `Tᵀ P T = diag γ`, then `T diag(1/(1+λγ)) Tᵀ` is the
inverse of the normal matrix `G + R + λP` and `edof(λ) = tr(N(λ)⁻¹ G) = Σ_j (TᵀGT)_jj / (1 + λ γ_j)` -/
theorem edof_diag_formula_partial {k : ℕ} (G R P T : Matrix (Fin k) (Fin k) α) (γ : Fin k → α)
    (h1 : Tᵀ * (G + R) * T = 1) (h2 : Tᵀ * P * T = diagonal γ) (lam : α) (hpos : ∀ j, 1 + lam * γ j ≠ 0) :
    let Ninv := T * diagonal (fun j => (1 + lam * γ j)⁻¹) * Tᵀ
    Ninv * (G + R + lam • P) = 1
      ∧ trace (Ninv * G) = ∑ j, (Tᵀ * G * T) j j / (1 + lam * γ j) := by
  intro Ninv
  -- T is invertible with inverse Tᵀ (G + R)
  have hTinv : T * (Tᵀ * (G + R)) = 1 := by
    have : (Tᵀ * (G + R)) * T = 1 := h1
    exact mul_eq_one_comm.mp this
  have hD : diagonal (fun j => (1 + lam * γ j)⁻¹) * (1 + lam • diagonal γ) = (1 : Matrix (Fin k) (Fin k) α) := by
    rw [← diagonal_one, ← diagonal_smul, diagonal_add, diagonal_mul_diagonal]
    ext i j
    by_cases hij : i = j
    · subst hij
      simp only [diagonal_apply_eq, Pi.smul_apply, smul_eq_mul]
      exact inv_mul_cancel₀ (hpos i)
    · simp [diagonal_apply_ne _ hij]
  have hN : Tᵀ * (G + R + lam • P) = (1 + lam • diagonal γ) * (Tᵀ * (G + R)) := by
    have e : Tᵀ * (G + R + lam • P) * T = 1 + lam • diagonal γ := by
      rw [Matrix.mul_add, Matrix.add_mul, h1, Matrix.mul_smul, Matrix.smul_mul, h2]
    calc Tᵀ * (G + R + lam • P) = Tᵀ * (G + R + lam • P) * (T * (Tᵀ * (G + R))) := by rw [hTinv, Matrix.mul_one]
      _ = (Tᵀ * (G + R + lam • P) * T) * (Tᵀ * (G + R)) := by simp only [Matrix.mul_assoc]
      _ = _ := by rw [e]
  constructor
  · calc Ninv * (G + R + lam • P)
        = T * diagonal (fun j => (1 + lam * γ j)⁻¹) * (Tᵀ * (G + R + lam • P)) := by
          simp only [Ninv, Matrix.mul_assoc]
      _ = T * (diagonal (fun j => (1 + lam * γ j)⁻¹) * (1 + lam • diagonal γ)) * (Tᵀ * (G + R)) := by
          rw [hN]; simp only [Matrix.mul_assoc]
      _ = 1 := by rw [hD, Matrix.mul_one, hTinv]
  · have : trace (Ninv * G) = trace (diagonal (fun j => (1 + lam * γ j)⁻¹) * (Tᵀ * G * T)) := by
      simp only [Ninv]
      rw [Matrix.mul_assoc, Matrix.mul_assoc, trace_mul_comm T, ← Matrix.mul_assoc, ← Matrix.mul_assoc,
        Matrix.mul_assoc (diagonal _), Matrix.mul_assoc (diagonal _)]
    rw [this, trace]
    apply sum_congr rfl; intro j _
    rw [diag_apply, diagonal_mul, div_eq_inv_mul]

end edof

/-! ### non-vacuity -/

/-- `penalty_antitone` / `fidelity_monotone` / `squeeze` have instances: the counter-example data above solve the
normal equations at `λ = 0` and `λ = 1` with symmetric PSD `R`, `P` -/
example : (∀ i j, cP i j = cP j i) ∧ (∀ δ : Fin 2 → ℚ, 0 ≤ bil cP δ δ) ∧ (∀ δ : Fin 2 → ℚ, 0 ≤ bil cR δ δ) := by
  refine ⟨?_, ?_, ?_⟩
  · intro i j; fin_cases i <;> fin_cases j <;> simp [cP]
  · intro δ; simp [bil, cP, Fin.sum_univ_two]; exact mul_self_nonneg _
  · intro δ; simp [bil, cR, Fin.sum_univ_two]; exact mul_self_nonneg _

/-! ### effective degrees of freedom, full strength (no diagonalisation hypothesis) -/
section edof_full
open Matrix
variable {α : Type} [Field α] [LinearOrder α] [IsStrictOrderedRing α] {k n : ℕ}

/-- **increasing any smoothing parameter never increases the effective degrees of freedom**:
`edof(λ) = tr((G + R + λP)⁻¹ G)` with `G = AᵀA` the weighted Gram matrix (`A = W B`), `R` everything held fixed (the
`√ε` ridge and the other penalties) and `P` the penalty whose `lam` grows (`R`, `P` symmetric PSD: C04).  `N₁`, `N₂` are
the inverses of the two normal matrices (they exist because `R ⪰ √ε I`; here a hypothesis, as in C01 `solve_correct`). -/
theorem edof_antitone (A : Matrix (Fin n) (Fin k) α) (R P N₁ N₂ : Matrix (Fin k) (Fin k) α)
    (hRs : Rᵀ = R) (hPs : Pᵀ = P) (hR : ∀ x : Fin k → α, 0 ≤ x ⬝ᵥ R *ᵥ x) (hP : ∀ x : Fin k → α, 0 ≤ x ⬝ᵥ P *ᵥ x)
    (l₁ l₂ : α) (h0 : 0 ≤ l₁) (hle : l₁ ≤ l₂)
    (h1 : (Aᵀ * A + R + l₁ • P) * N₁ = 1) (h2 : (Aᵀ * A + R + l₂ • P) * N₂ = 1) :
    trace (N₂ * (Aᵀ * A)) ≤ trace (N₁ * (Aᵀ * A)) :=
  Edof.edof_antitone A R P N₁ N₂ hRs hPs hR hP l₁ l₂ h0 hle h1 h2

/-- `0 ≤ edof`: the trace of `(G + R + λP)⁻¹ G` is non-negative -/
theorem edof_nonneg (A : Matrix (Fin n) (Fin k) α) (R P N : Matrix (Fin k) (Fin k) α)
    (hRs : Rᵀ = R) (hPs : Pᵀ = P) (hR : ∀ x : Fin k → α, 0 ≤ x ⬝ᵥ R *ᵥ x) (hP : ∀ x : Fin k → α, 0 ≤ x ⬝ᵥ P *ᵥ x)
    (l : α) (h0 : 0 ≤ l) (h : (Aᵀ * A + R + l • P) * N = 1) :
    0 ≤ trace (N * (Aᵀ * A)) := by
  rw [Edof.trace_gram]
  apply sum_nonneg; intro r _
  apply Edof.inv_qnonneg (Aᵀ * A + R + l • P) N _ h _ (A r)
  · rw [transpose_add, transpose_add, transpose_smul, Edof.gram_symm, hRs, hPs]
  · intro x
    rw [add_mulVec, add_mulVec, dotProduct_add, dotProduct_add, smul_mulVec, dotProduct_smul, smul_eq_mul]
    have := Edof.gram_qnonneg A x; have := hR x; have := mul_nonneg h0 (hP x)
    linarith

/-- non-vacuity: one column, one row `A = [1]`, `R = [1]`, `P = [1]`: `edof(λ) = 1/(2 + λ)`; at `λ = 0, 1` the inverses
are `[1/2]`, `[1/3]` and the theorem gives `1/3 ≤ 1/2` -/
example : trace ((!![(1/3 : ℚ)]) * ((!![(1:ℚ)])ᵀ * !![(1:ℚ)])) ≤ trace ((!![(1/2 : ℚ)]) * ((!![(1:ℚ)])ᵀ * !![(1:ℚ)])) :=
  edof_antitone (!![(1:ℚ)]) (!![(1:ℚ)]) (!![(1:ℚ)]) (!![(1/2:ℚ)]) (!![(1/3:ℚ)])
    (by ext i j; fin_cases i; fin_cases j; rfl) (by ext i j; fin_cases i; fin_cases j; rfl)
    (fun x => by simp [dotProduct, mulVec]; exact mul_self_nonneg _)
    (fun x => by simp [dotProduct, mulVec]; exact mul_self_nonneg _)
    0 1 (le_refl _) (by norm_num)
    (by ext i j; fin_cases i; fin_cases j; simp [Matrix.mul_apply]; norm_num)
    (by ext i j; fin_cases i; fin_cases j; simp [Matrix.mul_apply]; norm_num)

end edof_full

/-- a simultaneous diagonalisation exists in the simplest case (`G + R = 1`, `P = diag γ`, `T = 1`) -/
example : let T : Matrix (Fin 2) (Fin 2) ℚ := 1
    T.transpose * ((1 : Matrix (Fin 2) (Fin 2) ℚ) + 0) * T = 1 := by
  simp

end PyGam.C13
