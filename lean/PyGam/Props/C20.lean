import PyGam.Proofs.Loop
import PyGam.Gen.Tables
import PyGam.Gen.Formulas
import PyGam.Model.Stats
/-!
# C20 — the optimiser loop terminates, stops at `tol` and logs one record per iteration

Property theorems only.  They are about `PyGam.Loop.fit` / `PyGam.Loop.pirls`
(`Model/Loop.lean`, the transcription of `GAM.fit` / `GAM._pirls` / `_on_loop_start` /
`_on_loop_end` / the `__init__`s), for **every** coefficient type `C`, update `step : C → C`,
recorded change `diff : C → C → D`, order `<` on `D` (no axioms on it: the statements hold for
IEEE doubles with `nan`), tolerance, callback list, `max_iter` and entering coefficients `init`.

Vocabulary: `traj step init k` = coefficients entering iteration `k` (0-based),
`dseq step diff init k` = the `diff` iteration `k` records, `logsOf n ev` = `logs_[n]`,
`hookCount n cbs` = number of hooks (`on_loop_start` / `on_loop_end`) of the callbacks whose
`str()` is `n`.
-/
namespace PyGam.C20
open PyGam.Loop

variable {C D V : Type} [LT D] [DecidableLT D]
variable (step : C → C) (diff : C → C → D) (tol : D) (cbs : List (Callback C D V)) (init : C)

/-! ## termination and totality -/

/-- *"fit performs … iterations … and populates the statistics in either case"*: with a valid
`max_iter` and hooks that can bind their arguments, `fit` always returns a result (the model is a
total function, so the loop terminates), for every `tol` and every behaviour of `step`/`diff`. -/
theorem fit_ok_of_valid (hasC : Bool) (maxIter : Int) (old : List (String × V))
    (h1 : 1 ≤ maxIter) (hb : allBound hasC cbs = true) :
    ∃ r, fit step diff tol cbs hasC maxIter init old = .ok r
      ∧ pirls step diff tol cbs maxIter.toNat init old = some r := by
  have hn : 1 ≤ maxIter.toNat := by omega
  unfold fit
  rw [if_neg (by omega), pirls_eq step diff tol cbs init _ hn]
  simp [hb]

/-- `max_iter < 1` is rejected (`ValueError` from `_validate_params`) before any iteration -/
theorem fit_valueError_of_maxIter_lt_one (hasC : Bool) (maxIter : Int) (old : List (String × V))
    (h : maxIter < 1) : fit step diff tol cbs hasC maxIter init old = .valueError := by
  simp [fit, h]

/-- a hook naming a variable that is not a loop local makes `fit` raise (`AssertionError`) -/
theorem fit_assertionError_of_unbound (hasC : Bool) (maxIter : Int) (old : List (String × V))
    (h1 : 1 ≤ maxIter) (hb : allBound hasC cbs = false) :
    fit step diff tol cbs hasC maxIter init old = .assertionError := by
  unfold fit
  rw [if_neg (by omega)]
  simp [hb]

/-! ## iteration count and the stopping rule -/

/-- *"at least one and at most max_iter iterations"* -/
theorem iters_bounds (maxIter : Nat) (old : List (String × V)) (h : 1 ≤ maxIter)
    (r : Result C D V) (hr : pirls step diff tol cbs maxIter init old = some r) :
    1 ≤ r.iters ∧ r.iters ≤ maxIter := by
  rw [pirls_eq step diff tol cbs init _ h] at hr
  cases hr
  exact ⟨stopCount_pos _ _ _ _ (by omega), stopCount_le _ _ _ _⟩

/-- the recorded diffs are exactly those of the iterations performed, in order -/
theorem diffs_recorded (maxIter : Nat) (old : List (String × V)) (h : 1 ≤ maxIter)
    (r : Result C D V) (hr : pirls step diff tol cbs maxIter init old = some r) :
    r.diffs = (List.range r.iters).map (dseq step diff init) := by
  rw [pirls_eq step diff tol cbs init _ h] at hr
  cases hr; rfl

/-- *"stops after the first iteration whose recorded relative coefficient change is below tol"*:
no iteration before the last one recorded a diff below `tol`, and the loop only stops short of
`max_iter` on a diff below `tol`. -/
theorem stops_at_first_below_tol (maxIter : Nat) (old : List (String × V)) (h : 1 ≤ maxIter)
    (r : Result C D V) (hr : pirls step diff tol cbs maxIter init old = some r) :
    (∀ k, k + 1 < r.iters → ¬ dseq step diff init k < tol)
    ∧ (r.iters < maxIter → dseq step diff init (r.iters - 1) < tol) := by
  rw [pirls_eq step diff tol cbs init _ h] at hr
  cases hr
  refine ⟨fun k hk => ?_, fun hlt => ?_⟩
  · simpa using stopCount_not_below tol (dseq step diff init) maxIter 0 k hk
  · simpa using stopCount_lt_fuel tol (dseq step diff init) maxIter 0 hlt

/-- the same, as a formula for the count: if iteration `k < max_iter` is the first with a diff
below `tol`, exactly `k + 1` iterations are performed -/
theorem iters_eq_first_below_tol (maxIter : Nat) (old : List (String × V)) (k : Nat)
    (hk : k < maxIter) (hb : dseq step diff init k < tol)
    (hn : ∀ i, i < k → ¬ dseq step diff init i < tol)
    (r : Result C D V) (hr : pirls step diff tol cbs maxIter init old = some r) :
    r.iters = k + 1 := by
  rw [pirls_eq step diff tol cbs init _ (by omega)] at hr
  cases hr
  exact stopCount_eq_of_first tol (dseq step diff init) maxIter 0 k hk (by simpa using hb)
    (fun i hi => by simpa using hn i hi)

/-- … and if no iteration within `max_iter` gets below `tol`, exactly `max_iter` are performed -/
theorem iters_eq_maxIter_of_never_below (maxIter : Nat) (old : List (String × V)) (h : 1 ≤ maxIter)
    (hn : ∀ i, i < maxIter → ¬ dseq step diff init i < tol)
    (r : Result C D V) (hr : pirls step diff tol cbs maxIter init old = some r) :
    r.iters = maxIter := by
  rw [pirls_eq step diff tol cbs init _ h] at hr
  cases hr
  exact stopCount_eq_fuel tol (dseq step diff init) maxIter 0 (fun i hi => by simpa using hn i hi)

/-- *"reports non-convergence otherwise"*: `did not converge` is printed iff the last recorded
diff is not below `tol`, iff no diff within `max_iter` iterations is below `tol`; and then all
`max_iter` iterations were used. -/
theorem not_converged_iff (maxIter : Nat) (old : List (String × V)) (h : 1 ≤ maxIter)
    (r : Result C D V) (hr : pirls step diff tol cbs maxIter init old = some r) :
    (r.printed = true ↔ ¬ dseq step diff init (r.iters - 1) < tol)
    ∧ (r.printed = true ↔ ∀ k, k < maxIter → ¬ dseq step diff init k < tol)
    ∧ (r.printed = true → r.iters = maxIter) := by
  have hr0 := hr
  rw [pirls_eq step diff tol cbs init _ h] at hr
  cases hr
  have hiff := stopCount_last_below_iff tol (dseq step diff init) maxIter 0 (by omega)
  simp only [Nat.zero_add] at hiff
  have h1 : (!decide (dseq step diff init (stopCount tol (dseq step diff init) maxIter 0 - 1) < tol))
      = true ↔ ¬ dseq step diff init (stopCount tol (dseq step diff init) maxIter 0 - 1) < tol := by
    simp
  refine ⟨h1, ?_, ?_⟩
  · rw [h1, hiff]
    constructor
    · intro hne k hk hlt; exact hne ⟨k, hk, hlt⟩
    · rintro hall ⟨k, hk, hlt⟩; exact hall k hk hlt
  · intro hp
    have hne := h1.mp hp
    rw [hiff] at hne
    exact stopCount_eq_fuel tol (dseq step diff init) maxIter 0
      (fun i hi hlt => hne ⟨i, hi, by simpa using hlt⟩)

/-- *"populates the statistics in either case"* -/
theorem statistics_always (maxIter : Nat) (old : List (String × V))
    (r : Result C D V) (hr : pirls step diff tol cbs maxIter init old = some r) :
    r.stats = true := by
  dsimp only [pirls] at hr
  split at hr
  · cases hr
  · cases hr; rfl

/-! ## coefficients -/

/-- *"the final coefficients are those produced by the last iteration"*: `coef_` is `step`
applied `iters` times to the entering coefficients, i.e. the `coef_new` of the last iteration. -/
theorem final_coef_is_last_step (maxIter : Nat) (old : List (String × V)) (h : 1 ≤ maxIter)
    (r : Result C D V) (hr : pirls step diff tol cbs maxIter init old = some r) :
    r.coef = traj step init r.iters
    ∧ r.coef = step (traj step init (r.iters - 1)) := by
  have hb := iters_bounds step diff tol cbs init maxIter old h r hr
  rw [pirls_eq step diff tol cbs init _ h] at hr
  cases hr
  simp only at hb
  refine ⟨rfl, ?_⟩
  show traj step init (stopCount tol (dseq step diff init) maxIter 0)
    = step (traj step init (stopCount tol (dseq step diff init) maxIter 0 - 1))
  obtain ⟨j, hj⟩ : ∃ j, stopCount tol (dseq step diff init) maxIter 0 = j + 1 :=
    ⟨stopCount tol (dseq step diff init) maxIter 0 - 1, by omega⟩
  rw [hj]; rfl

/-! ## logs -/

/-- `logs_` persists across refits: a fit appends to the existing entries, and what it appends
is what a fresh model would have logged from the same entering coefficients. -/
theorem logs_appended (maxIter : Nat) (old : List (String × V)) (h : 1 ≤ maxIter)
    (r : Result C D V) (hr : pirls step diff tol cbs maxIter init old = some r) :
    r.events = old ++ (List.range r.iters).flatMap (iterEvents step diff cbs init)
    ∧ ∃ r0, pirls step diff tol cbs maxIter init [] = some r0
        ∧ r.events = old ++ r0.events ∧ r0.iters = r.iters ∧ r0.coef = r.coef := by
  rw [pirls_eq step diff tol cbs init _ h] at hr
  cases hr
  refine ⟨rfl, _, pirls_eq step diff tol cbs init _ h [], ?_, rfl, rfl⟩
  simp

/-- the entries under one key: iteration by iteration, the return values of the hooks of the
callbacks registered under that key (start hooks first, then end hooks, each in list order) -/
theorem logs_by_key (n : String) (maxIter : Nat) (old : List (String × V)) (h : 1 ≤ maxIter)
    (r : Result C D V) (hr : pirls step diff tol cbs maxIter init old = some r) :
    logsOf n r.events = logsOf n old ++ (List.range r.iters).flatMap (fun k =>
      (iterEvents step diff (cbs.filter (fun cb => cb.name == n)) init k).map (fun e => e.2)) := by
  rw [pirls_eq step diff tol cbs init _ h] at hr
  cases hr
  simp only [logsOf_append, logsOf_flatMap, logsOf_iterEvents]

/-- *"each enabled callback records exactly one entry per iteration"* (per hook): under every key
the fit adds `iters × (number of hooks registered under the key)` entries. -/
theorem one_entry_per_callback_per_iter (n : String) (maxIter : Nat) (old : List (String × V))
    (h : 1 ≤ maxIter) (r : Result C D V)
    (hr : pirls step diff tol cbs maxIter init old = some r) :
    (logsOf n r.events).length = (logsOf n old).length + r.iters * hookCount n cbs := by
  rw [pirls_eq step diff tol cbs init _ h] at hr
  cases hr
  simp only [logsOf_append, logsOf_flatMap, List.length_append]
  rw [length_flatMap_const _ _ (hookCount n cbs)
    (fun k => length_logsOf_iterEvents step diff cbs init n k)]
  simp

/-- for a fresh model and a list of *distinct built-in* callbacks: each of them has logged exactly
`iters` entries, every other key is empty -/
theorem builtin_log_lengths (o : Obs C D V) (bs : List Builtin) (hnd : bs.Nodup) (b : Builtin)
    (maxIter : Nat) (h : 1 ≤ maxIter) (r : Result C D V)
    (hr : pirls step diff tol (bs.map (builtin o)) maxIter init [] = some r) :
    (logsOf b.name r.events).length = if b ∈ bs then r.iters else 0 := by
  rw [one_entry_per_callback_per_iter step diff tol _ init b.name maxIter [] h r hr,
    hookCount_builtin o bs hnd b]
  simp [logsOf]
  split <;> simp

/-- *"the logged deviance is the deviance of the coefficients entering that iteration"*: on a
fresh model whose only callback under the key `deviance` is the built-in one, entry `k` of
`logs_['deviance']` is the deviance at `traj k` — the coefficients *before* update `k`; in
particular the first entry is the deviance of the initial estimate and no entry is the deviance of
the returned `coef_`. -/
theorem deviance_logged_is_entering_coef (o : Obs C D V)
    (hsel : cbs.filter (fun cb => cb.name == "deviance") = [builtin o .deviance])
    (maxIter : Nat) (h : 1 ≤ maxIter) (r : Result C D V)
    (hr : pirls step diff tol cbs maxIter init [] = some r) :
    logsOf "deviance" r.events = (List.range r.iters).map (fun k => o.dev (traj step init k)) := by
  rw [logs_by_key step diff tol cbs init "deviance" maxIter [] h r hr, hsel]
  simp [logsOf, iterEvents, startEvents, endEvents, builtin, flatMap_single]

/-- the same for `coef` (the coefficients entering each iteration) and `accuracy` -/
theorem coef_logged_is_entering_coef (o : Obs C D V)
    (hsel : cbs.filter (fun cb => cb.name == "coef") = [builtin o .coef])
    (maxIter : Nat) (h : 1 ≤ maxIter) (r : Result C D V)
    (hr : pirls step diff tol cbs maxIter init [] = some r) :
    logsOf "coef" r.events = (List.range r.iters).map (fun k => o.coefV (traj step init k)) := by
  rw [logs_by_key step diff tol cbs init "coef" maxIter [] h r hr, hsel]
  simp [logsOf, iterEvents, startEvents, endEvents, builtin, flatMap_single]

theorem accuracy_logged_is_entering_coef (o : Obs C D V)
    (hsel : cbs.filter (fun cb => cb.name == "accuracy") = [builtin o .accuracy])
    (maxIter : Nat) (h : 1 ≤ maxIter) (r : Result C D V)
    (hr : pirls step diff tol cbs maxIter init [] = some r) :
    logsOf "accuracy" r.events = (List.range r.iters).map (fun k => o.acc (traj step init k)) := by
  rw [logs_by_key step diff tol cbs init "accuracy" maxIter [] h r hr, hsel]
  simp [logsOf, iterEvents, startEvents, endEvents, builtin, flatMap_single]

/-- `logs_['diffs']` is the list of recorded diffs — the very numbers the stopping rule tested -/
theorem diffs_logged_are_recorded (o : Obs C D V)
    (hsel : cbs.filter (fun cb => cb.name == "diffs") = [builtin o .diffs])
    (maxIter : Nat) (h : 1 ≤ maxIter) (r : Result C D V)
    (hr : pirls step diff tol cbs maxIter init [] = some r) :
    logsOf "diffs" r.events = r.diffs.map o.diffV := by
  rw [logs_by_key step diff tol cbs init "diffs" maxIter [] h r hr, hsel,
    diffs_recorded step diff tol cbs init maxIter [] h r hr]
  simp [logsOf, iterEvents, startEvents, endEvents, builtin, flatMap_single,
    Function.comp_def]

/-- a user callback alone under its key, with both hooks: per iteration its `on_loop_start`
value (entering coefficients) followed by its `on_loop_end` value (entering, produced, diff) -/
theorem user_callback_log (cb : Callback C D V)
    (hs : Hook (Nat → C → V)) (he : Hook (Nat → C → C → D → V))
    (hcs : cb.onStart = some hs) (hce : cb.onEnd = some he)
    (hsel : cbs.filter (fun x => x.name == cb.name) = [cb])
    (maxIter : Nat) (h : 1 ≤ maxIter) (r : Result C D V)
    (hr : pirls step diff tol cbs maxIter init [] = some r) :
    logsOf cb.name r.events = (List.range r.iters).flatMap (fun k =>
      [hs.fn k (traj step init k),
       he.fn k (traj step init k) (traj step init (k + 1)) (dseq step diff init k)]) := by
  rw [logs_by_key step diff tol cbs init cb.name maxIter [] h r hr, hsel]
  simp [logsOf, iterEvents, startEvents, endEvents, hcs, hce]

/-! ## constructors -/

/-- *"all model classes … user-defined callbacks"*: every model class hands the user's
`callbacks` argument to the base class unchanged -/
theorem subclass_callbacks_reach_base {ρ : Type} (dflt : Builtin → ρ) (cls : ModelClass)
    (user : List ρ) : effectiveCallbacks dflt cls (some user) = user := by
  cases cls <;> rfl

/-- every optimiser argument a class accepts is forwarded to the base class -/
theorem optimiser_args_forwarded (cls : ModelClass) (a : CtorArg)
    (ha : a = .max_iter ∨ a = .tol ∨ a = .callbacks ∨ a = .terms ∨ a = .fit_intercept ∨ a = .verbose) :
    accepts cls a = true ∧ forwards cls a = true := by
  rcases ha with h | h | h | h | h | h <;> subst h <;> cases cls <;> exact ⟨rfl, rfl⟩

/-- the defaults: `deviance` and `diffs` everywhere, plus `accuracy` for `LogisticGAM` -/
theorem default_callbacks (cls : ModelClass) :
    effectiveCallbacks (ρ := Builtin) id cls none
      = if cls = .LogisticGAM then [.deviance, .diffs, .accuracy] else [.deviance, .diffs] := by
  cases cls <;> rfl

omit [LT D] [DecidableLT D] in
/-- the built-in hooks only name variables that exist when they are called -/
theorem builtin_hooks_bind (o : Obs C D V) (hasC : Bool) (bs : List Builtin) :
    allBound hasC (bs.map (builtin o)) = true := by
  simp only [allBound, List.all_map, List.all_eq_true]
  intro b _
  cases b <;> cases hasC <;> rfl

omit [LT D] [DecidableLT D] in
/-- a hook's local variables play no role in the binding (only its arguments are looked up) … -/
theorem allBound_withLocals (hasC : Bool) (ls le : List String) :
    allBound hasC (cbs.map (Callback.withLocals ls le)) = allBound hasC cbs := by
  simp only [allBound, List.all_map]
  congr 1
  funext cb
  cases hs : cb.onStart <;> cases he : cb.onEnd <;> simp [Callback.withLocals, hs, he, Hook.bound]

/-- … nor anywhere else: `fit` behaves identically whatever local variables the hooks use -/
theorem fit_withLocals (hasC : Bool) (ls le : List String) (maxIter : Int) (old : List (String × V)) :
    fit step diff tol (cbs.map (Callback.withLocals ls le)) hasC maxIter init old
      = fit step diff tol cbs hasC maxIter init old := by
  have hs : ∀ k c, startEvents (cbs.map (Callback.withLocals ls le)) k c = startEvents cbs k c := by
    intro k c
    simp only [startEvents, List.filterMap_map]
    congr 1; funext cb
    cases h : cb.onStart <;> simp [Callback.withLocals, h]
  have he : ∀ k c c' d, endEvents (cbs.map (Callback.withLocals ls le)) k c c' d
      = endEvents cbs k c c' d := by
    intro k c c' d
    simp only [endEvents, List.filterMap_map]
    congr 1; funext cb
    cases h : cb.onEnd <;> simp [Callback.withLocals, h]
  have hi : iterate step diff (cbs.map (Callback.withLocals ls le)) = iterate step diff cbs := by
    funext s; simp only [iterate, hs, he]
  have hl : ∀ fuel (s : St C D V),
      loop step diff tol (cbs.map (Callback.withLocals ls le)) fuel s = loop step diff tol cbs fuel s := by
    intro fuel
    induction fuel with
    | zero => intro s; rfl
    | succ fuel ih =>
        intro s
        show (if below tol (iterate step diff (cbs.map (Callback.withLocals ls le)) s).last then _ else _)
          = (if below tol (iterate step diff cbs s).last then _ else _)
        rw [hi, ih]
  simp only [fit, pirls, hl, allBound_withLocals]

/-! ## non-vacuity: a concrete run (coefficients = iteration index, diffs 8, 4, 2, 1, …) -/

private def exDiff : Nat → Nat → Nat := fun k _ => 8 / 2 ^ k
/-- log entries are tagged numbers: (0, c) deviance at c, (1, c) accuracy, (2, c) coef, (3, d) diff -/
private def exObs : Obs Nat Nat (Nat × Nat) :=
  ⟨fun c => (0, c), fun c => (1, c), fun c => (2, c), fun d => (3, d)⟩

/-- tol = 3, max_iter = 10: diffs 8, 4, 2 → three iterations, converged, statistics set,
deviance logged for the coefficients entering iterations 0, 1, 2, `coef_` = `traj 3` -/
example :
    (pirls (· + 1) exDiff 3 ([.deviance, .diffs].map (builtin exObs)) 10 0 []).map
      (fun r => (r.iters, r.coef, r.printed, r.stats, r.diffs, logsOf "deviance" r.events,
                 logsOf "diffs" r.events))
    = some (3, 3, false, true, [8, 4, 2], [(0, 0), (0, 1), (0, 2)], [(3, 8), (3, 4), (3, 2)]) := by
  rfl

/-- tol = 3, max_iter = 2: diffs 8, 4 → both iterations used, `did not converge`, statistics set -/
example :
    (pirls (· + 1) exDiff 3 ([.deviance, .diffs].map (builtin exObs)) 2 0 []).map
      (fun r => (r.iters, r.coef, r.printed, r.stats, r.diffs))
    = some (2, 2, true, true, [8, 4]) := by
  rfl

/-- the selection hypothesis of `deviance_logged_is_entering_coef` holds for the default list -/
example : (([.deviance, .diffs].map (builtin exObs)).filter (fun cb => cb.name == "deviance")).length = 1 := by
  rfl

/-! ### tie to the source by translation -/

/-- the default `callbacks=` of every class constructor in the source is the model's `defaultCallbacks` -/
theorem gen_default_callbacks :
    ∀ cls ∈ ModelClass.all,
      Gen.classCallbacks.lookup cls.name = some (some ((defaultCallbacks cls).map Builtin.name)) := by
  decide +kernel

/-- the loop locals a hook may name are the ones of `_pirls` in the source -/
theorem gen_hook_variables :
    ∀ s e, Gen.pirlsStartVars = some s → Gen.pirlsEndOnlyVars = some e →
      ((startVars true).all (· ∈ s) && s.all (· ∈ startVars true)
        && endOnlyVars.all (· ∈ e) && e.all (· ∈ endOnlyVars)) = true := by
  intro s e hs he
  have h1 : Gen.pirlsStartVars = some ["C", "Dinv", "E", "P", "S", "W", "X", "Y", "_", "gam", "lp", "m", "mask",
    "min_n_m", "modelmat", "mu", "n", "pseudo_data", "weights", "y"] := rfl
  have h2 : Gen.pirlsEndOnlyVars = some ["B", "Q", "R", "U", "U1", "Vt", "WB", "coef_new", "d", "diff"] := rfl
  rw [h1] at hs; rw [h2] at he; cases hs; cases he
  decide

/-- the callback registry of the source is the one modelled by `Builtin` -/
theorem gen_callback_names : Gen.callbackNames = some ["accuracy", "coef", "deviance", "diffs"] := by decide

/-- **what the built-in Deviance callback logs** (translated from `callbacks.Deviance.on_loop_start` on every run): the
*unscaled*, unweighted total deviance of the family at the means handed to the hook — `Obs.dev` of the loop model.  In
particular it does not depend on the distribution's scale: a user-supplied `scale` changes nothing in `logs_['deviance']`. -/
theorem gen_formula_callback_deviance {α : Type} [Zero α] [One α] [Add α] [Sub α] [Mul α] [Div α] [Neg α] [LE α] [LT α]
    [DecidableLE α] [DecidableLT α] [HasLogSqrt α] (fam : Family) (levels scale : α) (n : Nat) (y mu : Nat → α) :
    Gen.callback_deviance (fun y mu w scaled => deviance fam levels scale scaled w y mu) n y mu
      = Stats.totalDeviance fam levels scale false n (fun _ => 1) y mu := rfl

theorem logged_deviance_scale_free {α : Type} [Zero α] [One α] [Add α] [Sub α] [Mul α] [Div α] [Neg α] [LE α] [LT α]
    [DecidableLE α] [DecidableLT α] [HasLogSqrt α] (fam : Family) (levels s₁ s₂ : α) (n : Nat) (y mu : Nat → α) :
    Gen.callback_deviance (fun y mu w scaled => deviance fam levels s₁ scaled w y mu) n y mu
      = Gen.callback_deviance (fun y mu w scaled => deviance fam levels s₂ scaled w y mu) n y mu := rfl

end PyGam.C20
