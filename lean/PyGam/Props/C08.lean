import PyGam.Proofs.Stats
import PyGam.Proofs.Dists
import Mathlib.Tactic.FieldSimp
import Mathlib.Tactic.Positivity
import Mathlib.Tactic.FinCases
import Mathlib.Tactic.NormNum
import Mathlib.Algebra.BigOperators.Field
import PyGam.Gen.Tables
import PyGam.Gen.Formulas
/-!
# C08 — reported model statistics equal their documented definitions at the fit

The code computes `edof = tr(U₁U₁ᵀ)` and `cov = scale · B Bᵀ` from the QR/SVD factors of the last PIRLS iteration
(`B = V D⁻¹ U₁ᵀ Qᵀ`).  Under the LAPACK / Cholesky contracts `Solve.Factor` (hypotheses; validated numerically on
the loop locals of every checked fit) these are what the property says they are:

1. `edof_eq_trace_influence`, `edof_eq_trace_of_solution`, `edof_model_eq` : `tr(U₁U₁ᵀ)` is the trace of the
   influence matrix `WB (WBᵀWB + A)⁻¹ WBᵀ` of the final weighted penalised regression (inverse-free: `tr(WB·X)` for
   *the* solution `X` of `(WBᵀWB + A) X = WBᵀ`), and equals the executable `Stats.edofOf` the driver evaluates.
   `edof_nonneg`, `edof_pos`, `edof_le_m`, `edof_le_k`, `edof_le_min`, `edof_per_coef_mem` : `0 < edof ≤ min(n, m)`.
2. `cov_eq_sandwich`, `cov_eq_sandwich_inv`, `cov_model_eq`, `cov_diag_nonneg`, `se_sq` :
   `B Bᵀ = N⁻¹ (WBᵀWB) N⁻¹` with `N = WBᵀWB + A` (so `cov = scale · (X'WX+S)⁻¹ X'WX (X'WX+S)⁻¹`), `se² = diag cov`.
3. `scale_known`, `scale_pearson` : the scale is the user's value, or Pearson `/ (n - edof)`.
4. the closed-form statistics as functions of `(y, μ, w, edof, scale, ℓ, ℓ₀)`: `aic_def`, `aic_estimated_sub_known`,
   `aicc_sub_aic`, `gamma_default`, `gcv_def`, `ubre_def`, `ubre_add_scale`, `gcvUbre_known`, `gcvUbre_unknown`,
   `explained_le_one`, `explained_eq_one_iff`, `explained_scale_free`, `mcFadden_def`, `mcFaddenAdj_eq`,
   `devResid_sq`, `devResid_sign_pos`, `devResid_sign_neg`, `devResid_eq_zero`, `accuracy_mem_unit`,
   `centre_sum_zero`, `pValue_known`, `pValue_estimated`, `pValue_mem_unit`; and for the bundle `Stats.scalars` the driver
   evaluates: `scalars_scale`, `scalars_aic`, `scalars_aicc_sub_aic`, `scalars_known`, `scalars_estimated`, `scalars_r2`.

Not proved (contracts / trusted parameters): LAPACK `qr`, `svd`, Cholesky; SciPy `pinv`, `chi2.cdf`, `f.cdf`,
`logpdf/logpmf` normalisers; IEEE rounding (the float code is tied to these exact-field statements by the
correspondence streams of `harness/props/c08.py` to 1e-8 / 1e-6).
-/
set_option linter.unusedSectionVars false
open Finset Matrix
namespace PyGam.C08
open PyGam PyGam.Stats

/-! ### 1. effective degrees of freedom -/
section edof
variable {α : Type} [Field α] {n k m : ℕ}

/-- `statistics_['edof'] = tr(U₁U₁ᵀ)` is the trace of the influence matrix `WB · B`, where `B` (the code's matrix)
satisfies `(WBᵀWB + A) B = WBᵀ`, i.e. `WB · B = WB (WBᵀWB + A)⁻¹ WBᵀ` -/
theorem edof_eq_trace_influence (F : Solve.Factor α n k m) :
    trace (F.U1 * F.U1ᵀ) = trace (F.WB * F.Bmat) ∧ (F.WBᵀ * F.WB + F.A) * F.Bmat = F.WBᵀ :=
  ⟨(Solve.trace_influence F).symm, Solve.normal_mul_Bmat F⟩

/-- the influence matrix itself: `WB · B = Q (U₁U₁ᵀ) Qᵀ` -/
theorem influence_matrix_eq (F : Solve.Factor α n k m) :
    F.WB * F.Bmat = F.Q * (F.U1 * F.U1ᵀ) * F.Qᵀ := Solve.influence_eq F

/-- inverse-free, for *any* solution `X` of the penalised normal equations `(WBᵀWB + A) X = WBᵀ` (there is
exactly one): `edof = tr(WB · X)`.  With `normalMatrix_inverse` this is `tr(WB (WBᵀWB+A)⁻¹ WBᵀ)`. -/
theorem edof_eq_trace_of_solution (F : Solve.Factor α n k m) (X : Matrix (Fin m) (Fin n) α)
    (h : (F.WBᵀ * F.WB + F.A) * X = F.WBᵀ) : trace (F.U1 * F.U1ᵀ) = trace (F.WB * X) := by
  rw [Solve.Bmat_unique F X h, Solve.trace_influence]

/-- the normal matrix is invertible, with inverse `V D⁻² Vᵀ` -/
theorem normalMatrix_inverse (F : Solve.Factor α n k m) :
    F.Ninv * (F.WBᵀ * F.WB + F.A) = 1 ∧ (F.WBᵀ * F.WB + F.A) * F.Ninv = 1 :=
  ⟨Solve.Ninv_mul_N F, Solve.N_mul_Ninv F⟩

/-- the executable definition run by the driver (`Stats.edofOf` on a solution of the normal equations obtained by
Gaussian elimination) computes the code's `tr(U₁U₁ᵀ)` -/
theorem edof_model_eq (F : Solve.Factor α n k m) (X : Matrix (Fin m) (Fin n) α)
    (h : (F.WBᵀ * F.WB + F.A) * X = F.WBᵀ) :
    edofOf n m (ofMat F.WB) (ofMat X) = trace (F.U1 * F.U1ᵀ) := by
  rw [edofOf_ofMat, edof_eq_trace_of_solution F X h]

end edof

section edofBounds
variable {α : Type} [Field α] [LinearOrder α] [IsStrictOrderedRing α] {n k m : ℕ}

theorem edof_nonneg (F : Solve.Factor α n k m) : 0 ≤ trace (F.U1 * F.U1ᵀ) := Solve.trace_gram_nonneg F.U1

/-- `0 < edof` as soon as the weighted model matrix is not identically zero -/
theorem edof_pos (F : Solve.Factor α n k m) (hWB : F.WB ≠ 0) : 0 < trace (F.U1 * F.U1ᵀ) :=
  Solve.trace_u1_pos F hWB

/-- `edof ≤ m` (number of coefficients): from `U₁ᵀU₁ + U₂ᵀU₂ = 1` -/
theorem edof_le_m (F : Solve.Factor α n k m) : trace (F.U1 * F.U1ᵀ) ≤ (m : α) := Solve.trace_u1_le_m F

/-- `edof ≤ k` (rows of `R`, `k = min(#rows, m)`).  Needs one more fact about the full SVD than `Factor` carries:
the *rows* of the orthogonal `U` are orthonormal too, `U₁U₁ᵀ + U₁ᵇU₁ᵇᵀ = 1` with `U₁ᵇ = U[:k, m:]`
(explicit hypothesis `hrow`; validated numerically as `U Uᵀ = I` on every checked fit). -/
theorem edof_le_k (F : Solve.Factor α n k m) (U1b : Matrix (Fin k) (Fin k) α)
    (hrow : F.U1 * F.U1ᵀ + U1b * U1bᵀ = 1) : trace (F.U1 * F.U1ᵀ) ≤ (k : α) :=
  Solve.trace_u1_le_k F U1b hrow

/-- `edof ≤ min(n, m)`; `k ≤ n` is the shape of the reduced QR factor (`k = min(#rows, m)`) -/
theorem edof_le_min (F : Solve.Factor α n k m) (U1b : Matrix (Fin k) (Fin k) α)
    (hrow : F.U1 * F.U1ᵀ + U1b * U1bᵀ = 1) (hkn : k ≤ n) :
    trace (F.U1 * F.U1ᵀ) ≤ ((min n m : ℕ) : α) := by
  have h1 := edof_le_k F U1b hrow
  have h2 := edof_le_m F
  have h3 : (k : α) ≤ (n : α) := by exact_mod_cast hkn
  rcases Nat.le_total n m with h | h
  · rw [Nat.min_eq_left h]; linarith
  · rw [Nat.min_eq_right h]; exact h2

/-- every entry of `statistics_['edof_per_coef'] = diag(U₁U₁ᵀ)` lies in `[0, 1]` -/
theorem edof_per_coef_mem (F : Solve.Factor α n k m) (U1b : Matrix (Fin k) (Fin k) α)
    (hrow : F.U1 * F.U1ᵀ + U1b * U1bᵀ = 1) (i : Fin k) :
    0 ≤ (F.U1 * F.U1ᵀ) i i ∧ (F.U1 * F.U1ᵀ) i i ≤ 1 :=
  ⟨Solve.gram_diag_nonneg F.U1 i, Solve.u1_row_le_one F U1b hrow i⟩

end edofBounds

/-! ### 2. covariance and standard errors -/
section cov
variable {α : Type} [Field α] {n k m : ℕ}

/-- inverse-free sandwich: with `N = WBᵀWB + A`, `N (B Bᵀ) N = WBᵀWB` -/
theorem cov_eq_sandwich (F : Solve.Factor α n k m) :
    (F.WBᵀ * F.WB + F.A) * (F.Bmat * F.Bmatᵀ) * (F.WBᵀ * F.WB + F.A) = F.WBᵀ * F.WB := Solve.sandwich F

/-- `B Bᵀ = N⁻¹ (WBᵀWB) N⁻¹`: `statistics_['cov'] = scale · (X'WX+S)⁻¹ X'WX (X'WX+S)⁻¹` -/
theorem cov_eq_sandwich_inv (F : Solve.Factor α n k m) (φ : α) :
    φ • (F.Bmat * F.Bmatᵀ) = φ • (F.Ninv * (F.WBᵀ * F.WB) * F.Ninv) := by
  rw [Solve.sandwich_inv F]

/-- the executable `Stats.covOf` on a solution `X` of the normal equations is `scale · B Bᵀ` of the code -/
theorem cov_model_eq (F : Solve.Factor α n k m) (φ : α) (X : Matrix (Fin m) (Fin n) α)
    (h : (F.WBᵀ * F.WB + F.A) * X = F.WBᵀ) (i j : Fin m) :
    covOf n φ (ofMat X) i j = φ * (F.Ninv * (F.WBᵀ * F.WB) * F.Ninv) i j := by
  rw [covOf_ofMat, Solve.Bmat_unique F X h, Solve.sandwich_inv F]

/-- the covariance is symmetric -/
theorem cov_symm (φ : α) (Bm : Nat → Nat → α) (i j : Nat) : covOf n φ Bm i j = covOf n φ Bm j i := by
  unfold covOf; congr 1; rw [sumTo_eq, sumTo_eq]; apply sum_congr rfl; intro r _; ring

end cov

section covOrder
variable {α : Type} [Field α] [LinearOrder α] [IsStrictOrderedRing α]

/-- variances are non-negative for a non-negative scale -/
theorem cov_diag_nonneg (n : Nat) (φ : α) (hφ : 0 ≤ φ) (Bm : Nat → Nat → α) (i : Nat) : 0 ≤ covOf n φ Bm i i := by
  unfold covOf; rw [sumTo_eq]
  exact mul_nonneg (sum_nonneg (fun r _ => mul_self_nonneg _)) hφ

/-- `se² = diag cov` -/
theorem se_sq (n : Nat) (φ : ℝ) (hφ : 0 ≤ φ) (Bm : Nat → Nat → ℝ) (i : Nat) :
    seOf (covOf n φ Bm) i ^ 2 = covOf n φ Bm i i := by
  unfold seOf
  rw [hsqrt_real, Real.sq_sqrt (cov_diag_nonneg n φ hφ Bm i)]

end covOrder

/-! ### 3. scale -/
section cast
variable {α : Type} [Field α]
/-- `len(mu)` as a number -/
theorem natTo_eq_cast (n : Nat) : (natTo n : α) = (n : α) := by
  induction n with
  | zero => simp [natTo]
  | succ n ih => simp [natTo, ih]
end cast

section scale
variable {α : Type} [Field α] [LinearOrder α] [IsStrictOrderedRing α] [HasLogSqrt α]

/-- a user-supplied (or family-fixed) scale is reported unchanged -/
theorem scale_known (s : α) (fam : Family) (levels : α) (n : Nat) (edof : α) (w y mu : Nat → α) :
    phi (some s) fam levels n edof w y mu = s := rfl

/-- otherwise the scale is the weighted Pearson statistic over the residual degrees of freedom `n - edof` -/
theorem scale_pearson (fam : Family) (levels : α) (n : Nat) (edof : α) (w y mu : Nat → α) :
    phi none fam levels n edof w y mu
      = (∑ i ∈ range n, w i * (y i - mu i) ^ 2 / varFn fam levels (mu i)) / ((n : α) - edof) := by
  simp only [phi, pearson, sumTo_eq, natTo_eq_cast]
  congr 1; apply sum_congr rfl; intro i _; ring

end scale

/-! ### 4. closed-form statistics -/
section formulas
variable {α : Type} [Field α] [LinearOrder α] [IsStrictOrderedRing α]

theorem two_eq : (two : α) = 2 := by unfold two; norm_num

/-- `AIC = -2ℓ + 2·edof + 2·[scale estimated]` -/
theorem aic_def (ll edof : α) (estimated : Bool) :
    aic ll edof estimated = -2 * ll + 2 * edof + (if estimated then 2 else 0) := by
  unfold aic; rw [two_eq]; ring

/-- estimating the scale costs exactly 2 -/
theorem aic_estimated_sub_known (ll edof : α) : aic ll edof true - aic ll edof false = 2 := by
  simp only [aic_def]; simp

/-- `AICc - AIC = 2(edof+1)(edof+2)/(n - edof - 2)` -/
theorem aicc_sub_aic (a edof : α) (n : Nat) :
    aicc a edof n - a = 2 * (edof + 1) * (edof + 2) / ((n : α) - edof - 2) := by
  unfold aicc; rw [two_eq, natTo_eq_cast]; ring

/-- the default `gamma` is `1.4 = 7/5` -/
theorem gamma_default : (gammaDefault : α) = 7 / 5 := by
  unfold gammaDefault; rw [natTo_eq_cast, natTo_eq_cast]; norm_num

/-- `GCV = n·D / (n - γ·edof)²` -/
theorem gcv_def (γ : α) (n : Nat) (D edof : α) : gcv γ n D edof = (n : α) * D / ((n : α) - γ * edof) ^ 2 := by
  unfold gcv; rw [natTo_eq_cast, sq]

/-- `UBRE = D/n - [¬add_scale]·φ + 2γ·edof·φ/n` -/
theorem ubre_def (γ : α) (addScale : Bool) (n : Nat) (D edof φ : α) :
    ubre γ addScale n D edof φ
      = D / (n : α) - (if addScale then 0 else φ) + 2 * γ * edof * φ / (n : α) := by
  unfold ubre; rw [two_eq, natTo_eq_cast]
  cases addScale <;> simp <;> ring

/-- with the default `add_scale=True` no scale is subtracted (and none is added): `UBRE = D/n + 2γ·edof·φ/n` -/
theorem ubre_add_scale (γ : α) (n : Nat) (D edof φ : α) :
    ubre γ true n D edof φ = D / (n : α) + 2 * γ * edof * φ / (n : α)
      ∧ ubre γ true n D edof φ - ubre γ false n D edof φ = φ := by
  simp only [ubre_def]; constructor <;> simp

/-- known scale ⇒ `(None, UBRE)` -/
theorem gcvUbre_known (γ : α) (a : Bool) (n : Nat) (D edof φ : α) :
    gcvUbre true γ a n D edof φ = (none, some (ubre γ a n D edof φ)) := rfl

/-- estimated scale ⇒ `(GCV, None)` -/
theorem gcvUbre_unknown (γ : α) (a : Bool) (n : Nat) (D edof φ : α) :
    gcvUbre false γ a n D edof φ = (some (gcv γ n D edof), none) := rfl

/-- explained deviance `1 - D/D₀` never exceeds 1 (`D ≥ 0`, `D₀ > 0`); it is unbounded below -/
theorem explained_le_one (D D0 : α) (hD : 0 ≤ D) (hD0 : 0 < D0) : explainedDeviance D D0 ≤ 1 := by
  unfold explainedDeviance
  have : 0 ≤ D / D0 := div_nonneg hD hD0.le
  linarith

/-- and equals 1 exactly for a perfect fit -/
theorem explained_eq_one_iff (D D0 : α) (hD0 : D0 ≠ 0) : explainedDeviance D D0 = 1 ↔ D = 0 := by
  unfold explainedDeviance
  constructor
  · intro h
    have : D / D0 = 0 := by linarith
    rcases div_eq_zero_iff.mp this with h | h
    · exact h
    · exact absurd h hD0
  · intro h; rw [h]; simp

/-- `McFadden = 1 - ℓ/ℓ₀` -/
theorem mcFadden_def (ll ll0 : α) : mcFadden ll ll0 = 1 - ll / ll0 := rfl

/-- `McFadden_adj = McFadden + edof/ℓ₀` (so it is the smaller one when `ℓ₀ < 0 ≤ edof`) -/
theorem mcFaddenAdj_eq (ll ll0 edof : α) : mcFaddenAdj ll ll0 edof = mcFadden ll ll0 + edof / ll0 := by
  unfold mcFaddenAdj mcFadden; ring

/-- centred coefficients sum to zero -/
theorem centre_sum_zero (k : Nat) (hk : 0 < k) (c : Nat → α) : ∑ i ∈ range k, centre k c i = 0 := by
  unfold centre meanOf
  rw [sum_sub_distrib, sumTo_eq, natTo_eq_cast]
  simp only [sum_const, card_range, nsmul_eq_mul]
  have : (k : α) ≠ 0 := by exact_mod_cast hk.ne'
  field_simp; ring

/-- known scale: chi-squared reference with `rank` degrees of freedom -/
theorem pValue_known (chi2cdf : α → Nat → α) (fcdf : α → Nat → α → α) (score : α) (rank n : Nat) (edof : α) :
    pValue chi2cdf fcdf true score rank n edof = 1 - chi2cdf score rank := rfl

/-- estimated scale: `F(rank, n - edof)` reference for `score / rank` -/
theorem pValue_estimated (chi2cdf : α → Nat → α) (fcdf : α → Nat → α → α) (score : α) (rank n : Nat) (edof : α) :
    pValue chi2cdf fcdf false score rank n edof = 1 - fcdf (score / (rank : α)) rank ((n : α) - edof) := by
  simp [pValue, cdfArgs, natTo_eq_cast]

/-- a p-value lies in `[0, 1]` whenever the reference cdfs do -/
theorem pValue_mem_unit (chi2cdf : α → Nat → α) (fcdf : α → Nat → α → α)
    (h1 : ∀ x d, 0 ≤ chi2cdf x d ∧ chi2cdf x d ≤ 1) (h2 : ∀ x d e, 0 ≤ fcdf x d e ∧ fcdf x d e ≤ 1)
    (known : Bool) (score : α) (rank n : Nat) (edof : α) :
    0 ≤ pValue chi2cdf fcdf known score rank n edof ∧ pValue chi2cdf fcdf known score rank n edof ≤ 1 := by
  cases known
  · rw [pValue_estimated]
    have := h2 (score / (rank : α)) rank ((n : α) - edof)
    constructor <;> linarith [this.1, this.2]
  · rw [pValue_known]
    have := h1 score rank
    constructor <;> linarith [this.1, this.2]

end formulas

section devianceBased
variable {α : Type} [Field α] [LinearOrder α] [IsStrictOrderedRing α] [HasLogSqrt α]

/-- the explained deviance (`pseudo_r2['explained_deviance']`, `GAM.score`) does not depend on the scale: the
scaled deviances of `_estimate_r2` can be replaced by the unscaled ones -/
theorem explained_scale_free (fam : Family) (levels s : α) (hs : s ≠ 0) (n : Nat) (w y mu : Nat → α) :
    r2Explained fam levels s n w y mu
      = explainedDeviance (totalDeviance fam levels s false n w y mu)
          (totalDeviance fam levels s false n w y (fun _ => meanOf n y)) := by
  have key : ∀ mu' : Nat → α, totalDeviance fam levels s true n w y mu'
      = totalDeviance fam levels s false n w y mu' / s := by
    intro mu'
    simp only [totalDeviance, deviance, sumTo_eq, if_true, Bool.false_eq_true, if_false]
    rw [Finset.sum_div]; apply sum_congr rfl; intro i _; ring
  unfold r2Explained explainedDeviance
  rw [key, key, div_div_div_cancel_right₀ hs]

/-- accuracy is a proportion -/
theorem accuracy_mem_unit (n : Nat) (hn : 0 < n) (y mu : Nat → α) :
    0 ≤ accuracy n y mu ∧ accuracy n y mu ≤ 1 := by
  unfold accuracy
  rw [sumTo_eq, natTo_eq_cast]
  have hpos : (0 : α) < (n : α) := by exact_mod_cast hn
  have h0 : 0 ≤ ∑ i ∈ range n, (if isZero (predictClass (mu i) - y i) then (1 : α) else 0) :=
    sum_nonneg (fun i _ => by split <;> norm_num)
  have h1 : ∑ i ∈ range n, (if isZero (predictClass (mu i) - y i) then (1 : α) else 0) ≤ (n : α) := by
    calc _ ≤ ∑ _i ∈ range n, (1 : α) := sum_le_sum (fun i _ => by split <;> norm_num)
      _ = (n : α) := by simp
  exact ⟨div_nonneg h0 hpos.le, (div_le_one hpos).mpr h1⟩

end devianceBased

section resid
/-- deviance residuals square to the (weighted, optionally scaled) unit deviances -/
theorem devResid_sq (fam : Family) (levels scale : ℝ) (scaled : Bool) (w y mu : ℝ)
    (hd : 0 ≤ deviance fam levels scale scaled w y mu) (hne : y ≠ mu) :
    devResid fam levels scale scaled w y mu ^ 2 = deviance fam levels scale scaled w y mu := by
  unfold devResid
  rw [mul_pow, hsqrt_real, Real.sq_sqrt hd]
  have : signOf (y - mu) ^ 2 = 1 := by
    unfold signOf
    rcases lt_or_gt_of_ne hne with h | h
    · have h1 : ¬ (0 < y - mu) := by linarith
      have h2 : y - mu < 0 := by linarith
      simp [h1, h2]
    · have h1 : 0 < y - mu := by linarith
      simp [h1]
  rw [this, one_mul]

/-- ... carry the sign of `y - μ` -/
theorem devResid_sign_pos (fam : Family) (levels scale : ℝ) (scaled : Bool) (w y mu : ℝ) (h : mu < y) :
    0 ≤ devResid fam levels scale scaled w y mu := by
  unfold devResid signOf
  have h1 : 0 < y - mu := by linarith
  simp only [h1, if_true, one_mul, hsqrt_real]
  exact Real.sqrt_nonneg _

theorem devResid_sign_neg (fam : Family) (levels scale : ℝ) (scaled : Bool) (w y mu : ℝ) (h : y < mu) :
    devResid fam levels scale scaled w y mu ≤ 0 := by
  unfold devResid signOf
  have h1 : ¬ (0 < y - mu) := by linarith
  have h2 : y - mu < 0 := by linarith
  simp only [h1, h2, if_true, if_false, hsqrt_real]
  have := Real.sqrt_nonneg (deviance fam levels scale scaled w y mu)
  linarith

/-- ... and vanish where the fit is exact -/
theorem devResid_eq_zero (fam : Family) (levels scale : ℝ) (scaled : Bool) (w y : ℝ) :
    devResid fam levels scale scaled w y y = 0 := by
  unfold devResid signOf; simp

end resid

/-! ### the scalar part of `statistics_` as one function (`Stats.scalars`, what the driver evaluates) -/
section scalarsThm
variable {α : Type} [Field α] [LinearOrder α] [IsStrictOrderedRing α] [HasLogSqrt α]

/-- `statistics_['scale']` is `Distribution.phi` -/
theorem scalars_scale (known : Option α) (fam : Family) (levels : α) (n : Nat) (edof : α) (w y mu : Nat → α)
    (ll ll0 : α → α) :
    (scalars known fam levels n edof w y mu ll ll0).scale = phi known fam levels n edof w y mu := rfl

/-- `statistics_['AIC'] = -2ℓ(φ) + 2·edof + 2·[scale estimated]`, the log-likelihood being evaluated at the reported scale -/
theorem scalars_aic (known : Option α) (fam : Family) (levels : α) (n : Nat) (edof : α) (w y mu : Nat → α)
    (ll ll0 : α → α) :
    (scalars known fam levels n edof w y mu ll ll0).aic
      = -2 * ll (phi known fam levels n edof w y mu) + 2 * edof + (if known.isNone then 2 else 0) := by
  simp only [scalars, aic_def]

/-- `statistics_['AICc'] - statistics_['AIC'] = 2(edof+1)(edof+2)/(n - edof - 2)` -/
theorem scalars_aicc_sub_aic (known : Option α) (fam : Family) (levels : α) (n : Nat) (edof : α) (w y mu : Nat → α)
    (ll ll0 : α → α) :
    (scalars known fam levels n edof w y mu ll ll0).aicc - (scalars known fam levels n edof w y mu ll ll0).aic
      = 2 * (edof + 1) * (edof + 2) / ((n : α) - edof - 2) := by
  simp only [scalars]; exact aicc_sub_aic _ _ _

/-- known scale `s`: `GCV = None`, `UBRE = D/n + 2·(7/5)·edof·s/n` with `D` the unscaled weighted deviance -/
theorem scalars_known (s : α) (fam : Family) (levels : α) (n : Nat) (edof : α) (w y mu : Nat → α)
    (ll ll0 : α → α) :
    (scalars (some s) fam levels n edof w y mu ll ll0).gcv = none ∧
    (scalars (some s) fam levels n edof w y mu ll ll0).ubre
      = some (totalDeviance fam levels s false n w y mu / (n : α) + 2 * (7 / 5) * edof * s / (n : α)) := by
  constructor
  · rfl
  · simp only [scalars, gcvUbre, Option.isSome_some, if_true, phi]
    rw [(ubre_add_scale _ _ _ _ _).1, gamma_default]

/-- estimated scale: `UBRE = None`, `GCV = n·D / (n - (7/5)·edof)²` -/
theorem scalars_estimated (fam : Family) (levels : α) (n : Nat) (edof : α) (w y mu : Nat → α)
    (ll ll0 : α → α) :
    (scalars none fam levels n edof w y mu ll ll0).ubre = none ∧
    (scalars none fam levels n edof w y mu ll ll0).gcv
      = some ((n : α) * totalDeviance fam levels (phi none fam levels n edof w y mu) false n w y mu
          / ((n : α) - 7 / 5 * edof) ^ 2) := by
  constructor
  · rfl
  · simp only [scalars, gcvUbre, Option.isSome_none, Bool.false_eq_true, if_false]
    rw [gcv_def, gamma_default]

/-- `pseudo_r2` and `deviance` entries -/
theorem scalars_r2 (known : Option α) (fam : Family) (levels : α) (n : Nat) (edof : α) (w y mu : Nat → α)
    (ll ll0 : α → α) :
    let S := scalars known fam levels n edof w y mu ll ll0
    S.mcFadden = 1 - ll S.scale / ll0 S.scale ∧ S.mcFaddenAdj = 1 - (ll S.scale - edof) / ll0 S.scale ∧
    S.explained = r2Explained fam levels S.scale n w y mu ∧
    S.deviance = totalDeviance fam levels S.scale true n w y mu := ⟨rfl, rfl, rfl, rfl⟩

end scalarsThm

/-! ### non-vacuity: an instance of the contracts with fewer rows than coefficients
(`n = k = 1 < m = 2`, `WB = [3 0]`, `A = diag(16, 25)`, `d = (5, 5)`, `edof = 9/25`) together with the row
contract `hrow` (`U₁ᵇ = [4/5]`) -/
def exF : Solve.Factor ℚ 1 1 2 :=
  { WB := !![3, 0], A := !![16, 0; 0, 25], Q := !![1], R := !![3, 0], E := !![4, 0; 0, 5],
    U1 := !![3/5, 0], U2 := !![4/5, 0; 0, 1], d := ![5, 5], V := !![1, 0; 0, 1],
    qr := by decide +kernel,
    qorth := by decide +kernel,
    chol := by decide +kernel,
    svdR := by decide +kernel,
    svdE := by decide +kernel,
    uorth := by decide +kernel,
    vorth := by decide +kernel,
    dne := by decide +kernel }

/-- the row contract `hrow` of `edof_le_k` holds for it with `U₁ᵇ = [4/5]` -/
example : exF.U1 * exF.U1ᵀ + (!![4/5] : Matrix (Fin 1) (Fin 1) ℚ) * (!![4/5] : Matrix (Fin 1) (Fin 1) ℚ)ᵀ = 1 := by
  decide +kernel

example : trace (exF.U1 * exF.U1ᵀ) = 9 / 25 := by decide +kernel

example : exF.WB ≠ 0 := by decide +kernel

/-! ### tie to the source by translation -/

/-- the `gamma` default of `_estimate_GCV_UBRE` in the source is the model's, and `add_scale` defaults to `True` -/
theorem gen_gamma : Gen.gcvGamma = some (Stats.gammaDefault (α := ℚ)) ∧ Gen.ubreAddScale = some true := by
  constructor
  · decide +kernel
  · decide

/-! ### tie to the source by translation of the formulas (`gen_formula_*`)

`Gen/Formulas.lean` is regenerated on every run from the abstract syntax tree of `pygam/pygam.py`:
`GAM._estimate_AIC`, `_estimate_AICc`, `_estimate_r2`, `_estimate_GCV_UBRE`, with the reads of `self.statistics_`,
`self.distribution.scale / _known_scale` as parameters and the calls `self._loglikelihood`, `self.distribution.deviance`,
`self.link.mu`, `self._linear_predictor` as function (vector) parameters; `.sum()` ↦ `sumTo n`, `y.shape[0]` ↦ `natTo n`,
`y.mean()` ↦ `sumTo n y / natTo n`.  Argument guards (`if gamma < 1: raise`) and argument defaulting
(`if weights is None: …`) are not part of the translation.  The theorems state that the generated definitions ARE the
formulas of `Model/Stats.lean`. -/
section gen_formulas
set_option linter.unusedSectionVars false

section generic
variable {α : Type} [Zero α] [One α] [Add α] [Sub α] [Mul α] [Div α] [Neg α] [LE α] [LT α] [DecidableLE α] [DecidableLT α]
  [HasLogSqrt α]

/-- `_estimate_AICc` is `aicc` (by `rfl`, for every type with the notation classes) -/
theorem gen_formula_AICc (aicV edof : α) (n : Nat) (y mu w : Nat → α) :
    Gen.estimate_AICc aicV edof n y mu w = aicc aicV edof n := rfl

/-- `_estimate_GCV_UBRE` is `gcvUbre` applied to the *unscaled* total deviance at `mu = link.mu(lp)`: UBRE with the
known scale, GCV otherwise, the other one `None` (by `rfl` in each of the four cases of the two Booleans, for every type
with the notation classes) -/
theorem gen_formula_GCV_UBRE (fam : Family) (levels scale edof gamma : α) (linv : α → α) (known addScale : Bool) (n : Nat)
    (w y lp : Nat → α) :
    Gen.estimate_GCV_UBRE linv (fun y mu w scaled => deviance fam levels scale scaled w y mu) known scale edof lp n y gamma
        addScale w
      = gcvUbre known gamma addScale n (totalDeviance fam levels scale false n w y (fun i => linv (lp i))) edof scale := by
  cases known <;> cases addScale <;> rfl
end generic

section field
variable {α : Type} [Field α] [LinearOrder α] [IsStrictOrderedRing α] [HasLogSqrt α]

/-- `_estimate_AIC` is `aic` with `estimated = not known_scale`.  Up to field identities: the source writes
`-2 * ll + … + 2 * estimated_scale` (a Boolean times 2), the model `(0 - 2 ll) + … + (if estimated then 2 else 0)` -/
theorem gen_formula_AIC (loglik : (Nat → α) → (Nat → α) → (Nat → α) → α) (known : Bool) (edof : α) (n : Nat)
    (y mu w : Nat → α) :
    Gen.estimate_AIC loglik known edof n y mu w = aic (loglik y mu w) edof (!known) := by
  unfold Gen.estimate_AIC aic two
  cases known <;> simp <;> ring

/-- `_estimate_r2` returns (explained deviance, McFadden, adjusted McFadden) of the model, the null model being the
constant `y.mean()`.  Up to the field identity `x * 1 = x` (the source multiplies the mean by `np.ones_like(y)`) -/
theorem gen_formula_r2 (fam : Family) (levels scale edof : α) (loglik : (Nat → α) → (Nat → α) → (Nat → α) → α) (n : Nat)
    (w y mu : Nat → α) :
    Gen.estimate_r2 (fun y mu w scaled => deviance fam levels scale scaled w y mu) loglik edof n y mu w
      = (r2Explained fam levels scale n w y mu,
         mcFadden (loglik y mu w) (loglik y (fun _ => meanOf n y) w),
         mcFaddenAdj (loglik y mu w) (loglik y (fun _ => meanOf n y) w) edof) := by
  simp only [Gen.estimate_r2, r2Explained, explainedDeviance, totalDeviance, mcFadden, mcFaddenAdj, meanOf, mul_one]

/-- the tail of `deviance_residuals` (from `sign = np.sign(y - mu)` to the `return`, i.e. what is computed once the inputs
are validated and `mu` predicted) is the model's `devResid`, entry by entry.  Up to the field identity `-1 = 0 - 1` (the
translation of `np.sign` writes `-1`, the model's `signOf` writes `0 - 1`) -/
theorem gen_formula_deviance_residual (fam : Family) (levels scale : α) (scaled : Bool) (w y mu : α) :
    Gen.deviance_residual (fun y mu w scaled => deviance fam levels scale scaled w y mu) y w scaled mu
      = devResid fam levels scale scaled w y mu := by
  simp only [Gen.deviance_residual, devResid, signOf, zero_sub]
end field

end gen_formulas

end PyGam.C08
