import PyGam.Proofs.Validate
/-!
# C11 — invalid data are rejected, never silently turned into a model or a number

Property theorems only.  The model (`PyGam/Model/Validate.lean`) mirrors the validation code of
`pygam/utils.py` and the order in which every public entry point of `pygam/pygam.py` calls it; the
correspondence stream `entry.calls` of `harness/props/c11.py` ties `outcome` to the exception class of the
real call on every run.

Arrays have arbitrary length and the corrupt value sits at an arbitrary position (`v ∈ a`, `row ∈ X`);
the entry-point theorems quantify over the whole table (`∀ e : Entry`), every model state that can serve the
entry point (`Ready e m`) and all remaining arguments.

One region where the code as it is now deliberately does **not** reject (`partial_dependence` and the categorical
features of *other* terms) is excluded by an explicit hypothesis (`…_partial`) and shown to be a genuine
counter-example of the unrestricted statement (`…_accepted`).
-/
namespace PyGam.C11
open PyGam.Validate

/-! ## array level (`utils.check_array`, `check_X`, `check_y`, `check_lengths`) -/

/-- "raises ValueError when any of them contains NaN or infinity": a 1-D array with a non-finite value at any
position (any prefix `pre`, any suffix `post`) fails `check_array`, whatever `min_samples` -/
theorem checkArray_rejects_nonfinite (pre post : List Val) (v : Val) (k : Nat) (hv : v.isFinite = false) :
    checkArray1 (pre ++ v :: post) k = false :=
  checkArray1_false_of_mem k (by simp) hv

/-- the same for a 2-D array: any row, any column, any shape, any `n_feats` / `min_samples` -/
theorem checkArray2_rejects_nonfinite (above below : List (List Val)) (left right : List Val) (v : Val)
    (nf : Option Nat) (k : Nat) (hv : v.isFinite = false) :
    checkArray2 (above ++ (left ++ v :: right) :: below) nf k = false :=
  checkArray2_false_of_mem (row := left ++ v :: right) nf k (by simp) (by simp) hv

/-- `check_array` accepts a 1-D array exactly when all entries are finite and there are enough samples -/
theorem checkArray_accepts_iff (a : List Val) (k : Nat) :
    checkArray1 a k = true ↔ (∀ v ∈ a, v.isFinite = true) ∧ k ≤ a.length :=
  checkArray1_eq_true

/-- "when X has the wrong number of features" -/
theorem checkArray_rejects_wrong_width (X : List (List Val)) (n k : Nat) (hne : X ≠ []) (hw : width X ≠ n) :
    checkArray2 X (some n) k = false :=
  checkArray2_false_of_width k hne hw

/-- too few samples -/
theorem checkArray_rejects_too_few (X : List (List Val)) (nf : Option Nat) (k : Nat) (h : X.length < k) :
    checkArray2 X nf k = false :=
  checkArray2_false_of_short nf h

/-- "when lengths disagree": `check_lengths` / `check_X_y` accept two arrays exactly when the lengths are equal -/
theorem checkLengths_pair (n k : Nat) : checkLengths [n, k] = true ↔ k = n := by
  simp [checkLengths]

/-- `check_lengths` of any number of arrays: all lengths equal the first -/
theorem checkLengths_iff (n : Nat) (rest : List Nat) :
    checkLengths (n :: rest) = true ↔ ∀ k ∈ rest, k = n := by
  simp [checkLengths]

/-- weights and exposure are cast to float32 first: a non-finite value stays non-finite, at any position -/
theorem cast_weights_rejects_nonfinite (pre post : List Val) (v : Val) (hv : v.isFinite = false) :
    checkArray1 (castVec (pre ++ v :: post)) = false :=
  castVec_nonfinite (v := v) (by simp) hv

/-- a finite double beyond the float32 range is rejected as well (it becomes `inf` in the cast) -/
theorem cast_weights_rejects_overflow (pre post : List Val) (r : Rat) (hr : f32Bound ≤ r) :
    checkArray1 (castVec (pre ++ .fin r :: post)) = false := by
  apply checkArray1_false_of_mem 1 (v := castF32 (.fin r))
  · exact List.mem_map.mpr ⟨.fin r, by simp, rfl⟩
  · simp [castF32, castBound, hr, Val.isFinite]

/-- "when targets lie outside the link's domain": a target at any position for which the link is NaN fails `check_y` -/
theorem checkY_domain (l : Link) (lv : Rat) (pre post : List Val) (v : Val) (hn : linkIsNaN l lv v = true) :
    checkYDomain l lv (pre ++ v :: post) = false :=
  checkYDomain_false_of_mem (v := v) (by simp) hn

/-- the finite targets the links accept: everything for identity / inverse / inv_squared, `y ≥ 0` for log,
`0 ≤ y ≤ levels` for logit -/
theorem inDomain_iff (l : Link) (lv r : Rat) :
    inDomain l lv r = true ↔
      match l with
      | .identity | .inverse | .invSquared => True
      | .log => 0 ≤ r
      | .logit => 0 ≤ r ∧ r ≤ lv := by
  cases l <;> simp [inDomain, linkIsNaN, not_lt]

/-- "when a categorical feature takes a value outside the fitted range": any row, any categorical term -/
theorem checkX_rejects_category (f : Fit) (above below : List (List Val)) (row : List Val) (c : Cat) (r : Rat)
    (hcat : c ∈ f.cats) (hc : cell row c.feature = .fin r) (hout : r < c.lo ∨ c.hi < r) :
    checkXFitted f (above ++ row :: below) = false :=
  checkXFitted_false_of_cat hcat (by simp) hc hout

/-- the number of features `check_X` insists on is the one of the training data -/
theorem checkX_width_is_mFeatures (f : Fit) (h : ∀ j ∈ f.features, j < f.mFeatures) (X : List (List Val))
    (hne : X ≠ []) (hw : width X ≠ f.mFeatures) : checkXFitted f X = false :=
  checkXFitted_false_of_width hne (by rw [Fit.nFeats_eq h]; exact hw)

/-! ## entry-point level -/

/-- validation raises nothing but `ValueError` and `AttributeError` -/
theorem outcome_ne_other (e : Entry) (m : Model) (a : Args) : outcome e m a ≠ .other :=
  runSteps_ne_other _

/-- a call goes through exactly when every step of its row passes -/
theorem outcome_ok_iff (e : Entry) (m : Model) (a : Args) :
    outcome e m a = .ok ↔ ∀ s ∈ table e m.isFitted a.converged, s.passes m a = true :=
  runSteps_ok_iff _

/-- **X, non-finite.** Every entry point of the table, every model that can serve it: a NaN / ±Inf anywhere in `X`
gives `ValueError` -/
theorem entry_rejects_nonfinite_X (e : Entry) (m : Model) (a : Args) (hr : Ready e m)
    (row : List Val) (v : Val) (hrow : row ∈ a.X) (hv : v ∈ row) (hnf : v.isFinite = false) :
    outcome e m a = .valueError := by
  have h1 : Step.passes m a .xFresh = false := by
    simp [Step.passes, checkXFresh_false_of_mem hrow hv hnf]
  have h2 : Step.passes m a .xFitted = false := by
    cases hfit : m.fit with
    | none => simp [Step.passes, hfit]
    | some f => simp [Step.passes, hfit, checkXFitted_false_of_mem hrow hv hnf]
  have h3 : Step.passes m a .xFittedTerm = false := by
    cases hfit : m.fit with
    | none => simp [Step.passes, hfit]
    | some f => simp [Step.passes, hfit, checkXFittedTerm_false_of_mem hrow hv hnf]
  have h4 : Step.passes m a .xFittedWidth = false := by
    cases hfit : m.fit with
    | none => simp [Step.passes, hfit]
    | some f => simp [Step.passes, hfit, checkArray2_false_of_mem (some f.mFeatures) 1 hrow hv hnf]
  rcases mem_xStep e m.isFitted a.converged with h | h | h | h
  · exact entry_rejects_of_step hr _ h h1
  · exact entry_rejects_of_step hr _ h h2
  · exact entry_rejects_of_step hr _ h h3
  · exact entry_rejects_of_step hr _ h h4

/-- **y, non-finite.** Every entry point that takes `y` (for PoissonGAM also after the division by the exposure) -/
theorem entry_rejects_nonfinite_y (e : Entry) (m : Model) (a : Args) (hr : Ready e m) (hy : DataArg.y ∈ e.args)
    (v : Val) (hv : v ∈ a.y) (hnf : v.isFinite = false) : outcome e m a = .valueError := by
  rcases mem_yFinite e m.isFitted a.converged hy with h | ⟨h, hl⟩
  · exact entry_rejects_of_step hr _ h (by simp [Step.passes, effY, checkYFinite, checkArray1_false_of_mem 1 hv hnf])
  · cases hex : a.exposure with
    | none =>
        exact entry_rejects_of_step hr _ h
          (by simp [Step.passes, effY, scaledY, hex, checkYFinite, checkArray1_false_of_mem 1 hv hnf])
    | some ex =>
        by_cases hlen : a.y.length = ex.length
        · obtain ⟨z, hz, hzf⟩ := zipWith_div_nonfinite a.y (castVec ex)
            (by rw [castVec_length]; omega) ⟨v, hv, hnf⟩
          exact entry_rejects_of_step hr _ h
            (by simp only [Step.passes, effY, scaledY, hex, checkYFinite]
                exact checkArray1_false_of_mem 1 hz hzf)
        · exact entry_rejects_of_step hr _ hl (by simp [Step.passes, optLen, hex, hlen])

/-- **weights, non-finite.** Every entry point taking sample weights (including `fit_quantile` on a model that already
sits at the requested quantile: the weights are validated before the search starts) -/
theorem entry_rejects_nonfinite_weights (e : Entry) (m : Model) (a : Args) (hr : Ready e m)
    (hw : DataArg.weights ∈ e.args)
    (w : List Val) (hsome : a.weights = some w) (v : Val) (hv : v ∈ w) (hnf : v.isFinite = false) :
    outcome e m a = .valueError :=
  entry_rejects_of_step hr _ (mem_weights e _ _ hw).1
    (by simp [Step.passes, hsome, castVec_nonfinite hv hnf])

/-- **exposure, non-finite.** Every PoissonGAM entry point taking an exposure -/
theorem entry_rejects_nonfinite_exposure (e : Entry) (m : Model) (a : Args) (hr : Ready e m)
    (he : DataArg.exposure ∈ e.args) (ex : List Val) (hsome : a.exposure = some ex) (v : Val) (hv : v ∈ ex)
    (hnf : v.isFinite = false) : outcome e m a = .valueError :=
  entry_rejects_of_step hr _ (mem_exposure e _ _ he).1
    (by simp [Step.passes, hsome, castVec_nonfinite hv hnf])

/-- **sample_at_X** of `sample` is validated like `X` whenever it is used (`quantity ≠ 'coef'`) -/
theorem sample_rejects_nonfinite_sampleAtX (m : Model) (a : Args) (hr : Ready .sample m)
    (sx : List (List Val)) (hsome : a.sampleAtX = some sx) (hq : a.coefOnly = false)
    (row : List Val) (v : Val) (hrow : row ∈ sx) (hv : v ∈ row) (hnf : v.isFinite = false) :
    outcome .sample m a = .valueError := by
  refine entry_rejects_of_step hr _ (mem_sampleAtX _ _) ?_
  cases hfit : m.fit with
  | none => simp [Step.passes, hsome, hq, hfit]
  | some f => simp [Step.passes, hsome, hq, hfit, checkXFitted_false_of_mem hrow hv hnf]

/-- **lengths of X and y.** Every entry point taking both (the `loglikelihood` variants compare `len(predict_mu(X))`
with `len(y)`) -/
theorem entry_rejects_length_XY (e : Entry) (m : Model) (a : Args) (hr : Ready e m)
    (hy : DataArg.y ∈ e.args) (hlen : a.X.length ≠ a.y.length) : outcome e m a = .valueError :=
  entry_rejects_of_step hr _ (mem_lenXY e m.isFitted a.converged hy) (by simp [Step.passes, hlen])

/-- **length of weights.** Every entry point taking sample weights -/
theorem entry_rejects_length_weights (e : Entry) (m : Model) (a : Args) (hr : Ready e m)
    (hw : DataArg.weights ∈ e.args)
    (w : List Val) (hsome : a.weights = some w) (hlen : a.y.length ≠ w.length) :
    outcome e m a = .valueError :=
  entry_rejects_of_step hr _ (mem_weights e _ _ hw).2
    (by simp [Step.passes, optLen, hsome, hlen])

/-- **length of exposure**: against `y` (fit, loglikelihood, gridsearch) resp. against `X` (`PoissonGAM.predict`) -/
theorem entry_rejects_length_exposure (e : Entry) (m : Model) (a : Args) (hr : Ready e m)
    (he : DataArg.exposure ∈ e.args) (ex : List Val) (hsome : a.exposure = some ex)
    (hlen : if e = .poissonPredict then a.X.length ≠ ex.length else a.y.length ≠ ex.length) :
    outcome e m a = .valueError := by
  rcases (mem_exposure e m.isFitted a.converged he).2 with ⟨hp, h⟩ | ⟨hp, h⟩
  · rw [if_neg hp] at hlen
    exact entry_rejects_of_step hr _ h (by simp [Step.passes, optLen, hsome, hlen])
  · rw [if_pos hp] at hlen
    exact entry_rejects_of_step hr _ h (by simp [Step.passes, optLen, hsome, hlen])

/-- **wrong number of features**: on a fitted model (whose term features are columns of its training data) every entry
point that needs a fit, `fit_quantile` and `gridsearch` reject an `X` whose width differs from `m_features` -/
theorem entry_rejects_wrong_width (e : Entry) (m : Model) (a : Args) (hr : Ready e m) (f : Fit)
    (hfit : m.fit = some f) (hinv : ∀ j ∈ f.features, j < f.mFeatures)
    (he : e.needsFit = true ∨ e = .fitQuantile ∨ e = .gridsearch ∨ e = .poissonGridsearch)
    (hne : a.X ≠ []) (hw : width a.X ≠ f.mFeatures) : outcome e m a = .valueError := by
  have hb : m.isFitted = true := by simp [Model.isFitted, hfit]
  have hw' : width a.X ≠ f.nFeats := by rw [Fit.nFeats_eq hinv]; exact hw
  by_cases hg : e = .gridsearch ∨ e = .poissonGridsearch
  · have hmem := mem_xFittedWidth e a.converged hg
    rw [← hb] at hmem
    exact entry_rejects_of_step hr _ hmem
      (by simp [Step.passes, hfit, checkArray2_false_of_width 1 hne hw])
  · have hmem := mem_xFitted e m.isFitted a.converged (by
      rcases he with h | h | h | h
      · exact Or.inl h
      · exact Or.inr ⟨h, hb⟩
      · exact absurd (Or.inl h) hg
      · exact absurd (Or.inr h) hg)
    rcases hmem with h | ⟨_, h⟩
    · exact entry_rejects_of_step hr _ h (by simp [Step.passes, hfit, checkXFitted_false_of_width hne hw'])
    · exact entry_rejects_of_step hr _ h (by simp [Step.passes, hfit, checkXFittedTerm_false_of_width hne hw'])

/-- **X lacks a feature the terms need**: every (re)fitting entry point, in every state.  Before the first fit (and
whenever `fit` itself runs) `terms.compile` refuses; on a fitted model `gridsearch` and `fit_quantile` compare the width
of `X` with `m_features` first (the invariant `hinv` says the term features are columns of the training data). -/
theorem entry_rejects_missing_feature (e : Entry) (m : Model) (a : Args) (hr : Ready e m)
    (he : e = .fit ∨ e = .poissonFit ∨ e = .gridsearch ∨ e = .poissonGridsearch ∨ e = .fitQuantile)
    (fs : List Nat) (hfs : m.termFeats = some fs) (j : Nat) (hj : j ∈ fs) (hnarrow : width a.X ≤ j)
    (hne : a.X ≠ [])
    (hinv : ∀ f, m.fit = some f → (∀ k ∈ fs, k < f.mFeatures) ∧ (∀ k ∈ f.features, k < f.mFeatures)) :
    outcome e m a = .valueError := by
  have hcompile : Step.passes m a .compile = false := by
    simp only [Step.passes, hfs]
    cases h : fs.all (fun j => decide (j < width a.X)) with
    | false => rfl
    | true =>
        have := List.all_eq_true.mp h j hj
        simp at this; omega
  cases hfit : m.fit with
  | none =>
      have hb : m.isFitted = false := by simp [Model.isFitted, hfit]
      refine entry_rejects_of_step hr _ (mem_compile e _ _ ?_) hcompile
      rw [hb]
      rcases he with h | h | h | h | h
      · exact Or.inl h
      · exact Or.inr (Or.inl h)
      · exact Or.inr (Or.inr (Or.inl ⟨Or.inl h, rfl⟩))
      · exact Or.inr (Or.inr (Or.inl ⟨Or.inr h, rfl⟩))
      · exact Or.inr (Or.inr (Or.inr ⟨h, Or.inl rfl⟩))
  | some f =>
      obtain ⟨h1, h2⟩ := hinv f hfit
      have hw : width a.X ≠ f.mFeatures := by have := h1 j hj; omega
      rcases he with h | h | h | h | h
      · exact entry_rejects_of_step hr _ (mem_compile e _ _ (Or.inl h)) hcompile
      · exact entry_rejects_of_step hr _ (mem_compile e _ _ (Or.inr (Or.inl h))) hcompile
      · exact entry_rejects_wrong_width e m a hr f hfit h2 (Or.inr (Or.inr (Or.inl h))) hne hw
      · exact entry_rejects_wrong_width e m a hr f hfit h2 (Or.inr (Or.inr (Or.inr h))) hne hw
      · exact entry_rejects_wrong_width e m a hr f hfit h2 (Or.inr (Or.inl h)) hne hw

/-- **targets outside the link's domain**: every entry point taking `y` (PoissonGAM: without exposure, resp. for
`loglikelihood` always, since there `check_y` sees the raw counts) -/
theorem entry_rejects_domain (e : Entry) (m : Model) (a : Args) (hr : Ready e m) (hy : DataArg.y ∈ e.args)
    (hexp : (e = .poissonFit ∨ e = .poissonGridsearch) → a.exposure = none)
    (v : Val) (hv : v ∈ a.y) (hn : linkIsNaN m.link m.levels v = true) : outcome e m a = .valueError := by
  rcases mem_yDomain e m.isFitted a.converged hy with h | ⟨he, h⟩
  · exact entry_rejects_of_step hr _ h (by simp [Step.passes, effY, checkYDomain_false_of_mem hv hn])
  · exact entry_rejects_of_step hr _ h
      (by simp [Step.passes, effY, scaledY, hexp he, checkYDomain_false_of_mem hv hn])

/-- **unseen category** (full statement: every entry point that checks `X` against the fit).  Proved for every entry
point that needs a fit and for `fit_quantile` on a fitted model, except `partial_dependence`, which (since the repair
"partial dependence of one term validated the categorical domain of every other term") only looks at the categorical
features of the requested term — see `partialDependence_rejects_own_category` and
`partialDependence_other_category_accepted`. -/
theorem entry_rejects_category_partial (e : Entry) (m : Model) (a : Args) (hr : Ready e m) (f : Fit)
    (hfit : m.fit = some f) (he : e.needsFit = true ∨ e = .fitQuantile) (hpd : e ≠ .partialDependence)
    (c : Cat) (hcat : c ∈ f.cats) (row : List Val) (hrow : row ∈ a.X) (r : Rat)
    (hc : cell row c.feature = .fin r) (hout : r < c.lo ∨ c.hi < r) : outcome e m a = .valueError := by
  have hb : m.isFitted = true := by simp [Model.isFitted, hfit]
  have hmem := mem_xFitted e m.isFitted a.converged (by
    rcases he with h | h
    · exact Or.inl h
    · exact Or.inr ⟨h, hb⟩)
  rcases hmem with h | ⟨h, _⟩
  · exact entry_rejects_of_step hr _ h (by simp [Step.passes, hfit, checkXFitted_false_of_cat hcat hrow hc hout])
  · exact absurd h hpd

/-- `partial_dependence(term, X)` rejects a value outside the fitted range of a categorical feature of that term -/
theorem partialDependence_rejects_own_category (m : Model) (a : Args) (hr : Ready .partialDependence m) (f : Fit)
    (hfit : m.fit = some f) (c : Cat) (hcat : c ∈ f.termCats.getD a.term []) (row : List Val) (hrow : row ∈ a.X)
    (r : Rat) (hc : cell row c.feature = .fin r) (hout : r < c.lo ∨ c.hi < r) :
    outcome .partialDependence m a = .valueError := by
  refine entry_rejects_of_step hr .xFittedTerm ?_ ?_
  · cases m.isFitted <;> cases a.converged <;> decide
  · simp [Step.passes, hfit, checkXFittedTerm_false_of_cat hcat hrow hc hout]

/-- "methods that need a fitted model raise AttributeError before fit": for every such entry point except the two
`loglikelihood` variants the guard is the first step, so the outcome is `AttributeError` whatever the data -/
theorem unfitted_raises_AttributeError (e : Entry) (m : Model) (a : Args) (hn : e.needsFit = true)
    (hl : e ≠ .loglikelihood) (hpl : e ≠ .poissonLoglikelihood) (hfit : m.fit = none) :
    outcome e m a = .attributeError := by
  have hb : m.isFitted = false := by simp [Model.isFitted, hfit]
  have := head_fitted e m.isFitted a.converged hn hl hpl
  unfold outcome
  cases ht : table e m.isFitted a.converged with
  | nil => simp [ht] at this
  | cons s rest =>
      simp [ht] at this; subst this
      simp [runSteps, Step.passes, hb, Step.exc]

/-- `loglikelihood` validates `y` before it reaches the guard: before fit it never succeeds, and it raises
`AttributeError` as soon as `y` itself is valid -/
theorem unfitted_loglikelihood (e : Entry) (m : Model) (a : Args)
    (he : e = .loglikelihood ∨ e = .poissonLoglikelihood) (hfit : m.fit = none) :
    (outcome e m a = .attributeError ∨ outcome e m a = .valueError) ∧
    (checkYFinite a.y = true → checkYDomain m.link m.levels a.y = true → outcome e m a = .attributeError) := by
  have hb : m.isFitted = false := by simp [Model.isFitted, hfit]
  rcases he with rfl | rfl <;>
    simp only [outcome, table, hb, runSteps, Step.passes, effY, Step.exc, List.cons_append, List.nil_append] <;>
    cases h1 : checkYFinite a.y <;> cases h2 : m.validated <;> cases h3 : checkYDomain m.link m.levels a.y <;>
    simp [h1, h3]

/-- no entry point that needs a fit ever returns normally before fit -/
theorem unfitted_never_ok (e : Entry) (m : Model) (a : Args) (hn : e.needsFit = true) (hfit : m.fit = none) :
    outcome e m a ≠ .ok := by
  by_cases hl : e = .loglikelihood ∨ e = .poissonLoglikelihood
  · rcases (unfitted_loglikelihood e m a hl hfit).1 with h | h <;> simp [h]
  · simp only [not_or] at hl
    simp [unfitted_raises_AttributeError e m a hn hl.1 hl.2 hfit]

/-! ## the initial estimate on boundary targets (second sentence of the property: no unrelated exception) -/

/-- for every target in the link's domain (and `levels ≥ 1`), the shifted target that `_initial_estimate` feeds to
the link is strictly inside the domain, so `link(y)` is finite in exact arithmetic and the assertion
"transformed response values should be well-behaved" cannot fire.  (Floating point: `y**-2` can still overflow for
`|y| < 1e-154` — reported by the `hostile.fits` stream.) -/
theorem initial_adjust_finite (l : Link) (lv y : Rat) (hlv : 1 ≤ lv) (hy : inDomain l lv y = true) :
    linkFiniteAt l lv (initialAdjust lv y) = true := by
  have hd := (inDomain_iff l lv y).mp hy
  rw [adjust_eq lv y hlv]
  cases l with
  | identity => simp [linkFiniteAt]
  | inverse =>
      simp only [linkFiniteAt, decide_eq_true_eq]
      split_ifs with h0 h1 h2
      · norm_num
      · norm_num
      · intro h; linarith
      · exact h0
  | invSquared =>
      simp only [linkFiniteAt, decide_eq_true_eq]
      split_ifs with h0 h1 h2
      · norm_num
      · norm_num
      · intro h; linarith
      · exact h0
  | log =>
      simp only [linkFiniteAt, decide_eq_true_eq]
      simp only at hd
      split_ifs with h0 h1 h2
      · norm_num
      · norm_num
      · linarith
      · exact lt_of_le_of_ne hd (Ne.symm h0)
  | logit =>
      simp only [linkFiniteAt, Bool.and_eq_true, decide_eq_true_eq]
      simp only at hd
      split_ifs with h0 h1 h2
      · constructor <;> [norm_num; linarith]
      · constructor <;> [norm_num; linarith]
      · constructor <;> linarith
      · refine ⟨lt_of_le_of_ne hd.1 (Ne.symm h0), ?_⟩
        by_cases h3 : lv = 1
        · rw [h3] at hd ⊢; exact lt_of_le_of_ne hd.2 h1
        · exact lt_of_le_of_ne hd.2 (fun h => h2 ⟨h3, h⟩)

/-! ## non-vacuity, and the one excluded region -/

def demoFit : Fit := ⟨1, [0], [], []⟩
def demoModel : Model := ⟨.identity, 1, some [0], true, some demoFit⟩

/-- non-vacuity: the demonstration model can serve every entry point, and a clean call goes through -/
example : ∀ e ∈ Entry.all, outcome e demoModel { X := [[.fin 0], [.fin 1]], y := [.fin 0, .fin 1] } = .ok := by decide

example : ∀ e ∈ Entry.all, Ready e demoModel := fun _ _ _ => ⟨rfl, rfl⟩

/-- instances of the rejection theorems: NaN in the last row of `X`; `+Inf` weight that is finite as a double but not
as a float32; a target above `levels`; an unseen category; an unfitted model -/
example : outcome .score demoModel { X := [[.fin 0], [.nan]], y := [.fin 0, .fin 1] } = .valueError := by decide +kernel
example : outcome .fit demoModel
    { X := [[.fin 0], [.fin 1]], y := [.fin 0, .fin 1], weights := some [.fin 1, .fin ((10 : Rat) ^ 39)] } =
      .valueError := by decide +kernel
example : outcome .accuracy ⟨.logit, 1, some [0], true, some demoFit⟩
    { X := [[.fin 0], [.fin 1]], y := [.fin 0, .fin 2] } = .valueError := by decide +kernel
example : outcome .predict ⟨.identity, 1, some [0], true, some ⟨1, [0], [⟨0, -1 / 2, 5 / 2⟩], [[⟨0, -1 / 2, 5 / 2⟩]]⟩⟩
    { X := [[.fin 0], [.fin 3]] } = .valueError := by decide +kernel
example : outcome .predict ⟨.identity, 1, none, false, none⟩ { X := [[.fin 0]] } = .attributeError := by decide +kernel
/-- formerly accepted (repaired in the tree under test): a length-1 `X` in `loglikelihood`, NaN weights in a converged
`fit_quantile`, a one-column `X` in `gridsearch` on a fitted two-feature model -/
example : outcome .loglikelihood demoModel { X := [[.fin 0]], y := [.fin 0, .fin 1] } = .valueError := by decide +kernel
example : outcome .fitQuantile demoModel
    { X := [[.fin 0], [.fin 1]], y := [.fin 0, .fin 1], weights := some [.nan, .fin 1], converged := true } =
      .valueError := by decide +kernel
example : outcome .gridsearch ⟨.identity, 1, some [0, 1], true, some ⟨2, [0, 1], [], []⟩⟩
    { X := [[.fin 0], [.fin 1]], y := [.fin 0, .fin 1] } = .valueError := by decide +kernel

/-- `initial_adjust_finite` at the boundary `y = levels = 3` of a binomial with three trials -/
example : inDomain .logit 3 3 = true ∧ initialAdjust 3 3 = 299 / 100 ∧ linkFiniteAt .logit 3 (initialAdjust 3 3) = true := by
  decide +kernel

/-- since repair c103169: a model `s(0) + f(1)`; the partial dependence of term 0 is computed although column 1 holds the
unseen category 3 (it does not enter the result), while `predict` on the same `X` is rejected -/
theorem partialDependence_other_category_accepted :
    ∃ (m : Model) (a : Args), Ready .partialDependence m ∧ outcome .partialDependence m a = .ok ∧
      outcome .predict m a = .valueError :=
  ⟨⟨.identity, 1, some [0, 1], true, some ⟨2, [0, 1], [⟨1, -1 / 2, 5 / 2⟩], [[], [⟨1, -1 / 2, 5 / 2⟩]]⟩⟩,
   { X := [[.fin 0, .fin 3]], term := 0 }, fun _ => ⟨rfl, rfl⟩, by decide +kernel, by decide +kernel⟩

end PyGam.C11
