import PyGam.Proofs.Expectile
import PyGam.Proofs.ExpectileSearch
import PyGam.Proofs.Dists
import PyGam.Gen.Formulas
import PyGam.Gen.Decisions
/-!
# C18 — ExpectileGAM fits the requested expectile; fit_quantile reaches its quantile

Property theorems only, over any linearly ordered field (`ℚ`, `ℝ`).

Not covered by the theorems (partial, see the `…_partial` names and the correspondence streams):
* IEEE rounding: the bisection theorems are about exact midpoints; in doubles `(max_ + min_) / 2` stops being
  *strictly* between its arguments once they are adjacent floats (after ≈ 52 halvings around an interior
  point, 1074 towards 0) — the harness keeps `max_iter ≤ 40` and checks the float trace bit for bit
  against the same model definitions instantiated at `Float`.
* the `√ε` ridge that `_pirls` adds to every diagonal entry: the balance identity is exact *including* the
  term `A₀₀ β₀` (`= 2⁻²⁶ β₀` in the code), it is not claimed to vanish.
* "converged": the statement is about a fixed point of the PIRLS map; how close the returned
  coefficients are to one is C01 / C20.
-/
open Finset
namespace PyGam.C18
open PyGam PyGam.Expectile
variable {α : Type} [Field α] [LinearOrder α] [IsStrictOrderedRing α]

/-! ### asymmetric weights -/

omit [IsStrictOrderedRing α] in
/-- `_W` weighs an observation by `τ` exactly when `y > μ`, else by `1 − τ` (ties count as negative) -/
theorem asym_eq (tau y mu : α) :
    (mu < y → asym tau y mu = tau) ∧ (y ≤ mu → asym tau y mu = 1 - tau) := by
  unfold asym
  exact ⟨fun h => if_pos h, fun h => if_neg (not_lt.mpr h)⟩

/-- for an expectile in `(0,1)` both weights are positive: the fit is a weighted least squares -/
theorem asym_positive (tau y mu : α) (h0 : 0 < tau) (h1 : tau < 1) : 0 < asym tau y mu :=
  asym_pos tau y mu h0 h1

omit [IsStrictOrderedRing α] in
/-- the range check: exactly the expectiles in `(0,1)` are accepted -/
theorem validExpectile_iff (e : α) : validExpectile e = true ↔ 0 < e ∧ e < 1 := by
  unfold validExpectile
  by_cases h : (1 : α) ≤ e ∨ e ≤ 0
  · rw [if_pos h]
    constructor
    · intro hh; exact absurd hh (by simp)
    · rintro ⟨h0, h1⟩; rcases h with h | h
      · exact absurd h1 (not_lt.mpr h)
      · exact absurd h0 (not_lt.mpr h)
  · rw [if_neg h]
    push Not at h
    exact ⟨fun _ => ⟨h.2, h.1⟩, fun _ => rfl⟩

/-! ### "a converged fit with an intercept balances residuals asymmetrically" -/

/-- **expectile balance.**  Let `β` be a fixed point of the ExpectileGAM iteration
(`(Bᵀ D B + A) β = Bᵀ D y`, `D = diag(wᵢ · asym τ yᵢ μᵢ)`, `μ = Bβ`), let column `j0` of the model
matrix be the intercept (all ones) and let row `j0` of `A = S + P` have only its diagonal entry (the
intercept is unpenalised; `A_{j0 j0}` is the `√ε` ridge).  Then, with `r = y − μ`,

  `τ · Σ_{rᵢ>0} wᵢ rᵢ = (1 − τ) · Σ_{rᵢ≤0} wᵢ |rᵢ| + A_{j0 j0} β_{j0}`. -/
theorem expectile_balance (tau : α) (n m : Nat) (B : Nat → Nat → α) (w : Nat → α)
    (A : Nat → Nat → α) (y beta : Nat → α) (j0 : Nat) (hj : j0 < m)
    (hB : ∀ i < n, B i j0 = 1) (hA : ∀ k < m, k ≠ j0 → A j0 k = 0)
    (h : ExpectileFixedPoint tau n m B w A y beta) :
    tau * posSum n w (fun i => y i - linPred m B beta i)
      = (1 - tau) * negSum n w (fun i => y i - linPred m B beta i) + A j0 j0 * beta j0 := by
  have hr := intercept_row n m B _ A y beta j0 hj hB hA h
  have key : ∑ i ∈ range n, expWeight tau w y (linPred m B beta) i * (y i - linPred m B beta i)
      = tau * posSum n w (fun i => y i - linPred m B beta i)
        - (1 - tau) * negSum n w (fun i => y i - linPred m B beta i) := by
    simp only [posSum, negSum, sumTo_eq, mul_sum, ← sum_sub_distrib, expWeight]
    exact sum_congr rfl (fun i _ => asym_split tau (w i) (y i) (linPred m B beta i))
  linear_combination hr - key

/-- the same in terms of the model's `balance` (what the driver evaluates): the balance defect of a
fixed point is exactly the ridge term -/
theorem expectile_balance_defect (tau : α) (n m : Nat) (B : Nat → Nat → α) (w : Nat → α)
    (A : Nat → Nat → α) (y beta : Nat → α) (j0 : Nat) (hj : j0 < m)
    (hB : ∀ i < n, B i j0 = 1) (hA : ∀ k < m, k ≠ j0 → A j0 k = 0)
    (h : ExpectileFixedPoint tau n m B w A y beta) :
    balance tau n w y (linPred m B beta) = A j0 j0 * beta j0 := by
  unfold balance
  have := expectile_balance tau n m B w A y beta j0 hj hB hA h
  linear_combination this

/-- with no ridge at all the two sides balance exactly (the sentence of the property) -/
theorem expectile_balance_no_ridge (tau : α) (n m : Nat) (B : Nat → Nat → α) (w : Nat → α)
    (A : Nat → Nat → α) (y beta : Nat → α) (j0 : Nat) (hj : j0 < m)
    (hB : ∀ i < n, B i j0 = 1) (hA : ∀ k < m, A j0 k = 0)
    (h : ExpectileFixedPoint tau n m B w A y beta) :
    tau * posSum n w (fun i => y i - linPred m B beta i)
      = (1 - tau) * negSum n w (fun i => y i - linPred m B beta i) := by
  have := expectile_balance tau n m B w A y beta j0 hj hB (fun k hk _ => hA k hk) h
  rw [hA j0 hj, zero_mul, add_zero] at this
  exact this

/-! ### "expectile 0.5 reproduces the LinearGAM fit with doubled lam" -/

/-- at `τ = ½` every asymmetric weight is `½`, so `β` is a fixed point of the ExpectileGAM iteration with
penalty matrix `A` iff it solves the LinearGAM normal equations `(Bᵀ W B + 2A) β = Bᵀ W y`, i.e. with
all of `A` — the `lam`-weighted penalties (and, in the code, the ridge) — doubled -/
theorem expectile_half_is_linear_double_lam (n m : Nat) (B : Nat → Nat → α) (w : Nat → α)
    (A : Nat → Nat → α) (y beta : Nat → α) :
    ExpectileFixedPoint (1 / 2) n m B w A y beta
      ↔ NormalEq n m B w (fun j k => 2 * A j k) y beta := by
  unfold ExpectileFixedPoint NormalEq
  have hw : expWeight (1 / 2 : α) w y (linPred m B beta) = fun i => w i * (1 / 2) := by
    funext i; simp only [expWeight, asym_half]
  rw [hw]
  have hL : ∀ j, sumTo m (fun k => (gramW n B w j k + 2 * A j k) * beta k)
      = 2 * sumTo m (fun k => (gramW n B (fun i => w i * (1 / 2)) j k + A j k) * beta k) := by
    intro j
    simp only [sumTo_eq]
    rw [mul_sum]
    apply sum_congr rfl; intro k _
    have : gramW n B w j k = 2 * gramW n B (fun i => w i * (1 / 2)) j k := by
      simp only [gramW, sumTo_eq, mul_sum]; apply sum_congr rfl; intro i _; ring
    rw [this]; ring
  have hR : ∀ j, rhsW n B w y j = 2 * rhsW n B (fun i => w i * (1 / 2)) y j := by
    intro j
    simp only [rhsW, sumTo_eq, mul_sum]
    apply sum_congr rfl; intro i _; ring
  constructor
  · intro h j hj; rw [hL, hR, h j hj]
  · intro h j hj
    have := h j hj
    rw [hL, hR] at this
    exact mul_left_cancel₀ (two_ne_zero) this

/-! ### `fit_quantile`: the binary search -/

omit [IsStrictOrderedRing α] in
/-- argument rejection: `ValueError` exactly when `quantile ∉ (0,1)` or `tol ≤ 0` or `max_iter ≤ 0` -/
theorem fitQuantile_rejects (ratio : Nat → α → α) (q tol : α) (maxIter : Int) (e0 : α) :
    fitQuantile ratio q tol maxIter e0 = none ↔ (q ≤ 0 ∨ 1 ≤ q ∨ tol ≤ 0 ∨ maxIter ≤ 0) := by
  unfold fitQuantile argsOk
  by_cases h1 : q ≤ 0 ∨ (1 : α) ≤ q
  · rw [if_pos h1]; simp only [Bool.false_eq_true, if_false, true_iff]
    rcases h1 with h | h
    · exact Or.inl h
    · exact Or.inr (Or.inl h)
  · rw [if_neg h1]
    push Not at h1
    by_cases h2 : tol ≤ 0
    · rw [if_pos h2]; simp only [Bool.false_eq_true, if_false, true_iff]; exact Or.inr (Or.inr (Or.inl h2))
    · rw [if_neg h2]
      by_cases h3 : maxIter ≤ 0
      · rw [if_pos h3]; simp only [Bool.false_eq_true, if_false, true_iff]; exact Or.inr (Or.inr (Or.inr h3))
      · rw [if_neg h3]
        simp only [if_true, reduceCtorEq, false_iff]
        push Not
        exact ⟨h1.1, h1.2, not_le.mp h2, not_le.mp h3⟩

/-- the bracket invariant `0 ≤ min_ < expectile < max_ ≤ 1` holds initially (for a starting expectile
in `(0,1)`) and after every iteration of the loop -/
theorem bisection_invariant (ratio : Nat → α → α) (q tol : α) (fuel : Nat) (e0 : α)
    (h0 : 0 < e0) (h1 : e0 < 1) :
    Inv (bisectLoop ratio q tol fuel { lo := 0, hi := 1, e := e0, nIter := 0 }).1 :=
  bisectLoop_inv ratio q tol fuel _ ⟨le_refl 0, h0, h1, le_refl 1⟩

/-- one iteration preserves the invariant -/
theorem step_preserves_invariant (q tol r : α) (s s' : BState α) (hI : Inv s)
    (h : bisectStep q tol r s = some s') : Inv s' :=
  bisectStep_inv q tol r s s' hI h

/-- each step moves the expectile in the direction that reduces the gap: too few targets below the
prediction (`ratio < quantile`) ⇒ the expectile goes up, to the midpoint of `(expectile, max_)`;
otherwise it goes down, to the midpoint of `(min_, expectile)`; and the bracket strictly shrinks -/
theorem step_moves_toward_target (q tol r : α) (s s' : BState α) (hI : Inv s)
    (h : bisectStep q tol r s = some s') :
    (r < q → s.e < s'.e ∧ s'.e < s.hi) ∧ (¬ r < q → s'.e < s.e ∧ s.lo < s'.e) ∧
    s'.hi - s'.lo < s.hi - s.lo := by
  obtain ⟨_, h1, h2, _⟩ := hI
  obtain ⟨_, _, hlt, hge⟩ := bisectStep_some q tol r s s' h
  refine ⟨fun hr => ?_, fun hr => ?_, ?_⟩
  · obtain ⟨_, _, e3⟩ := hlt hr
    rw [e3]; exact midpoint_between s.e s.hi h2
  · obtain ⟨_, _, e3⟩ := hge hr
    rw [e3]; exact ⟨(midpoint_between s.lo s.e h1).2, (midpoint_between s.lo s.e h1).1⟩
  · by_cases hr : r < q
    · obtain ⟨e1, e2, _⟩ := hlt hr; rw [e1, e2]; linarith
    · obtain ⟨e1, e2, _⟩ := hge hr; rw [e1, e2]; linarith

/-- every expectile the search sets (and fits) lies strictly inside `(0,1)` -/
theorem strictly_inside (ratio : Nat → α → α) (q tol : α) (fuel : Nat) (e0 : α)
    (h0 : 0 < e0) (h1 : e0 < 1) :
    ∀ e ∈ bisectTrace ratio q tol fuel { lo := 0, hi := 1, e := e0, nIter := 0 }, 0 < e ∧ e < 1 :=
  bisectTrace_inside ratio q tol fuel _ ⟨le_refl 0, h0, h1, le_refl 1⟩

/-- the search terminates (structural recursion on the fuel `max_iter − n_iter`) having re-fitted at most
`max_iter` times; the number of re-fits is the final `n_iter` -/
theorem terminates_within_max_iter (ratio : Nat → α → α) (q tol : α) (fuel : Nat) (e0 : α) :
    (bisectLoop ratio q tol fuel { lo := 0, hi := 1, e := e0, nIter := 0 }).1.nIter ≤ fuel ∧
    (bisectTrace ratio q tol fuel { lo := 0, hi := 1, e := e0, nIter := 0 }).length
      = (bisectLoop ratio q tol fuel { lo := 0, hi := 1, e := e0, nIter := 0 }).1.nIter := by
  have h := bisectLoop_nIter_le ratio q tol fuel { lo := 0, hi := 1, e := e0, nIter := 0 }
  have l := bisectTrace_length ratio q tol fuel { lo := 0, hi := 1, e := e0, nIter := 0 }
  simp only [Nat.zero_add] at h l
  exact ⟨h.2, l⟩

/-- **post-condition of `fit_quantile`.**  For valid arguments and a starting expectile in `(0,1)` the call
returns; the returned model's expectile is strictly inside `(0,1)`; and either the loop left through
`break`, in which case the ratio of the *returned* model is within `tol` of the quantile, or it used
all `max_iter` steps. -/
theorem fitQuantile_post (ratio : Nat → α → α) (q tol : α) (maxIter : Int) (e0 : α)
    (hq0 : 0 < q) (hq1 : q < 1) (htol : 0 < tol) (hmi : 0 < maxIter) (h0 : 0 < e0) (h1 : e0 < 1) :
    ∃ res, fitQuantile ratio q tol maxIter e0 = some res ∧
      (0 < res.1.e ∧ res.1.e < 1) ∧
      res.1.nIter ≤ maxIter.toNat ∧
      ((res.2 = true ∧ |ratio res.1.nIter res.1.e - q| ≤ tol) ∨
       (res.2 = false ∧ res.1.nIter = maxIter.toNat)) := by
  have hne : ¬ (fitQuantile ratio q tol maxIter e0 = none) := by
    rw [fitQuantile_rejects]; push Not; exact ⟨hq0, hq1, htol, hmi⟩
  have hdef : fitQuantile ratio q tol maxIter e0
      = some (bisectLoop ratio q tol maxIter.toNat { lo := 0, hi := 1, e := e0, nIter := 0 }) := by
    unfold fitQuantile at hne ⊢
    by_cases ha : argsOk q tol maxIter = true
    · rw [if_pos ha]
    · rw [if_neg ha] at hne; exact absurd rfl hne
  refine ⟨_, hdef, ?_, ?_, ?_⟩
  · have hI := bisection_invariant ratio q tol maxIter.toNat e0 h0 h1
    exact ⟨lt_of_le_of_lt hI.1 hI.2.1, lt_of_lt_of_le hI.2.2.1 hI.2.2.2⟩
  · exact (terminates_within_max_iter ratio q tol maxIter.toNat e0).1
  · have hp := bisectLoop_post ratio q tol maxIter.toNat { lo := 0, hi := 1, e := e0, nIter := 0 }
    cases hb : (bisectLoop ratio q tol maxIter.toNat { lo := 0, hi := 1, e := e0, nIter := 0 }).2 with
    | true => exact Or.inl ⟨rfl, (withinTol_iff _ _ _).mp (hp.1 hb)⟩
    | false => exact Or.inr ⟨rfl, by simpa using hp.2 hb⟩

/-! ### `fit_quantile` forwards its keywords (the sample weights) to *every* fit

The theorems above treat "set the expectile, re-fit, predict, count" as an oracle `ratio k e`.  The ones below are about
`fitQuantileW fit ratio kw …`, where the fit is a function **of the keywords `fit_quantile` forwards to `fit`** (`kw` =
the sample weights) and of the expectile: they say which model is returned — the weighted fit at the reported
expectile — so that the balance property applies to it *with the weights that were passed*. -/

omit [IsStrictOrderedRing α] in
/-- argument rejection is the same whatever is fitted -/
theorem fitQuantileW_rejects {κ μ : Type} (fit : κ → α → μ) (ratio : μ → α) (kw : κ) (q tol : α)
    (maxIter : Int) (e0 : α) (pre : Option μ) :
    fitQuantileW fit ratio kw q tol maxIter e0 pre = none ↔ (q ≤ 0 ∨ 1 ≤ q ∨ tol ≤ 0 ∨ maxIter ≤ 0) := by
  have h := fitQuantile_rejects (fun _ _ => (0 : α)) q tol maxIter e0
  unfold fitQuantile at h
  unfold fitQuantileW
  by_cases ha : argsOk q tol maxIter = true
  · rw [if_pos ha] at h ⊢
    exact ⟨fun hh => absurd hh (by simp), fun hh => absurd (h.mpr hh) (by simp)⟩
  · rw [if_neg ha] at h ⊢
    exact ⟨fun _ => h.mp rfl, fun _ => rfl⟩

/-- every re-fit of the search is `fit kw e` — the fit with the keywords that were passed to `fit_quantile`, not a fit
with some of them dropped — at an expectile strictly inside `(0,1)`; and there are at most `max_iter` of them -/
theorem every_refit_uses_forwarded_keywords {κ μ : Type} (fit : κ → α → μ) (ratio : μ → α) (kw : κ)
    (q tol : α) (fuel : Nat) (e0 : α) (start : μ) (h0 : 0 < e0) (h1 : e0 < 1) :
    (∀ em ∈ searchTrace fit ratio kw q tol fuel { b := { lo := 0, hi := 1, e := e0, nIter := 0 }, model := start },
        em.2 = fit kw em.1 ∧ 0 < em.1 ∧ em.1 < 1) ∧
    (searchTrace fit ratio kw q tol fuel { b := { lo := 0, hi := 1, e := e0, nIter := 0 }, model := start }).length
      ≤ fuel := by
  refine ⟨searchTrace_mem fit ratio kw q tol fuel _ ⟨le_refl 0, h0, h1, le_refl 1⟩, ?_⟩
  have l := searchTrace_length fit ratio kw q tol fuel
    { b := { lo := 0, hi := 1, e := e0, nIter := 0 }, model := start }
  have n := (searchLoop_nIter_le fit ratio kw q tol fuel
    { b := { lo := 0, hi := 1, e := e0, nIter := 0 }, model := start }).2
  simp only [Nat.zero_add] at l n
  omega

/-- **post-condition of `fit_quantile`, with the returned model identified.**  For valid arguments and a starting
expectile in `(0,1)` the call returns a state whose expectile is strictly inside `(0,1)`, after at most `max_iter`
re-fits; either the ratio of the *returned model* is within `tol` of the quantile or all `max_iter` steps were used;
and the returned model is the start model (`n_iter = 0`, expectile unchanged: the already fitted model, or the first fit
`fit kw e0`) or else `fit kw expectile` — the fit **with the forwarded keywords** at the reported expectile. -/
theorem fitQuantileW_post {κ μ : Type} (fit : κ → α → μ) (ratio : μ → α) (kw : κ) (q tol : α)
    (maxIter : Int) (e0 : α) (pre : Option μ)
    (hq0 : 0 < q) (hq1 : q < 1) (htol : 0 < tol) (hmi : 0 < maxIter) (h0 : 0 < e0) (h1 : e0 < 1) :
    ∃ res, fitQuantileW fit ratio kw q tol maxIter e0 pre = some res ∧
      (0 < res.1.b.e ∧ res.1.b.e < 1) ∧
      res.1.b.nIter ≤ maxIter.toNat ∧
      ((res.2 = true ∧ |ratio res.1.model - q| ≤ tol) ∨
       (res.2 = false ∧ res.1.b.nIter = maxIter.toNat)) ∧
      ((res.1.b.nIter = 0 ∧ res.1.b.e = e0 ∧ res.1.model = searchStart fit kw e0 pre) ∨
       (0 < res.1.b.nIter ∧ res.1.model = fit kw res.1.b.e)) := by
  have hne : ¬ (fitQuantileW fit ratio kw q tol maxIter e0 pre = none) := by
    rw [fitQuantileW_rejects]; push Not; exact ⟨hq0, hq1, htol, hmi⟩
  have hdef : fitQuantileW fit ratio kw q tol maxIter e0 pre
      = some (searchLoop fit ratio kw q tol maxIter.toNat
          { b := { lo := 0, hi := 1, e := e0, nIter := 0 }, model := searchStart fit kw e0 pre }) := by
    unfold fitQuantileW at hne ⊢
    by_cases ha : argsOk q tol maxIter = true
    · rw [if_pos ha]
    · rw [if_neg ha] at hne; exact absurd rfl hne
  refine ⟨_, hdef, ?_, ?_, ?_, ?_⟩
  · have hI := searchLoop_inv fit ratio kw q tol maxIter.toNat
      { b := { lo := 0, hi := 1, e := e0, nIter := 0 }, model := searchStart fit kw e0 pre }
      ⟨le_refl 0, h0, h1, le_refl 1⟩
    exact ⟨lt_of_le_of_lt hI.1 hI.2.1, lt_of_lt_of_le hI.2.2.1 hI.2.2.2⟩
  · have h := (searchLoop_nIter_le fit ratio kw q tol maxIter.toNat
      { b := { lo := 0, hi := 1, e := e0, nIter := 0 }, model := searchStart fit kw e0 pre }).2
    simpa using h
  · have hp := searchLoop_post fit ratio kw q tol maxIter.toNat
      { b := { lo := 0, hi := 1, e := e0, nIter := 0 }, model := searchStart fit kw e0 pre }
    cases hb : (searchLoop fit ratio kw q tol maxIter.toNat
      { b := { lo := 0, hi := 1, e := e0, nIter := 0 }, model := searchStart fit kw e0 pre }).2 with
    | true => exact Or.inl ⟨rfl, (withinTol_iff _ _ _).mp (hp.1 hb)⟩
    | false => exact Or.inr ⟨rfl, by simpa using hp.2 hb⟩
  · rcases searchLoop_model fit ratio kw q tol maxIter.toNat
      { b := { lo := 0, hi := 1, e := e0, nIter := 0 }, model := searchStart fit kw e0 pre } with h | h
    · left; rw [h.2]; exact ⟨rfl, rfl, rfl⟩
    · right; exact ⟨by simpa using h.1, h.2⟩

/-- **the model returned by `fit_quantile(…, weights = w)` balances the `w`-weighted residuals at the expectile it
reports.**  Models are coefficient vectors, the forwarded keyword is the weight vector `w`.  If `fit w e` is a converged
ExpectileGAM fit of the `w`-weighted data for every `e ∈ (0,1)` (and so is an already fitted model the search may start
from), then the returned `β` is a fixed point of the `w`-weighted iteration at the returned expectile `τ`, hence
`τ Σ_{r>0} wᵢ rᵢ − (1−τ) Σ_{r≤0} wᵢ |rᵢ| = A_{j0 j0} β_{j0}` with **these** weights. -/
theorem fitQuantileW_returns_weighted_expectile_fit (n m : Nat) (B : Nat → Nat → α) (A : Nat → Nat → α)
    (y : Nat → α) (j0 : Nat) (hj : j0 < m) (hB : ∀ i < n, B i j0 = 1) (hA : ∀ k < m, k ≠ j0 → A j0 k = 0)
    (fit : (Nat → α) → α → (Nat → α)) (ratio : (Nat → α) → α) (w : Nat → α) (q tol : α) (maxIter : Int)
    (e0 : α) (pre : Option (Nat → α))
    (hq0 : 0 < q) (hq1 : q < 1) (htol : 0 < tol) (hmi : 0 < maxIter) (h0 : 0 < e0) (h1 : e0 < 1)
    (hfit : ∀ e, 0 < e → e < 1 → ExpectileFixedPoint e n m B w A y (fit w e))
    (hpre : ∀ b, pre = some b → ExpectileFixedPoint e0 n m B w A y b) :
    ∃ res, fitQuantileW fit ratio w q tol maxIter e0 pre = some res ∧
      ExpectileFixedPoint res.1.b.e n m B w A y res.1.model ∧
      balance res.1.b.e n w y (linPred m B res.1.model) = A j0 j0 * res.1.model j0 := by
  obtain ⟨res, hres, hin, _, _, hmodel⟩ :=
    fitQuantileW_post fit ratio w q tol maxIter e0 pre hq0 hq1 htol hmi h0 h1
  have hfp : ExpectileFixedPoint res.1.b.e n m B w A y res.1.model := by
    rcases hmodel with ⟨_, he, hm⟩ | ⟨_, hm⟩
    · rw [he, hm]
      cases pre with
      | none => exact hfit e0 h0 h1
      | some b => exact hpre b rfl
    · rw [hm]; exact hfit _ hin.1 hin.2
  exact ⟨res, hres, hfp, expectile_balance_defect _ n m B w A y _ j0 hj hB hA hfp⟩

/-! ### non-vacuity -/

/-- the trace of the docstring example: quantile 0.9, tol 0.01, start 0.5, observed ratios
0.475, 0.625, 0.75, 0.8, 0.8625, 0.9 → expectiles 3/4, 7/8, 15/16, 31/32, 63/64, converged after 5 re-fits -/
example : bisectTrace (α := Rat) (fun k _ => [19/40, 5/8, 3/4, 4/5, 69/80, 9/10].getD k 0) (9/10) (1/100) 20
    { lo := 0, hi := 1, e := 1/2, nIter := 0 } = [3/4, 7/8, 15/16, 31/32, 63/64] := by decide +kernel

/-- a two-point sample `y = (0, 1)`, unit weights, intercept only, no ridge: `β = τ` is a fixed point for
`τ = 1/4` and the balance `¼·(1−¼) = ¾·¼` holds -/
example : ExpectileFixedPoint (1/4 : ℚ) 2 1 (fun _ _ => 1) (fun _ => 1) (fun _ _ => 0)
    (fun i => (i : ℚ)) (fun _ => 1/4) := by
  intro j hj
  have : j = 0 := by omega
  subst this
  norm_num [gramW, rhsW, sumTo, expWeight, asym, linPred]

example : fitQuantile (α := ℚ) (fun _ _ => 0) 1 (1/100) 20 (1/2) = none := by decide +kernel

/-- the search on an intercept-only model, `y = (0,1,2,3,4)`, no ridge, quantile 3/5, start ½: with the weights
`w = (9,1,1,1,1)` forwarded to every fit the search re-fits twice (expectiles ¾, ⅞) and returns the coefficient
`52/25`, the `w`-weighted ⅞-expectile; the same call with unit weights re-fits once and returns `8/3` — a re-fit that
drops the keyword produces a different trace and a different returned model -/
example : (fitQuantileW (α := ℚ) (interceptModelFit 0 5 (fun i => (i : ℚ)) 20 0) (interceptRatio 5 (fun i => (i : ℚ)))
      (fun i => if i = 0 then 9 else 1) (3/5) (1/100) 20 (1/2) none).map (fun r => (r.1.b.e, r.1.b.nIter, r.1.model.1))
    = some (7/8, 2, 52/25) := by decide +kernel

example : (fitQuantileW (α := ℚ) (interceptModelFit 0 5 (fun i => (i : ℚ)) 20 0) (interceptRatio 5 (fun i => (i : ℚ)))
      (fun _ => 1) (3/5) (1/100) 20 (1/2) none).map (fun r => (r.1.b.e, r.1.b.nIter, r.1.model.1))
    = some (3/4, 1, 8/3) := by decide +kernel

/-- and `52/25` does balance the weighted residuals at ⅞: `⅞·(1·(3−52/25) + 1·(4−52/25)) = ⅛·(9·52/25 + 27/25 + 2/25)` -/
example : balance (7/8 : ℚ) 5 (fun i => if i = 0 then 9 else 1) (fun i => (i : ℚ)) (fun _ => 52/25) = 0 := by
  decide +kernel

/-! ### tie to the source by translation of the formulas (`gen_formula_*`)

`Gen/Formulas.lean` is regenerated on every run from the abstract syntax tree of `pygam/pygam.py`: `ExpectileGAM._W`, one
diagonal entry, with `self.link.gradient(·, self.distribution)`, `self.distribution.V` as function parameters and
`self.expectile` as a parameter; `(y > mu) * e + (y <= mu) * (1 - e)` is translated with the Booleans as `0/1`. -/
section gen_formulas
set_option linter.unusedSectionVars false
variable [HasLogSqrt α]

/-- `ExpectileGAM._W` is `GAM._W` times the root of the model's asymmetric weight `asym` (`τ` where `y > μ`, `1 - τ`
where `y ≤ μ`): the two masks of the source are complementary.  No property of the square root is used: this holds for
every `HasLogSqrt` instance over a linearly ordered field. -/
theorem gen_formula_W_expectile_asym (g V : α → α) (τ mu w y : α) :
    Gen.W_ExpectileGAM g V τ mu w y = Gen.W_GAM g V mu w y * HasLogSqrt.sqrt (asym τ y mu) := by
  unfold Gen.W_ExpectileGAM Gen.W_GAM asym
  by_cases h : mu < y
  · have h' : ¬ y ≤ mu := not_le.mpr h
    simp [h, h']
  · have h' : y ≤ mu := not_lt.mp h
    simp [h, h']

/-- `ExpectileGAM._W` is the square root of `weights · asym / (g'(μ)² V(μ))`.  Up to field identities and the two laws
of the square root stated as hypotheses (`sqrt (1/x) = 1/sqrt x`; `sqrt (a b) = sqrt a · sqrt b` for `b ≥ 0`), for an
expectile in `[0, 1]` (the constructor enforces `(0, 1)`); `gen_formula_W_expectile_real` discharges them for `ℝ`. -/
theorem gen_formula_W_expectile
    (hinv : ∀ x : α, HasLogSqrt.sqrt (1 / x) = 1 / HasLogSqrt.sqrt x)
    (hmul : ∀ a b : α, 0 ≤ b → HasLogSqrt.sqrt (a * b) = HasLogSqrt.sqrt a * HasLogSqrt.sqrt b)
    (g V : α → α) (τ mu w y : α) (h0 : 0 ≤ τ) (h1 : τ ≤ 1) :
    Gen.W_ExpectileGAM g V τ mu w y = HasLogSqrt.sqrt (w * asym τ y mu / (g mu * g mu * V mu)) := by
  have ha : 0 ≤ asym τ y mu := by
    unfold asym; split
    · exact h0
    · linarith
  rw [gen_formula_W_expectile_asym, Gen.W_GAM, ← hinv, ← hmul _ _ ha]
  congr 1
  simp only [mul_inv_rev, inv_inv, div_eq_mul_inv]
  ring

/-- Normal distribution, identity link (`gradient = 1`, `V = 1`, what `ExpectileGAM` fixes): the diagonal of `_W` is the
root of the model's `expWeight` -/
theorem gen_formula_W_expectile_normal
    (hinv : ∀ x : α, HasLogSqrt.sqrt (1 / x) = 1 / HasLogSqrt.sqrt x)
    (hmul : ∀ a b : α, 0 ≤ b → HasLogSqrt.sqrt (a * b) = HasLogSqrt.sqrt a * HasLogSqrt.sqrt b)
    (τ : α) (h0 : 0 ≤ τ) (h1 : τ ≤ 1) (w y mu : Nat → α) (i : Nat) :
    Gen.W_ExpectileGAM (fun _ => 1) (fun _ => 1) τ (mu i) (w i) (y i) = HasLogSqrt.sqrt (expWeight τ w y mu i) := by
  rw [gen_formula_W_expectile hinv hmul _ _ _ _ _ _ h0 h1]
  simp [expWeight]

/-- over `ℝ` (`Real.sqrt`) both laws hold, so the tie is unconditional there -/
theorem gen_formula_W_expectile_real (τ : ℝ) (h0 : 0 ≤ τ) (h1 : τ ≤ 1) (w y mu : Nat → ℝ) (i : Nat) :
    Gen.W_ExpectileGAM (fun _ => 1) (fun _ => 1) τ (mu i) (w i) (y i) = Real.sqrt (expWeight τ w y mu i) :=
  gen_formula_W_expectile_normal (fun x => by simp [one_div, Real.sqrt_inv])
    (fun a b hb => by simpa using Real.sqrt_mul' a hb) τ h0 h1 w y mu i

end gen_formulas

/-! ### tie to the source by translation of the decision logic (`gen_decision_*`)

`Gen/Decisions.lean` is regenerated on every run from the abstract syntax tree of `pygam/pygam.py`: `Gen.within_tol` is the
helper `_within_tol(a, b, tol) = np.abs(a - b) <= tol` nested in `ExpectileGAM.fit_quantile` (the stopping test of the
search), `np.abs(x)` written `if x < 0 then -x else x`. -/
section gen_decisions

/-- `_within_tol` is the model's `withinTol` (which writes `0 - d` for `-d`): equal over every linearly ordered field -/
theorem gen_decision_within_tol (a b tol : α) : Gen.within_tol a b tol = withinTol a b tol := by
  unfold Gen.within_tol withinTol
  by_cases h : a - b < 0 <;> by_cases h2 : a - b ≤ tol <;> simp [h, h2]

/-- the range check at the head of `ExpectileGAM._validate_params` accepts exactly the model's `validExpectile`
(strictly inside `(0, 1)`), rejects everything else with a `ValueError`, and hands the accepted value on unchanged -/
theorem gen_decision_expectile_range (e : α) :
    Gen.expectile_range_check e = if validExpectile e then .ok e else .error "ValueError" := by
  unfold Gen.expectile_range_check validExpectile
  by_cases h1 : (1:α) ≤ e <;> by_cases h0 : e ≤ 0 <;> simp [h1, h0]

/-- the argument checks at the head of `fit_quantile` are the model's `argsOk` (with the iteration budget an integer):
`quantile ∉ (0, 1)`, `tol ≤ 0` or `max_iter ≤ 0` raise `ValueError`, in that order; otherwise the quantile is accepted -/
theorem gen_decision_fit_quantile_checks (q tol : α) (maxIter : Int) :
    Gen.fit_quantile_checks q (maxIter : α) tol = if argsOk q tol maxIter then .ok q else .error "ValueError" := by
  unfold Gen.fit_quantile_checks argsOk
  have hc : ((maxIter : α) ≤ 0) ↔ maxIter ≤ 0 := by exact_mod_cast Iff.rfl
  by_cases h1 : q ≤ 0 ∨ (1:α) ≤ q <;> by_cases h2 : tol ≤ 0 <;> by_cases h3 : maxIter ≤ 0 <;> simp [h1, h2, h3, hc]

end gen_decisions

end PyGam.C18
