import PyGam.Proofs.Sampling
import PyGam.Gen.Decisions
/-!
# C17 — posterior simulation draws from the stated sampling distributions

Property theorems only.  They are about `Model/Sampling.lean` (`sample` = `GAM.sample`), over `ℝ`, for **every**
fitted-model record `s : SampleIn ℝ` (any number of coefficients, any `coef_` / covariance / link / family / scale,
any query rows) and **every** triple of random generators `g : Gens ℝ` — the generators are oracle arguments, so each
statement holds for the generators' whole sample space.

What is proved is the *pipeline*: which mean / covariance / size reach `numpy.random.multivariate_normal`, where its
rows go, how the simulated means and responses are computed from them, shapes and rejections.  That the NumPy
generators then produce draws with the documented laws (`N(mean, cov)`, and the five response samplers with the
moments tabulated in `Model/Dists.lean: moments`, tied to `(mu, scale·V(mu))` by `C06.sampler_moments`) is the trusted
library contract; the harness adds seeded concentration checks as supporting evidence.
-/
open Finset
namespace PyGam.C17
open PyGam

variable (g : Gens ℝ) (s : SampleIn ℝ)

/-! ## rejections -/

/-- "an unknown quantity or a non-positive number of draws or bootstraps is rejected":
unknown `quantity` → `ValueError` (checked first, even on an unfitted model); unfitted model → `AttributeError`;
`n_bootstraps < 1` → `ValueError`; `n_draws < 1` → `ValueError` -/
theorem sample_rejects (fitted : Bool) (nBoot nDraws : Int) (dataOk : Bool) :
    sample g s none fitted nBoot nDraws dataOk = .error .valueError
    ∧ (∀ q, sample g s (some q) false nBoot nDraws dataOk = .error .attributeError)
    ∧ (∀ q, nBoot < 1 → sample g s (some q) true nBoot nDraws dataOk = .error .valueError)
    ∧ (∀ q, nDraws < 1 → sample g s (some q) true nBoot nDraws dataOk = .error .valueError) := by
  refine ⟨?_, ?_, ?_, ?_⟩
  · simp [sample, validateSample]
  · intro q; simp [sample, validateSample]
  · intro q h; simp [sample, validateSample, h]
  · intro q h
    by_cases h1 : nBoot < 1 <;> simp [sample, validateSample, h, h1]

/-- conversely the argument checks pass exactly for a known quantity, a fitted model, `n_bootstraps ≥ 1`,
`n_draws ≥ 1` (and valid data — property C11) -/
theorem sample_accepts_iff (quantity : Option Quantity) (fitted : Bool) (nBoot nDraws : Int) (dataOk : Bool) :
    validateSample quantity fitted nBoot nDraws dataOk = none ↔
      (quantity.isSome = true ∧ fitted = true ∧ 1 ≤ nBoot ∧ 1 ≤ nDraws ∧ dataOk = true) :=
  validateSample_eq_none_iff quantity fitted nBoot nDraws dataOk

/-- a call that passes the checks returns a value for `quantity ∈ {coef, mu}`; for `y` it returns a value unless the
family sampler has no scale to work with (`TypeError`; cannot happen after a fit, which always sets the scale) -/
theorem sample_ok_of_valid (q : Quantity) (nBoot nDraws : Int) (hb : 1 ≤ nBoot) (hd : 1 ≤ nDraws) :
    (q ≠ .y → ∃ v, sample g s (some q) true nBoot nDraws true = .ok v)
    ∧ (sample g s (some .y) true nBoot nDraws true ≠ .error .valueError
        ∧ sample g s (some .y) true nBoot nDraws true ≠ .error .attributeError) := by
  have hv : validateSample (some q) true nBoot nDraws true = none :=
    (validateSample_eq_none_iff _ _ _ _ _).mpr ⟨rfl, rfl, hb, hd, rfl⟩
  have hvy : validateSample (some Quantity.y) true nBoot nDraws true = none :=
    (validateSample_eq_none_iff _ _ _ _ _).mpr ⟨rfl, rfl, hb, hd, rfl⟩
  refine ⟨fun hq => ?_, ?_, ?_⟩
  · cases q
    · exact ⟨_, by simp only [sample, hv]; rfl⟩
    · exact ⟨_, by simp only [sample, hv]; rfl⟩
    · exact absurd rfl hq
  · simp only [sample, hvy]
    cases yDraws g s _ <;> simp
  · simp only [sample, hvy]
    cases yDraws g s _ <;> simp

/-! ## shapes -/

/-- "outputs have shape (n_draws, number of coefficients) or (n_draws, number of query rows)" — query rows = rows of
`sample_at_X` when given, else of `X` -/
theorem sample_shapes (quantity : Option Quantity) (fitted : Bool) (nBoot nDraws : Int) (dataOk : Bool)
    (v : List (List ℝ)) (h : sample g s quantity fitted nBoot nDraws dataOk = .ok v) :
    v.length = nDraws.toNat ∧
      ∀ r ∈ v, r.length = (if quantity = some .coef then s.m else (s.rowsAt.getD s.rowsX).length) := by
  unfold sample at h
  cases hv : validateSample quantity fitted nBoot nDraws dataOk with
  | some e => simp [hv] at h
  | none =>
    have hq : quantity.isSome = true := ((validateSample_eq_none_iff _ _ _ _ _).mp hv).1
    obtain ⟨q, rfl⟩ := Option.isSome_iff_exists.mp hq
    simp only [hv] at h
    cases q
    · simp only [Except.ok.injEq] at h
      subst h
      refine ⟨by simp [coefDraws], ?_⟩
      intro r hr
      simp only [List.mem_map] at hr
      obtain ⟨f, _, rfl⟩ := hr
      simp [vecToList]
    · simp only [Except.ok.injEq] at h
      subst h
      refine ⟨by simp [muDraws, coefDraws], ?_⟩
      intro r hr
      simp only [muDraws, List.mem_map] at hr
      obtain ⟨f, _, rfl⟩ := hr
      simp [SampleIn.rows]
    · cases hy : yDraws g s (muDraws s (coefDraws g (bootstraps s.coef s.cov s.extra) nDraws.toNat)) with
      | none => simp [hy] at h
      | some w =>
        simp only [hy, Except.ok.injEq] at h
        subst h
        unfold yDraws at hy
        have hlen := allSome_length _ _ hy
        have hent := allSome_eq_some _ _ hy
        refine ⟨by rw [hlen]; simp [muDraws, coefDraws], ?_⟩
        intro r hr
        have hr' : some r ∈ w.map some := List.mem_map.mpr ⟨r, hr, rfl⟩
        rw [← hent] at hr'
        obtain ⟨d, hd, hdr⟩ := List.getElem_of_mem hr'
        rw [List.getElem_mapIdx] at hdr
        have hl := allSome_length _ _ hdr
        rw [hl, List.length_mapIdx]
        simp [muDraws, SampleIn.rows]

/-! ## the coefficient draws -/

/-- "with a single bootstrap, simulated coefficient vectors are distributed as multivariate normal with mean the
fitted coefficients and covariance the reported coefficient covariance": with `n_bootstraps = 1` (no refits) and any
`choice` generator honouring its contract (`n` values `< 1`), the MVN generator is called exactly **once**, with
`mean = coef_`, `cov = statistics_['cov'] + √ε_mach·diag(statistics_['cov'])`, `size = n_draws`, and row `d` of the result is draw `d`. -/
theorem coef_draws_params (hextra : s.extra = []) (n : Nat)
    (hlen : (g.choice 1 n).length = n) (hlt : ∀ b ∈ g.choice 1 n, b < 1) :
    coefDraws g (bootstraps s.coef s.cov s.extra) n
        = (List.range n).map (fun d => g.mvn 0 ⟨s.coef, loadedCov s.cov⟩ n d)
    ∧ (0 < n → mvnCalls (g.choice 1 n) = [(0, n)]) := by
  have hidx := choice_one_eq_replicate _ n hlen hlt
  refine ⟨?_, fun hn => by rw [hidx]; exact mvnCalls_replicate n hn⟩
  simp only [coefDraws, bootstraps, hextra, List.length_singleton, hidx]
  apply List.map_congr_left
  intro d hd
  exact coefDraw_replicate g _ [] n d (List.mem_range.mp hd)

/-- the covariance handed over differs from the reported one on the diagonal only, by the *relative* amount
`√ε_mach = 2⁻²⁶` of each coefficient's own variance (`load_diagonal(cov, load=np.sqrt(EPS) * np.diag(cov))`), and
`(2⁻²⁶)² = 2⁻⁵²` is the machine epsilon of IEEE doubles -/
theorem loaded_cov (cov : Nat → Nat → ℝ) (i j : Nat) :
    loadedCov cov i j = cov i j + (if i = j then (1 / 2 ^ 26 : ℝ) * cov i i else 0)
    ∧ (sqrtEpsMach : ℝ) * sqrtEpsMach = 1 / 2 ^ 52 := by
  refine ⟨?_, sqrtEpsMach_sq_real⟩
  rw [loadedCov_apply, sqrtEpsMach_eq]

/-- the loading is equivariant under a diagonal rescaling of the coefficients (a change of units of the response:
`d i = c` for all `i`; of a feature: `d i = c` on the coefficients of its term): loading the rescaled covariance
`D·cov·D` gives the rescaled loaded covariance `D·(cov + √ε diag cov)·D` — so "covariance the reported coefficient
covariance" holds to the same relative accuracy `2⁻²⁶` in every system of units (an absolute load does not have this) -/
theorem loaded_cov_rescale (cov : Nat → Nat → ℝ) (d : Nat → ℝ) (i j : Nat) :
    loadedCov (fun a b => d a * cov a b * d b) i j = d i * loadedCov cov i j * d j := by
  rw [loadedCov_apply, loadedCov_apply]
  split
  · next h => subst h; ring
  · ring

/-- the loading keeps positive semi-definiteness: for a PSD reported covariance (its diagonal is then non-negative)
the loaded one is PSD, with `xᵀ S x = xᵀ cov x + √ε Σ_i x_i² cov_ii` — in particular the variance of every linear
functional of the draws exceeds the reported one by at most the relative loading term -/
theorem loaded_cov_psd (m : Nat) (cov : Nat → Nat → ℝ) (hpsd : ∀ x : Nat → ℝ, 0 ≤ quadForm m cov x) (x : Nat → ℝ) :
    quadForm m (loadedCov cov) x = quadForm m cov x + sqrtEpsMach * ∑ i ∈ range m, x i ^ 2 * cov i i
    ∧ (∀ i < m, 0 ≤ cov i i) ∧ quadForm m cov x ≤ quadForm m (loadedCov cov) x
    ∧ 0 ≤ quadForm m (loadedCov cov) x := by
  have hd := diag_nonneg_of_psd m cov hpsd
  have hs : 0 ≤ sqrtEpsMach * ∑ i ∈ range m, x i ^ 2 * cov i i :=
    mul_nonneg sqrtEpsMach_pos_real.le
      (sum_nonneg fun i hi => mul_nonneg (sq_nonneg _) (hd i (mem_range.mp hi)))
  have hq := quadForm_loadedCov m cov x
  have := hpsd x
  exact ⟨hq, hd, by linarith, by linarith⟩

/-- non-vacuity of `loaded_cov_psd`: a covariance on mixed scales, `diag(4, 1/4)`, is positive semi-definite -/
example : ∀ x : Nat → ℝ, 0 ≤ quadForm 2 (fun i j => if i = j then (if i = 0 then (4 : ℝ) else 1 / 4) else 0) x := by
  intro x
  simp only [quadForm, sumTo]
  norm_num
  nlinarith [sq_nonneg (x 0), sq_nonneg (x 1)]

/-- with several bootstraps every draw still comes from the MVN call made for the bootstrap the `choice` generator
assigned to it, with that bootstrap's `(coef, cov)` and `size` = the number of draws assigned to it -/
theorem coef_draw_source (boots : List (Boot ℝ)) (idx : List Nat) (d : Nat) (bt : Boot ℝ)
    (hb : boots[idx.getD d 0]? = some bt) :
    coefDraw g boots idx d
      = g.mvn ((firstAppearance idx).idxOf (idx.getD d 0)) bt (drawCount idx (idx.getD d 0))
          (((idx.take d).filter (· == idx.getD d 0)).length) := by
  simp only [coefDraw, hb]

/-- every bootstrap that was drawn gets exactly one MVN call (in order of first appearance) and the sizes of the calls
add up to the number of draws -/
theorem mvn_calls_account_for_all_draws (idx : List Nat) :
    ((mvnCalls idx).map (·.1)).Nodup ∧ (∀ b, b ∈ (mvnCalls idx).map (·.1) ↔ b ∈ idx)
    ∧ ((mvnCalls idx).map (·.2)).sum = idx.length := by
  have h1 : (mvnCalls idx).map (·.1) = firstAppearance idx := by
    simp only [mvnCalls, List.map_map]
    exact (List.map_congr_left (fun b _ => rfl)).trans (List.map_id _)
  rw [h1]
  exact ⟨nodup_firstAppearance idx, mem_firstAppearance idx, mvnCalls_sizes_sum idx⟩

/-! ## simulated means and responses -/

/-- "simulated means are the inverse link of the model matrix at the requested X applied to those draws":
entry `(d, i)` is `g⁻¹(Σ_j B(X)_{ij} · draw_{dj})` -/
theorem mu_draws_eq (nBoot nDraws : Int) (hb : 1 ≤ nBoot) (hd : 1 ≤ nDraws) :
    sample g s (some .mu) true nBoot nDraws true
      = .ok ((coefDraws g (bootstraps s.coef s.cov s.extra) nDraws.toNat).map (fun draw =>
          (s.rowsAt.getD s.rowsX).map (fun row =>
            linkInv s.link s.levels (∑ j ∈ range s.m, row j * draw j)))) := by
  have hv : validateSample (some Quantity.mu) true nBoot nDraws true = none :=
    (validateSample_eq_none_iff _ _ _ _ _).mpr ⟨rfl, rfl, hb, hd, rfl⟩
  simp only [sample, hv, muDraws, SampleIn.rows]
  congr 1
  apply List.map_congr_left; intro draw _
  apply List.map_congr_left; intro row _
  simp only [muDraw, dot, sumTo_eq]

/-- "simulated responses are draws from the model's distribution at those means": every entry `(d, i)` of the
result is the family's generator called with `samplerParams fam scale levels mu_{di}` — the arguments whose documented
moments are `(mu, scale·V(mu))` (`C06.sampler_moments`) -/
theorem y_draws_params (nBoot nDraws : Int) (v : List (List ℝ))
    (h : sample g s (some .y) true nBoot nDraws true = .ok v) :
    v.map (fun r => r.map some)
      = (muDraws s (coefDraws g (bootstraps s.coef s.cov s.extra) nDraws.toNat)).mapIdx (fun d row =>
          row.mapIdx (fun i mu => (samplerParams s.fam s.scale s.levels mu).map (g.resp d i))) := by
  unfold sample at h
  cases hv : validateSample (some Quantity.y) true nBoot nDraws true with
  | some e => simp [hv] at h
  | none =>
    simp only [hv] at h
    cases hy : yDraws g s (muDraws s (coefDraws g (bootstraps s.coef s.cov s.extra) nDraws.toNat)) with
    | none => simp [hy] at h
    | some w =>
      simp only [hy, Except.ok.injEq] at h
      subst h
      unfold yDraws at hy
      have hent := allSome_eq_some _ _ hy
      apply List.ext_getElem
      · simp [allSome_length _ _ hy]
      · intro d h1 h2
        simp only [List.getElem_map, List.getElem_mapIdx]
        have hd : d < (List.mapIdx (fun d row => allSome (List.mapIdx (fun i mu =>
            Option.map (g.resp d i) (samplerParams s.fam s.scale s.levels mu)) row))
              (muDraws s (coefDraws g (bootstraps s.coef s.cov s.extra) nDraws.toNat))).length := by
          simpa using h2
        have := congrArg (fun l => l[d]?) hent
        simp only [List.getElem?_map] at this
        rw [List.getElem?_eq_getElem hd, List.getElem_mapIdx, List.getElem?_eq_getElem (by simpa using h1)] at this
        simp only [Option.map_some] at this
        exact (allSome_eq_some _ _ (Option.some.inj this)).symm

/-- the response entries exist for every family as soon as the scale is set (what a fit always does) -/
theorem y_draws_defined (scale : ℝ) (hs : s.scale = some scale) (mus : List (List ℝ)) :
    ∃ v, yDraws g s mus = some v := by
  have key : ∀ (d : Nat) (row : List ℝ), ∃ r, allSome (row.mapIdx (fun i mu =>
      (samplerParams s.fam s.scale s.levels mu).map (g.resp d i))) = some r := by
    intro d row
    have hdef : ∀ mu, ∃ c, samplerParams s.fam s.scale s.levels mu = some c := by
      intro mu; rw [hs]; cases s.fam <;> simp [samplerParams]
    induction row using List.reverseRecOn with
    | nil => exact ⟨[], rfl⟩
    | append_singleton l a ih =>
      obtain ⟨r, hr⟩ := ih
      obtain ⟨c, hc⟩ := hdef a
      refine ⟨r ++ [g.resp d l.length c], ?_⟩
      rw [List.mapIdx_concat, hc]
      have happ : ∀ (l1 : List (Option ℝ)) (r1 : List ℝ) (x : ℝ), allSome l1 = some r1 →
          allSome (l1 ++ [some x]) = some (r1 ++ [x]) := by
        intro l1
        induction l1 with
        | nil => intro r1 x h; simp only [allSome, Option.some.injEq] at h; subst h; rfl
        | cons o l1 ih1 =>
          intro r1 x h
          cases o with
          | none => simp [allSome] at h
          | some a1 =>
            simp only [allSome, Option.map_eq_some_iff] at h
            obtain ⟨w, hw, rfl⟩ := h
            simp [allSome, ih1 w x hw]
      exact happ _ _ _ hr
  unfold yDraws
  induction mus using List.reverseRecOn with
  | nil => exact ⟨[], rfl⟩
  | append_singleton l a ih =>
    obtain ⟨r, hr⟩ := ih
    obtain ⟨ra, hra⟩ := key l.length a
    refine ⟨r ++ [ra], ?_⟩
    rw [List.mapIdx_concat, hra]
    have happ : ∀ (l1 : List (Option (List ℝ))) (r1 : List (List ℝ)) (x : List ℝ), allSome l1 = some r1 →
        allSome (l1 ++ [some x]) = some (r1 ++ [x]) := by
      intro l1
      induction l1 with
      | nil => intro r1 x h; simp only [allSome, Option.some.injEq] at h; subst h; rfl
      | cons o l1 ih1 =>
        intro r1 x h
        cases o with
        | none => simp [allSome] at h
        | some a1 =>
          simp only [allSome, Option.map_eq_some_iff] at h
          obtain ⟨w, hw, rfl⟩ := h
          simp [allSome, ih1 w x hw]
    exact happ _ _ _ hr

/-! ## histories of calls on one model object

"simulated means are the inverse link of the model matrix at the requested X applied to those draws" holds for **every**
call, whatever was called before on the same object: in `Model/Sampling.lean: runHistory` only `fit` changes what
`sample` reads, so the result of a call is the per-call function `sample` at the record of the latest fit and at the rows
the call itself supplies (the contents of `X` / `sample_at_X` when the call is made).  The harness stream
`sample.history` runs generated histories on the real object and compares each call with exactly this right-hand side. -/

theorem stateAfter_append (st : Option (FitRec ℝ)) (pre post : List (HistOp ℝ)) :
    stateAfter st (pre ++ post) = stateAfter (stateAfter st pre) post := by
  induction pre generalizing st with
  | nil => rfl
  | cons op pre ih => cases op <;> simp [stateAfter, ih]

theorem runHistory_append (st : Option (FitRec ℝ)) (pre post : List (HistOp ℝ)) :
    runHistory st (pre ++ post) = runHistory st pre ++ runHistory (stateAfter st pre) post := by
  induction pre generalizing st with
  | nil => rfl
  | cons op pre ih => cases op <;> simp [runHistory, stateAfter, ih]

/-- a `sample` call made after any history `pre` returns `sample` applied to the record of the latest `fit` in `pre`
(or to the initial state) and to the call's own arguments and rows — earlier `sample` / `predict` calls, and the array
objects they were given, play no role -/
theorem sample_stateless (st : Option (FitRec ℝ)) (pre : List (HistOp ℝ)) (c : SampleCall ℝ) :
    runHistory st (pre ++ [.sample c]) = runHistory st pre ++ [c.result (stateAfter st pre)] := by
  rw [runHistory_append]; rfl

/-- the state a call sees is determined by the `fit` operations alone -/
theorem stateAfter_filter_fit (st : Option (FitRec ℝ)) (ops : List (HistOp ℝ)) :
    stateAfter st ops = stateAfter st (ops.filter (fun op => match op with | .fit _ => true | _ => false)) := by
  induction ops generalizing st with
  | nil => rfl
  | cons op ops ih => cases op <;> simp [stateAfter, ih]

/-- in a history, a valid `quantity = 'mu'` call on an object whose latest fit left the record `r` returns
`g⁻¹(Σ_j B(X_now)_{ij} · draw_{dj})` with `B(X_now)` the rows supplied by **this** call and link / coefficients /
covariance those of `r` -/
theorem history_mu_eq (st : Option (FitRec ℝ)) (pre : List (HistOp ℝ)) (c : SampleCall ℝ) (r : FitRec ℝ)
    (hr : stateAfter st pre = some r) (hq : c.quantity = some .mu) (hb : 1 ≤ c.nBoot) (hd : 1 ≤ c.nDraws)
    (hok : c.dataOk = true) :
    (runHistory st (pre ++ [.sample c])).getLast?
      = some (.ok ((coefDraws c.g (bootstraps r.coef r.cov c.extra) c.nDraws.toNat).map (fun draw =>
          (c.rowsAt.getD c.rowsX).map (fun row => linkInv r.link r.levels (∑ j ∈ range r.m, row j * draw j))))) := by
  rw [sample_stateless, List.getLast?_append_of_ne_nil _ (by simp), List.getLast?_singleton, hr]
  simp only [SampleCall.result, SampleCall.input, hq, hok, Option.isSome_some]
  rw [mu_draws_eq _ _ c.nBoot c.nDraws hb hd]

/-! ## non-vacuity -/

/-- a generator triple meeting the `choice` contract, and a concrete run: one coefficient `3`, variance `1`, identity
link, one query row `2`, two draws from a "generator" returning `mean + p`: the means are `2·3`, `2·4` -/
example :
    let g : Gens ℝ := { choice := fun _ n => List.replicate n 0, mvn := fun _ bt _ p j => bt.coef j + p,
                        resp := fun _ _ _ => 0 }
    let s : SampleIn ℝ := { m := 1, coef := fun _ => 3, cov := fun _ _ => 1, link := .identity, fam := .normal,
                            levels := 1, scale := some 1, rowsX := [fun _ => 2], rowsAt := none, extra := [] }
    ((g.choice 1 2).length = 2 ∧ ∀ b ∈ g.choice 1 2, b < 1) ∧
    sample g s (some .mu) true 1 2 true = .ok [[6], [8]] := by
  refine ⟨⟨by simp, by simp⟩, ?_⟩
  rw [mu_draws_eq _ _ 1 2 (by norm_num) (by norm_num)]
  simp [coefDraws, bootstraps, coefDraw, linkInv, List.range, List.range.loop]
  norm_num

/-- a concrete history meeting the hypotheses of `history_mu_eq`: fit, a `mu` call at rows `[7]`, a predict, a refit
that changes the coefficient from 3 to 5, then a `mu` call at rows `[2]` — its result uses the coefficient of the refit
and the rows of this call: `2·5`, `2·6` -/
example :
    let g : Gens ℝ := { choice := fun _ n => List.replicate n 0, mvn := fun _ bt _ p j => bt.coef j + p,
                        resp := fun _ _ _ => 0 }
    let r1 : FitRec ℝ := { m := 1, coef := fun _ => 3, cov := fun _ _ => 1, link := .identity, fam := .normal,
                           levels := 1, scale := some 1 }
    let r2 : FitRec ℝ := { r1 with coef := fun _ => 5 }
    let c1 : SampleCall ℝ := { g := g, quantity := some .mu, nBoot := 1, nDraws := 2, dataOk := true,
                               rowsX := [fun _ => 7], rowsAt := none, extra := [] }
    let c2 : SampleCall ℝ := { c1 with rowsX := [fun _ => 2] }
    (runHistory none [.fit r1, .sample c1, .predict [], .fit r2, .sample c2]).getLast? = some (.ok [[10], [12]]) := by
  intro g r1 r2 c1 c2
  have h := history_mu_eq none [.fit r1, .sample c1, .predict [], .fit r2] c2 r2 rfl rfl (by norm_num) (by norm_num) rfl
  simp only [List.cons_append, List.nil_append] at h
  rw [h]
  simp [c2, c1, r2, r1, g, coefDraws, bootstraps, coefDraw, linkInv, List.range, List.range.loop]
  norm_num

/-! ### tie to the source by translation of the decision logic

`Gen.sample_coef_checks` is the run of `if …: raise …` statements at the head of `GAM._sample_coef`, translated from the
current source on every run (the unknown-`quantity` check sits in `sample` itself and the data checks are property C11). -/

/-- exception class names as the translator writes them -/
def errName : SampleErr → String
  | .valueError => "ValueError" | .attributeError => "AttributeError" | .typeError => "TypeError"

/-- the argument checks of the source are the model's `validateSample` for a known quantity and valid data: same
verdict, same exception class, same order (unfitted before `n_bootstraps` before `n_draws`) -/
theorem gen_decision_sample_checks (q : Quantity) (fitted : Bool) (nBoot nDraws : Int) :
    Gen.sample_coef_checks fitted nDraws nBoot
      = match validateSample (some q) fitted nBoot nDraws true with
        | none => .ok nDraws
        | some e => .error (errName e) := by
  unfold Gen.sample_coef_checks validateSample
  cases fitted <;> by_cases hb : nBoot < 1 <;> by_cases hd : nDraws < 1 <;> simp [hb, hd, errName]

end PyGam.C17
