import PyGam.Proofs.TermAlgebraParams
/-!
# C14 — term expressions, hyper-parameter plumbing and serialisation are faithful

Statements about the structural model `PyGam.TA` (`Model/TermAlgebra.lean`), which the driver executes against
`pygam/terms.py`, `pygam/core.py`, `pygam/pygam.py` on every run:

* **expressions** — `TermList(...)` / `+` flatten nested lists and keep the first term of every info key: the
  result does not depend on the association, preserves the order, has no duplicate key, loses no key, is idempotent;
* **plural attributes** — a value assigned to a plural name of a term list / tensor term is distributed over the
  (non-intercept) terms in order and reads back, flattened, exactly as assigned; a scalar is broadcast to the
  current size; a wrong length is a `ValueError`; validity is preserved (so histories of assignments compose);
* **info** — every term built by a constructor (any keyword values that pass validation: orders, sizes, bases,
  penalty lists, constraint lists, by-variables, custom edge knots, codings), every tensor term over such terms
  (with its by-variable and `verbose`) and every term list is rebuilt identically from its info; compiling the rebuilt term on the
  same data reproduces the compiled state (edge knots, number of categories) — hence the same columns, penalties and
  constraints, which are functions of that state;
* **parameters** — `get_params` reports exactly the public, non-excluded attributes; `set_params` writes the names it
  knows, ignores unknown and non-public names unless forced, reads back what it wrote, and
  `set_params(**get_params())` is the identity;
* **GAM keywords** — plural keywords are stored on the model, read back before `fit`, and are assigned to the term
  list (the same distribution as above) and deleted at `fit`; an assignment to a model that already has terms drops
  a stored keyword of that name, goes to the terms and reads back from them.

The behavioural half of the property (identical *matrices* from original / rebuilt / deep-copied / pickled terms) is an
oracle on the real code in `harness/props/c14.py`; here it is reduced to equality of the state those matrices are
computed from.
-/
namespace PyGam.C14
open PyGam.TA

/-! ## term expressions -/
section expressions
variable {τ κ : Type} [DecidableEq κ] (key : τ → κ)

/-- building a term list from a list argument is de-duplicating the concatenation -/
theorem mkList_eq (args : List (τ ⊕ List τ)) : mkList key args = keepNew key [] (flattenArgs args) := by
  unfold mkList; exact dedup_eq_keepNew key _

/-- **associativity**: `TermList(TermList(a, b), c) = TermList(a, TermList(b, c))` for terms or term lists `a b c`
(`a + b + c` does not depend on the bracketing) -/
theorem mkList_assoc (a b c : τ ⊕ List τ) :
    mkList key [.inr (mkList key [a, b]), c] = mkList key [a, .inr (mkList key [b, c])] := by
  have e1 : flattenArgs [Sum.inr (dedup key (flattenArgs [a, b])), c]
      = dedup key (flattenArgs [a, b]) ++ flattenArgs [c] := by
    simp [flattenArgs]
  have e2 : flattenArgs [a, Sum.inr (dedup key (flattenArgs [b, c]))]
      = flattenArgs [a] ++ dedup key (flattenArgs [b, c]) := by
    cases a <;> simp [flattenArgs]
  have e3 : flattenArgs [a, b] ++ flattenArgs [c] = flattenArgs [a] ++ flattenArgs [b, c] := by
    cases a <;> cases b <;> simp [flattenArgs]
  simp only [mkList]
  rw [e1, e2, dedup_append_left, dedup_append_right, e3]

/-- both bracketings are the flat list `TermList(a, b, c)` -/
theorem mkList_assoc_flat (a b c : τ ⊕ List τ) :
    mkList key [.inr (mkList key [a, b]), c] = mkList key [a, b, c] := by
  have e1 : flattenArgs [Sum.inr (dedup key (flattenArgs [a, b])), c]
      = dedup key (flattenArgs [a, b]) ++ flattenArgs [c] := by
    simp [flattenArgs]
  have e3 : flattenArgs [a, b] ++ flattenArgs [c] = flattenArgs [a, b, c] := by
    cases a <;> cases b <;> simp [flattenArgs]
  simp only [mkList]
  rw [e1, dedup_append_left, e3]

/-- **order**: the result is a sub-sequence of the flattened arguments -/
theorem mkList_order (args : List (τ ⊕ List τ)) : (mkList key args).Sublist (flattenArgs args) := by
  rw [mkList_eq]; exact keepNew_sublist key [] _

/-- **no duplicates**: the keys of the result are pairwise distinct -/
theorem mkList_nodup (args : List (τ ⊕ List τ)) : ((mkList key args).map key).Nodup := by
  rw [mkList_eq]; exact keepNew_nodup key [] _

/-- **only duplicates are dropped**: every key of an argument is still represented -/
theorem mkList_complete (args : List (τ ⊕ List τ)) :
    ∀ t ∈ flattenArgs args, ∃ u ∈ mkList key args, key u = key t := by
  intro t ht
  rw [mkList_eq]
  rcases keepNew_complete key [] (flattenArgs args) t ht with h | h
  · cases h
  · exact h

/-- **the first occurrence is kept**: the representative of a key is the first argument carrying it -/
theorem mkList_first (args : List (τ ⊕ List τ)) (k : κ) :
    (mkList key args).find? (fun u => decide (key u = k)) = (flattenArgs args).find? (fun u => decide (key u = k)) := by
  rw [mkList_eq]; exact keepNew_find key [] _ k (by simp)

/-- **idempotence**: `TermList(TermList(args…)) = TermList(args…)` -/
theorem mkList_idem (args : List (τ ⊕ List τ)) : mkList key [.inr (mkList key args)] = mkList key args := by
  unfold mkList
  simp only [flattenArgs, List.append_nil]
  exact dedup_idem key _

/-- a list whose keys are distinct is left alone -/
theorem mkList_fixed (l : List τ) (h : (l.map key).Nodup) : mkList key [.inr l] = l := by
  rw [mkList_eq]
  simp only [flattenArgs, List.append_nil]
  exact keepNew_of_nodup key [] l h (by simp)

end expressions

/-- `(a + b) + c = a + (b + c)` as term lists (terms *and* the list's own attributes) -/
theorem termList_add_assoc (a b c : Term ⊕ List Term) :
    TermList.add (.inr (TermList.add a b).terms) c = TermList.add a (.inr (TermList.add b c).terms) := by
  simp only [TermList.add, TermList.mk']
  rw [mkList_assoc Term.key a b c]

/-- non-vacuity / the documented quirk: `s(0) + s(0)` has one term, `s(0) + s(0, lam=2)` has two, the order is kept -/
example :
    okWith (do
        let a ← construct .spline [("feature", vint 0)]
        let b ← construct .spline [("feature", vint 0), ("lam", vint 2)]
        pure ((TermList.add (.inl (.atom a)) (.inl (.atom a))).terms.length,
              (TermList.add (.inl (.atom a)) (.inl (.atom b))).terms.length,
              (TermList.add (.inl (.atom b)) (.inr [.atom a, .atom b])).terms == [.atom b, .atom a]))
      (1, 2, true) = true := by decide +kernel

/-! ## plural attributes -/

/-- whatever a constructor returns is valid (a fixed point of `_validate_arguments`) -/
theorem constructed_valid (k : Kind) (kw : Dict) (a : Atom) (h : construct k kw = .ok a) : AtomValid a := by
  unfold construct at h
  simp only [bind, Except.bind] at h
  cases h1 : rawAtom k kw with
  | error e => simp [h1] at h
  | ok d1 =>
    simp only [h1] at h
    cases h2 : validateK k d1 with
    | error e => simp [h2] at h
    | ok d2 =>
      simp only [h2, Except.ok.injEq] at h
      subst h
      exact validateK_idem k d1 d2 h2

/-- the generic distribution loop (`for term in terms[::-1]: … value.pop() …`): under the per-term contract
"`setattr` + `_validate_arguments` stores the values it is handed", the values read back are the values given -/
theorem distribution_generic {τ : Type} (skip : τ → Bool) (arity : τ → Except Err Nat)
    (setOne : τ → Tree → Except Err τ) (get : τ → List Sc) (Inv : τ → Prop)
    (H : ∀ t v t', Inv t → skip t = false → arity t = .ok v.length → setOne t (packVals v) = .ok t' →
          get t' = v ∧ skip t' = false ∧ Inv t')
    (Hsize : ∀ t n, Inv t → skip t = false → arity t = .ok n → (get t).length = n)
    (ts : List τ) (hinv : ∀ t ∈ ts, Inv t) (value : Tree) (ts' : List τ)
    (h : setSeq skip arity setOne (collectN skip get ts).length value ts = .ok ts') :
    collectN skip get ts' = expected (collectN skip get ts).length value ∧ (∀ t ∈ ts', Inv t) :=
  setSeq_collect skip arity setOne get Inv H Hsize ts hinv value ts' h

/-- **round trip**: an iterable assigned to a plural name of a term list (valid terms; tensor terms and intercepts
included) reads back, flattened, exactly as assigned; validity is preserved -/
theorem plural_roundtrip (name : String) (hn : pluralNames.contains name = true) (ts : List Term)
    (hv : ∀ t ∈ ts, TermValid t) (l : List Tree) (ts' : List Term)
    (h : setPlural ts name (.node l) = .ok ts') :
    (getPlural ts' name).flat = flatL l ∧ (∀ t ∈ ts', TermValid t) :=
  setPlural_spec name hn ts hv (.node l) ts' h

/-- **broadcast**: a scalar is repeated for every value slot of every term -/
theorem plural_broadcast (name : String) (hn : pluralNames.contains name = true) (ts : List Term)
    (hv : ∀ t ∈ ts, TermValid t) (s : Sc) (ts' : List Term) (h : setPlural ts name (.leaf s) = .ok ts') :
    (getPlural ts' name).flat = List.replicate (getPlural ts name).flatSize s ∧ (∀ t ∈ ts', TermValid t) :=
  setPlural_spec name hn ts hv (.leaf s) ts' h

/-- assigning a scalar is assigning the list of that many copies -/
theorem plural_broadcast_eq (name : String) (ts : List Term) (s : Sc) :
    setPlural ts name (.leaf s)
      = setPlural ts name (.node (List.replicate (getPlural ts name).flatSize (.leaf s))) :=
  setSeq_broadcast _ _ _ _ s ts

/-- **wrong length**: an iterable whose flattened length differs from the current size is a `ValueError` -/
theorem plural_wrong_length (name : String) (ts : List Term) (l : List Tree)
    (h : (flatL l).length ≠ (getPlural ts name).flatSize) : setPlural ts name (.node l) = .error .value :=
  setSeq_wrong_length _ _ _ _ l ts h

/-- the same for the marginals of a tensor term (`te.lam = …`) -/
theorem tensor_plural_roundtrip (name : String) (ms : List Atom) (hv : ∀ m ∈ ms, AtomValid m) (value : Tree)
    (ms' : List Atom) (h : tensorSet ms name value = .ok ms') :
    (tensorGet ms' name).flat = expected (tensorGet ms name).flatSize value ∧ (∀ m ∈ ms', AtomValid m) :=
  tensorSet_spec name ms hv value ms' h

/-- one term: after `setattr(term, name, vals); term._validate_arguments()` the term holds `vals`
(this is where `lam` of length 1 is re-broadcast to `len(penalties)` and scalars become one-element lists) -/
theorem term_set_reads_back (name : String) (a : Atom) (hv : AtomValid a) (hk : a.kind ≠ .intercept)
    (v : List Sc) (a' : Atom) (har : a.arity name = .ok v.length) (hset : a.setOne name (packVals v) = .ok a') :
    (a'.getD name).flat = v ∧ a'.kind = a.kind ∧ AtomValid a' :=
  atom_setOne_spec name a hv hk v a' har hset

/-- non-vacuity: on `s(0) + l(1) + te(0, 1) + intercept` the assignment `lam = [1, 2, 3, 4]` succeeds and reads back
`[[1], [2], [[3], [4]]]`; `lam = [1, 2, 3]` is a `ValueError`; `n_splines = 5` is an `AttributeError` (the linear
term has no such attribute — mirrored; recorded known finding C14-plural-setter-attributeerror) -/
example :
    okWith (do
        let s0 ← construct .spline [("feature", vint 0)]
        let l1 ← construct .linear [("feature", vint 1)]
        let i ← construct .intercept []
        let t ← mkTensor [.feat (.int 0), .feat (.int 1)] vnone (vbool false) []
        let ts := [Term.atom s0, Term.atom l1, t, Term.atom i]
        let ts' ← setPlural ts "lam" (.node [.leaf (.int 1), .leaf (.int 2), .leaf (.int 3), .leaf (.int 4)])
        pure ((getPlural ts' "lam").flat,
              (match setPlural ts "lam" (.node [.leaf (.int 1), .leaf (.int 2), .leaf (.int 3)]) with
               | .error e => some e | .ok _ => none),
              (match setPlural ts "n_splines" (.leaf (.int 5)) with | .error e => some e | .ok _ => none)))
      ([.int 1, .int 2, .int 3, .int 4], some .value, some .attribute) = true := by decide +kernel

/-! ## info / build_from_info -/

/-- **every non-tensor term** built by a constructor is rebuilt identically from its info
(`dflt` = the class `build_from_info` is called on; custom `edge_knots`, `by`, lists of penalties … included) -/
theorem info_roundtrip_atom (dflt k : Kind) (kw : Dict) (a : Atom) (h : construct k kw = .ok a) :
    atomFromInfo dflt a.info = .ok a :=
  atomFromInfo_info dflt k kw a h

/-- the parameters alone rebuild the term: `cls(**term.get_params()) == term` -/
theorem params_rebuild_atom (k : Kind) (kw : Dict) (a : Atom) (h : construct k kw = .ok a) :
    construct k (getParams a.d false) = .ok a :=
  construct_roundtrip k kw a h

/-- **tensor terms** are rebuilt identically, *including the by-variable and `verbose`* -/
theorem info_roundtrip_tensor (args : List TeArg) (by_ vb : Val) (kw : List (String × Tree)) (d : Dict) (ms : List Atom)
    (h : mkTensor args by_ vb kw = .ok (.tensor d ms)) (hrt : ∀ m ∈ ms, RoundTrips m) :
    Term.fromInfo (Term.tensor d ms).info = .ok (.tensor d ms) :=
  tensor_roundtrip args by_ vb kw d ms h hrt

/-- **term lists**: the rebuilt list has the same terms in the same order
(terms that round-trip, distinct keys — which is what `TermList(...)` produces) -/
theorem info_roundtrip_list (l : TermList) (h : ∀ t ∈ l.terms, Term.fromInfo t.info = .ok t)
    (hn : (l.terms.map Term.key).Nodup) : (TermList.fromInfo l.info).map (·.terms) = .ok l.terms :=
  termList_roundtrip l h hn

/-- a list made by `TermList(...)` / `+` is rebuilt *identically* — terms, order and the list's `verbose` -/
theorem info_roundtrip_list_full (args : List (Term ⊕ List Term)) (v : Bool)
    (h : ∀ t ∈ (TermList.mk' args v).terms, Term.fromInfo t.info = .ok t) :
    TermList.fromInfo (TermList.mk' args v).info = .ok (TermList.mk' args v) :=
  termList_roundtrip_full args v h

/-- the key hypothesis of `info_roundtrip_list` holds for every list made by `TermList(...)` or `+` -/
theorem termList_keys_nodup (args : List (Term ⊕ List Term)) (v : Bool) :
    ((TermList.mk' args v).terms.map Term.key).Nodup :=
  mkList_nodup Term.key args

/-- `compile` (fit) is invisible in the info: only `edge_knots_` and a factor term's `n_splines` change -/
theorem compile_info_invariant (k : Kind) (kw : Dict) (a c : Atom) (data : List FeatData)
    (h : construct k kw = .ok a) (hc : compileAtom data a = .ok c) : c.info = a.info := by
  have hk := construct_kind k kw a h
  exact (compileAtom_info data a c (by
    intro hf
    rw [hk] at hf; subst hf
    exact construct_factor_exclude kw a h) hc).1

/-- **behavioural form**: the term rebuilt from the info of a compiled term, compiled on the same data, *is* the
compiled term — so every function of the compiled state (columns, penalties, constraints) agrees on any input -/
theorem info_roundtrip_compiled (dflt k : Kind) (kw : Dict) (a c : Atom) (data : List FeatData)
    (h : construct k kw = .ok a) (hc : compileAtom data a = .ok c) :
    ∃ a', atomFromInfo dflt c.info = .ok a' ∧ compileAtom data a' = .ok c :=
  rebuild_compiled dflt k kw a c data h hc

/-- the same for tensor terms over constructed marginals (with their by-variable) -/
theorem info_roundtrip_tensor_compiled (args : List TeArg) (by_ vb : Val) (kw : List (String × Tree)) (d : Dict)
    (ms : List Atom) (data : List FeatData) (c : Term)
    (h : mkTensor args by_ vb kw = .ok (.tensor d ms)) (hm : ∀ m ∈ ms, Constructed m)
    (hc : compileTerm data (.tensor d ms) = .ok c) :
    ∃ t', Term.fromInfo c.info = .ok t' ∧ compileTerm data t' = .ok c :=
  tensor_rebuild_compiled args by_ vb kw d ms data c h hm hc

/-- non-vacuity: a spline term with custom edge knots, two penalties and a by-variable, and a tensor term with a
by-variable and `verbose=True`, survive `build_from_info(info)` (the repaired defects) -/
example :
    okWith (do
        let a ← construct .spline [("feature", vint 1), ("edge_knots", .list [.flt (-1), .flt (5/2)]), ("by", vint 3),
                                   ("penalties", .list [.str "derivative", .str "l2"]), ("lam", .list [.int 1, .flt (1/2)])]
        let a' ← atomFromInfo .spline a.info
        let t ← mkTensor [.feat (.int 0), .term a] (vint 2) (vbool true) [("n_splines", .leaf (.int 5))]
        let t' ← Term.fromInfo t.info
        pure (a == a' && t == t' && dget a'.d "edge_knots_" == some (.list [.flt (-1), .flt (5/2)])))
      true = true := by decide +kernel

/-! ## get_params / set_params -/

/-- `get_params()` is exactly: attribute of the object, no leading / trailing underscore, not in `_exclude` -/
theorem getParams_filter (d : Dict) (p : String × Val) :
    p ∈ getParams d false ↔ p ∈ d ∧ isPub p.1 = true ∧ (excludeOf d).contains p.1 = false := by
  simp [getParams, List.mem_filter]

/-- `get_params(deep=True)` is the whole instance dictionary -/
theorem getParams_deep (d : Dict) : getParams d true = d := rfl

/-- a name reported by `get_params(deep)` is written -/
theorem params_set_known (d : Dict) (deep force : Bool) (k : String) (v : Tree) (x : Val) (hv : v.toVal? = some x)
    (hk : k ∈ dkeys (getParams d deep)) : setParamsD d deep force [(k, v)] = .ok (dset d k x) :=
  set_known d deep force k v x hv hk

/-- **unknown names are ignored** (no `force`): the object is unchanged -/
theorem params_unknown_ignored (d : Dict) (deep : Bool) (k : String) (v : Tree) (hk : dhas d k = false) :
    setParamsD d deep false [(k, v)] = .ok d :=
  set_unknown_ignored d deep k v hk

/-- names with a leading or trailing underscore (`_name`, `edge_knots_`, …) are ignored by the shallow, unforced call -/
theorem params_private_ignored (d : Dict) (k : String) (v : Tree) (hk : isPub k = false) :
    setParamsD d false false [(k, v)] = .ok d :=
  set_private_ignored d k v hk

/-- **forced**: any name is written -/
theorem params_forced (d : Dict) (deep : Bool) (k : String) (v : Tree) (x : Val) (hv : v.toVal? = some x) :
    setParamsD d deep true [(k, v)] = .ok (dset d k x) :=
  set_forced d deep k v x hv

/-- **read back**: a public, non-excluded name reads back from `get_params()` as written -/
theorem params_readback (d : Dict) (k : String) (x : Val) (hp : isPub k = true)
    (he : (excludeOf d).contains k = false) (hk : k ≠ "_exclude") :
    dget (getParams (dset d k x) false) k = some x :=
  get_after_set d k x hp he hk

/-- **round trip**: `obj.set_params(**obj.get_params(deep))` changes nothing -/
theorem params_set_get_identity (d : Dict) (hn : (dkeys d).Nodup) (deep force : Bool) :
    setParamsD d deep force ((getParams d deep).map (fun p => (p.1, p.2.toTree))) = .ok d :=
  set_get_identity d hn deep force

/-- non-vacuity: on `s(0)`, `lam` is a parameter, `fit_linear` is an attribute but not a parameter (excluded),
`_name` is private, `foo` is unknown -/
example :
    okWith (do
        let a ← construct .spline [("feature", vint 0)]
        let d1 ← setParamsD a.d false false [("lam", .leaf (.int 3)), ("foo", .leaf (.int 1)), ("_name", .leaf (.str "x"))]
        let d2 ← setParamsD a.d false true [("foo", .leaf (.int 1))]
        pure (dget (getParams d1 false) "lam" == some (vint 3) && !dhas d1 "foo" && dget d1 "_name" == dget a.d "_name" &&
              dget (getParams d2 false) "foo" == some (vint 1) && !dhas (getParams a.d false) "fit_linear" &&
              dhas a.d "fit_linear" && decide (dkeys a.d).Nodup))
      true = true := by decide +kernel

/-! ## GAM keyword hand-over -/

/-- a plural keyword of the constructor is stored on the model and reads back unchanged before `fit` -/
theorem gam_keyword_stored (terms : TermsSpec) (fi vb : Bool) (k : String) (v : Tree) (g : Gam)
    (h : Gam.init terms fi vb [(k, v)] = .ok g) : g.getattr k = .ok v :=
  gam_init_get terms fi vb k v g h

/-- any other keyword is a `TypeError` -/
theorem gam_keyword_rejected (terms : TermsSpec) (fi vb : Bool) (k : String) (v : Tree)
    (hk : pluralNames.contains k = false) : Gam.init terms fi vb [(k, v)] = .error .type :=
  gam_init_rejects terms fi vb k v hk

/-- at `fit` the stored keywords are assigned to the (rebuilt) term list in order, then deleted; the list is compiled -/
theorem gam_fit_handover (g g' : Gam) (data : List FeatData) (h : g.fit data = .ok g') :
    g'.own = [] ∧ ∃ l1 l2 l3 : TermList, g.baseTerms data = .ok l1 ∧ l1.terms ≠ [] ∧ handOver g.own l1 = .ok l2 ∧
      l2.compile data = .ok l3 ∧ g'.terms = .list l3 :=
  gam_fit_spec g g' data h

/-- each hand-over step is the plural assignment of the theorems above -/
theorem gam_handover_step (k : String) (v : Tree) (r : List (String × Tree)) (l : TermList)
    (hn : pluralNames.contains k = true) (hl : l.hasTerms = true) :
    handOver ((k, v) :: r) l
      = (setPlural l.terms k v).map (fun ts => { d := ddel l.d k, terms := ts }) >>= handOver r := by
  rw [handOver_cons, termList_setattr_plural l k v hn hl]

/-- one stored keyword: after the hand-over the term list reads it back (broadcast if scalar) -/
theorem gam_handover_readback (k : String) (v : Tree) (l l2 : TermList) (hn : pluralNames.contains k = true)
    (hl : l.hasTerms = true) (hv : ∀ t ∈ l.terms, TermValid t) (h : handOver [(k, v)] l = .ok l2) :
    (getPlural l2.terms k).flat = expected (getPlural l.terms k).flatSize v := by
  rw [gam_handover_step k v [] l hn hl] at h
  cases hs : setPlural l.terms k v with
  | error e => simp [hs, Except.map, bind, Except.bind] at h
  | ok ts =>
    simp only [hs, Except.map, bind, Except.bind, handOver_nil, Except.ok.injEq] at h
    subst h
    exact (setPlural_spec k hn l.terms hv v ts hs).1

/-- **assignment before fit** to a model built from a term expression: a keyword of that name given to the
constructor no longer shadows it — the stored keyword is dropped, the value is distributed to the terms (scalar
broadcast) and `getattr` reads it back from the terms -/
theorem gam_assignment_supersedes_keyword (g g' : Gam) (l : TermList) (name : String) (v : Tree)
    (hn : pluralNames.contains name = true) (hl : g.termList? = some l) (hv : ∀ t ∈ l.terms, TermValid t)
    (h : g.setattr name v = .ok g') :
    ownGet g'.own name = none ∧
      ∃ t, g'.getattr name = .ok t ∧ t.flat = expected (getPlural l.terms name).flatSize v :=
  gam_setattr_spec g g' l name v hn hl hv h

/-- non-vacuity (the repaired defect): `g = LinearGAM(s(0) + s(1), lam=3); g.lam = 7` succeeds and `g.lam` reads
`[[7], [7]]`; a ragged tensor term inside a list takes `lam = 3` -/
example :
    okWith (do
        let s0 ← construct .spline [("feature", vint 0)]
        let s1 ← construct .spline [("feature", vint 1)]
        let g ← Gam.init (.list (TermList.mk' [.inl (.atom s0), .inl (.atom s1)] false)) true false
                  [("lam", .leaf (.int 3))]
        let g' ← g.setattr "lam" (.leaf (.int 7))
        let r ← g'.getattr "lam"
        let m ← construct .spline [("feature", vint 0), ("penalties", .list [.str "l2", .str "auto"]),
                                   ("lam", .list [.int 1, .int 2])]
        let t ← mkTensor [.term m, .feat (.int 1)] vnone (vbool false) []
        let ts ← setPlural [.atom s0, t] "lam" (.leaf (.int 3))
        pure (r.flat, (getPlural ts "lam").flat))
      ([.int 7, .int 7], [.int 3, .int 3, .int 3, .int 3]) = true := by decide +kernel

end PyGam.C14
