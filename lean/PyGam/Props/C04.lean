import PyGam.Proofs.Penalty
import PyGam.Proofs.Kron
import PyGam.Proofs.TensorPen
import Mathlib.Algebra.Order.Ring.Defs
import Mathlib.Tactic.Positivity
import PyGam.Gen.Tables
import PyGam.Gen.Decisions
/-!
# C04 — smoothing penalties measure exactly the roughness they promise (matrix level)

Property theorems only.  All statements hold for every size `n`, every difference order `d` and
every coefficient vector `c`, over any commutative ring (`ℤ`, `ℚ`, `ℝ`), resp. any ordered
commutative ring for positivity.
-/
open Finset
namespace PyGam.C04
open PyGam
variable {α : Type}

section ring
variable [CommRing α]

/-- `cᵀ derivative(n, d) c = Σ_{k<n-d} (Δ^d c)_k²` -/
theorem quadForm_derivPen (n d : Nat) (c : Nat → α) :
    quadForm n (derivPen n d) c = ∑ k ∈ range (n - d), (iterDiffVec d c k) ^ 2 := by
  unfold derivPen; rw [quadForm_gram]
  exact sum_congr rfl (fun k hk => by rw [comb_diffMat n d c k (mem_range.mp hk)])

/-- `cᵀ periodic(n, d) c = Σ_{k<n} (Δ_cyc^d c)_k²` (the code returns the zero matrix for `n = 1`) -/
theorem quadForm_cycPen (n d : Nat) (hn : n ≠ 1) (c : Nat → α) :
    quadForm n (cycPen n d) c = ∑ k ∈ range n, (iterCycDiffVec n d c k) ^ 2 := by
  have : cycPen (α := α) n d = fun i j =>
      sumTo n (fun k => cycDiffMat (α := α) n d i k * cycDiffMat (α := α) n d j k) := by
    funext i j; simp [cycPen, hn]
  rw [this, quadForm_gram]
  exact sum_congr rfl (fun k hk => by rw [comb_cycDiffMat n d c k (mem_range.mp hk)])

/-- `n = 1`: one coefficient is its own cyclic neighbour, nothing is penalised -/
theorem quadForm_cycPen_one (d : Nat) (c : Nat → α) : quadForm 1 (cycPen 1 d) c = 0 := by
  simp [quadForm, cycPen, sumTo]

/-- `cᵀ l2(n) c = Σ c_k²` -/
theorem quadForm_l2 (n : Nat) (c : Nat → α) :
    quadForm n (l2Pen (α := α)) c = ∑ k ∈ range n, (c k) ^ 2 := by
  simp only [quadForm, l2Pen, ident, sumTo_eq]
  apply sum_congr rfl; intro i hi
  rw [sum_eq_single i]
  · simp; ring
  · intro j _ hji; simp [Ne.symm hji]
  · intro h; exact absurd hi h

theorem quadForm_none (n : Nat) (c : Nat → α) : quadForm n (nonePen (α := α)) c = 0 :=
  quadForm_zero n c

/-- symmetry -/
theorem derivPen_symm (n d i j : Nat) : derivPen (α := α) n d i j = derivPen n d j i := by
  simp only [derivPen]; congr 1; funext k; ring

theorem cycPen_symm (n d i j : Nat) : cycPen (α := α) n d i j = cycPen n d j i := by
  simp only [cycPen]; split
  · rfl
  · congr 1; funext k; ring

theorem l2Pen_symm (i j : Nat) : l2Pen (α := α) i j = l2Pen j i := by
  simp only [l2Pen, ident]; by_cases h : i = j
  · subst h; rfl
  · simp [h, Ne.symm h]

/-- constants are unpenalised by every difference penalty of order `d ≥ 1` -/
theorem derivPen_const (n d : Nat) (hd : 0 < d) (a : α) :
    quadForm n (derivPen n d) (fun _ => a) = 0 := by
  rw [quadForm_derivPen]; apply sum_eq_zero; intro k _
  rw [iterDiffVec_const d hd]; ring

theorem cycPen_const (n d : Nat) (hd : 0 < d) (a : α) :
    quadForm n (cycPen n d) (fun _ => a) = 0 := by
  by_cases hn : n = 1
  · subst hn; exact quadForm_cycPen_one d _
  · rw [quadForm_cycPen n d hn]; apply sum_eq_zero; intro k _
    rw [iterCycDiffVec_const n d hd]; ring

/-- coefficients that are a polynomial of degree `< d` in their index are unpenalised by the
non-cyclic order-`d` penalty (a straight line for the default `d = 2`) -/
theorem derivPen_poly (n d : Nat) (P : Nat → α) :
    quadForm n (derivPen n d) (fun k : Nat => ∑ j ∈ range d, P j * (k : α) ^ j) = 0 := by
  rw [quadForm_derivPen]; apply sum_eq_zero; intro k _
  have h := iterDiffVec_eq_fwdDiff d (fun r : α => ∑ j ∈ range d, P j * r ^ j) k
  rw [h, fwdDiff_iter_sum_mul_pow_eq_zero]; simp

/-- a term's penalty is the lam-weighted sum of its penalties: quadratic forms add up -/
theorem quadForm_weighted_sum (n : Nat) (lams : List α) (Ps : List (Nat → Nat → α))
    (c : Nat → α) :
    quadForm n (fun i j => ((lams.zip Ps).map (fun lp => lp.1 * lp.2 i j)).sum) c
      = ((lams.zip Ps).map (fun lp => lp.1 * quadForm n lp.2 c)).sum := by
  induction lams generalizing Ps with
  | nil => simp [quadForm_zero]
  | cons a lams ih =>
    cases Ps with
    | nil => simp [quadForm_zero]
    | cons P Ps =>
      simp only [List.zip_cons_cons, List.map_cons, List.sum_cons]
      rw [quadForm_add, quadForm_smul, ih]
end ring

section ordered
variable [CommRing α] [LinearOrder α] [IsStrictOrderedRing α]

/-- positive semi-definiteness -/
theorem derivPen_psd (n d : Nat) (c : Nat → α) : 0 ≤ quadForm n (derivPen n d) c := by
  rw [quadForm_derivPen]; exact sum_nonneg (fun k _ => sq_nonneg _)

theorem cycPen_psd (n d : Nat) (c : Nat → α) : 0 ≤ quadForm n (cycPen n d) c := by
  by_cases hn : n = 1
  · subst hn; rw [quadForm_cycPen_one]
  · rw [quadForm_cycPen n d hn]; exact sum_nonneg (fun k _ => sq_nonneg _)

theorem l2Pen_psd (n : Nat) (c : Nat → α) : 0 ≤ quadForm n (l2Pen (α := α)) c := by
  rw [quadForm_l2]; exact sum_nonneg (fun k _ => sq_nonneg _)
end ordered

/-! ### term level: `build_penalties` of terms, tensor terms and term lists -/
section terms
variable [CommRing α]

/-- 'auto' resolves to the derivative penalty for a numerical (`ps`) spline term … -/
theorem auto_spline_ps (m : Marg α) (hk : m.kind = .spline) (hc : m.cyclic = false) (hd : m.catDtype = false) :
    m.resolvePen .auto = .derivative := by simp [Marg.resolvePen, hk, hc, hd]
/-- … to the periodic penalty for a cyclic (`cp`) spline term … -/
theorem auto_spline_cp (m : Marg α) (hk : m.kind = .spline) (hc : m.cyclic = true) (hd : m.catDtype = false) :
    m.resolvePen .auto = .periodic := by simp [Marg.resolvePen, hk, hc, hd]
/-- … to the ridge penalty for a spline term declared `dtype='categorical'`, whatever its basis … -/
theorem auto_spline_categorical (m : Marg α) (hk : m.kind = .spline) (hd : m.catDtype = true) :
    m.resolvePen .auto = .l2 := by simp [Marg.resolvePen, hk, hd]
/-- … and to the ridge penalty for linear and factor terms -/
theorem auto_linear (m : Marg α) (hk : m.kind = .linear) : m.resolvePen .auto = .l2 := by
  simp [Marg.resolvePen, hk]
theorem auto_factor (m : Marg α) (hk : m.kind = .factor) : m.resolvePen .auto = .l2 := by
  simp [Marg.resolvePen, hk]

/-- a term's penalty is the sum of its penalties, each multiplied by its own lam -/
theorem term_penalty_quadForm (per : Nat → Nat → Nat → α) (m : Marg α) (c : Nat → α) :
    quadForm m.nCoefs (m.penalty per) c
      = ((m.lam.zip m.penalties).map
          (fun lk => lk.1 * quadForm m.nCoefs (penMatrix per m.nCoefs (m.resolvePen lk.2)) c)).sum := by
  unfold Marg.penalty
  rw [quadForm_weightedPenSum, List.map_map]; rfl

/-- the default penalty of a numerical spline term is `lam ×` the sum of squared second differences -/
theorem default_spline_penalty (per : Nat → Nat → Nat → α) (m : Marg α) (lam : α)
    (hk : m.kind = .spline) (hc : m.cyclic = false) (hd : m.catDtype = false) (hl : m.lam = [lam])
    (hp : m.penalties = [.auto]) (c : Nat → α) :
    quadForm m.nCoefs (m.penalty per) c
      = lam * ∑ k ∈ range (m.nCoefs - 2), (iterDiffVec 2 c k) ^ 2 := by
  rw [term_penalty_quadForm, hl, hp]
  simp [auto_spline_ps m hk hc hd, penMatrix, quadForm_derivPen]

/-- a two-way tensor term: the penalty is the sum of the marginal penalties lifted by Kronecker products,
i.e. the marginal roughness of every fibre of the coefficient array, in the row-major coefficient order
`i_a m_b + i_b` of the model-matrix columns (C16 `tensor_two`) -/
theorem tensor_two_quadForm (per : Nat → Nat → Nat → α) (a b : Marg α) (c : Nat → α) :
    quadForm (a.nCoefs * b.nCoefs) (tensorPenalty per [a, b]) c
      = ∑ j ∈ range b.nCoefs, quadForm a.nCoefs (a.penalty per) (fun i => c (i * b.nCoefs + j))
        + ∑ i ∈ range a.nCoefs, quadForm b.nCoefs (b.penalty per) (fun j => c (i * b.nCoefs + j)) := by
  have h : tensorPenalty per [a, b] = fun i j =>
      kronMat (a.penalty per) b.nCoefs (ident (α := α)) i j
        + kronMat (ident (α := α)) b.nCoefs (b.penalty per) i j := by
    funext i j
    simp [tensorPenalty, tensorPenaltyAt, margPenLift, List.range_succ]
  rw [h, quadForm_add, quadForm_kron_left, quadForm_kron_right]

/-- adding one more marginal lifts every existing marginal penalty by `⊗ I` … -/
theorem margPenLift_append (per : Nat → Nat → Nat → α) (i : Nat) (ms : List (Marg α)) (m : Marg α) :
    ∀ (acc : Nat → Nat → α) (pos : Nat),
      margPenLift per i acc pos (ms ++ [m])
        = kronMat (margPenLift per i acc pos ms) m.nCoefs
            (if pos + ms.length = i then m.penalty per else ident) := by
  induction ms with
  | nil => intro acc pos; simp [margPenLift]
  | cons a ms ih =>
    intro acc pos
    simp only [List.cons_append, margPenLift, List.length_cons]
    rw [ih]
    have : pos + 1 + ms.length = pos + (ms.length + 1) := by omega
    rw [this]

/-- **any number of marginals**: appending a marginal `m` to a tensor term over `a :: ms` (`N` coefficients)
adds, for every value `j` of the new (fastest) index, the roughness of the old tensor term along the `j`-th slab,
and, for every old index `i`, the roughness of the new marginal along the `i`-th fibre.  Unfolding this recursion
over the list of marginals gives "the sum over marginals of the marginal roughness of every fibre of the coefficient
array", in the row-major coefficient order `((i₀ m₁ + i₁) m₂ + i₂) …` of the model-matrix columns. -/
theorem tensor_append_quadForm (per : Nat → Nat → Nat → α) (a : Marg α) (ms : List (Marg α)) (m : Marg α)
    (hpos : ∀ x ∈ a :: ms, 0 < x.nCoefs) (N : Nat) (c : Nat → α) :
    quadForm (N * m.nCoefs) (tensorPenalty per (a :: (ms ++ [m]))) c
      = ∑ j ∈ range m.nCoefs, quadForm N (tensorPenalty per (a :: ms)) (fun i => c (i * m.nCoefs + j))
        + ∑ i ∈ range N, quadForm m.nCoefs (m.penalty per) (fun j => c (i * m.nCoefs + j)) := by
  have h : tensorPenalty per (a :: (ms ++ [m])) = fun r s =>
      kronMat (tensorPenalty per (a :: ms)) m.nCoefs (ident (α := α)) r s
        + kronMat (ident (α := α)) m.nCoefs (m.penalty per) r s := by
    funext r s; exact tensorPenalty_append per a ms m hpos r s
  rw [h, quadForm_add, quadForm_kron_left, quadForm_kron_right]

/-- the model penalty is block-diagonal in term order … -/
theorem list_penalty_quadForm (per : Nat → Nat → Nat → α) (t : Term α) (ts : List (Term α)) (c : Nat → α) :
    quadForm (nCoefsAll (t :: ts)) (penaltyAll per (t :: ts)) c
      = quadForm t.nCoefs (t.penalty per) c
        + quadForm (nCoefsAll ts) (penaltyAll per ts) (fun k => c (t.nCoefs + k)) := by
  simp only [nCoefsAll, penaltyAll, List.map_cons, List.sum_cons]
  exact quadForm_blockDiag_cons _ _ _ _ c

/-- … with a zero block for the intercept -/
theorem intercept_unpenalised (per : Nat → Nat → Nat → α) (c : Nat → α) :
    quadForm 1 ((Term.intercept : Term α).penalty per) c = 0 := by
  simp [Term.penalty, quadForm, sumTo]

end terms

/-- non-vacuity: a concrete instance (n = 5, d = 2, c = squares) evaluates as stated -/
example : quadForm 5 (derivPen (α := Int) 5 2) (fun k => (k:Int)^2) = 12 := by decide
example : quadForm 4 (cycPen (α := Int) 4 1) (fun k => (k:Int)) = 12 := by decide

/-! ### tie to the source by translation: `PyGam.Gen` is regenerated from /repo on every run -/

/-- the default difference order of `penalties.derivative` / `periodic` in the source is the one `penMatrix` uses -/
theorem gen_derivative_order (per : Nat → Nat → Nat → ℚ) (n d : Nat) (h : Gen.derivativeOrderDefault = some d) :
    penMatrix per n .derivative = derivPen n d := by
  have h2 : Gen.derivativeOrderDefault = some 2 := rfl
  rw [h2] at h; cases h; rfl

theorem gen_periodic_order : Gen.periodicOrderDefault = some 2 := by decide

/-- the penalty registry of the source is the one modelled by `PenKind` -/
theorem gen_penalty_names : Gen.penaltyNames = some ["auto", "derivative", "l2", "none", "periodic"] := by decide

/-- spline terms default to the `'auto'` penalty on a `'ps'` basis (so the default is the second-difference penalty) -/
theorem gen_term_defaults :
    Gen.splinePenaltiesDefault = some "auto" ∧ Gen.splineBasisDefault = some "ps" := by
  decide

/-! ### tie to the source by translation of the decision logic (`gen_decision_*`)

`Gen/Decisions.lean` is regenerated on every run from the abstract syntax tree of `pygam/terms.py`: `Gen.resolve_penalty` is
the run of `if` statements at the head of the loop of `Term.build_penalties` that turns one entry of `penalties` into a key of
`PENALTIES` (`'auto'` by `dtype`, `_name`, `basis`; `None` ↦ `'none'`), as a function of those three attributes and of the
entry.  The theorems state that it IS the resolution `Marg.resolvePen` of the model (`Model/Terms.lean`) for the three
non-tensor term classes with the `dtype` their constructors set. -/
section gen_decisions
/-- the keys of `PENALTIES` / the strings a penalty is given as -/
def penName : PenKind → String
  | .auto => "auto" | .derivative => "derivative" | .l2 => "l2" | .none => "none" | .periodic => "periodic"
/-- `Term._name` of the three non-tensor term classes -/
def margTermName : MargKind → String
  | .linear => "linear_term" | .spline => "spline_term" | .factor => "factor_term"
/-- `dtype` of a term: `FactorTerm` is categorical, `LinearTerm` numerical (both fixed by their constructors), a
`SplineTerm` numerical by default and categorical when the user says so -/
def margDtype (m : Marg α) : String :=
  match m.kind with
  | .factor => "categorical"
  | .linear => "numerical"
  | .spline => if m.catDtype then "categorical" else "numerical"

/-- the `'auto'` resolution of the source is `Marg.resolvePen`: numerical spline ↦ `'derivative'` (`basis = 'cp'`:
`'periodic'`), categorical spline, linear and factor ↦ `'l2'`, every other name unchanged (40 cases, each by evaluation) -/
theorem gen_decision_resolve_penalty (m : Marg α) (k : PenKind) :
    Gen.resolve_penalty (margDtype m) (margTermName m.kind) (if m.cyclic then "cp" else "ps") (some (penName k))
      = some (penName (m.resolvePen k)) := by
  rcases m with ⟨kind, _, _, _, cyclic, _, _, _, _, _, _, _, cat⟩
  cases kind <;> cases cyclic <;> cases cat <;> cases k <;>
    simp only [Marg.resolvePen, margDtype, margTermName, penName] <;> rfl

/-- `None` is the penalty `'none'` (`PenKind.none`), whatever the term -/
theorem gen_decision_penalty_none (dtype name basis : String) :
    Gen.resolve_penalty dtype name basis none = some (penName .none) := by
  simp [Gen.resolve_penalty, penName]

end gen_decisions

end PyGam.C04
