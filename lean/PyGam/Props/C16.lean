import PyGam.Model.Terms
import PyGam.Proofs.BSplineRows
import PyGam.Gen.Decisions
/-!
# C16 — each term contributes exactly its documented model-matrix columns

Theorems about `Term.columns`, `columnsAll`, `coefStart` of `PyGam/Model/Terms.lean` (the model executed by
the driver against `build_columns` / `get_coef_indices` on every run).  They hold for every data row,
every term configuration and every list of terms.
-/
open Finset
namespace PyGam.C16
open PyGam
variable {α : Type}

section general
variable [Zero α] [One α] [Add α] [Sub α] [Mul α] [Div α] [NatCast α] [LE α] [LT α]
  [DecidableLE α] [DecidableLT α] [DecidableEq α] [Max α] [HasFract α]

/-- the intercept contributes a column of ones -/
theorem intercept_is_one (ε : α) (x : Nat → α) (j : Nat) : (Term.intercept : Term α).columns ε x j = 1 := rfl

/-- a linear term contributes the raw feature value -/
theorem linear_is_raw (ε : α) (m : Marg α) (hk : m.kind = .linear) (x : Nat → α) (j : Nat) :
    (Term.single m).columns ε x j = x m.feature := by
  simp [Term.columns, Marg.columns, hk]

/-- a spline term contributes its basis row (C03) times the by-variable (1 when there is none) -/
theorem spline_is_basis_times_by (ε : α) (m : Marg α) (hk : m.kind = .spline) (x : Nat → α) (j : Nat) :
    (Term.single m).columns ε x j
      = basisRow ε ⟨m.nSplines, m.order, m.cyclic, m.e0, m.e1⟩ (x m.feature) j * byValue m.byVar x := by
  simp [Term.columns, Marg.columns, hk]

theorem byValue_none (x : Nat → α) : byValue (none : Option Nat) x = 1 := rfl
theorem byValue_some (k : Nat) (x : Nat → α) : byValue (some k) x = x k := rfl

/-- dummy coding drops the first column of the one-hot block -/
theorem dummy_drops_first (ε : α) (m : Marg α) (hk : m.kind = .factor) (hd : m.dummy = true) (x : Nat → α) (j : Nat) :
    (Term.single m).columns ε x j = (Term.single { m with dummy := false }).columns ε x (j + 1) := by
  simp [Term.columns, Marg.columns, hk, hd]

/-- appending a marginal to a tensor term multiplies row-wise, the new index varying fastest -/
theorem tensorColumns_append (ε : α) (x : Nat → α) (ms : List (Marg α)) (m : Marg α) :
    ∀ acc : Nat → α, tensorColumns ε x acc (ms ++ [m])
      = kronRow (tensorColumns ε x acc ms) m.nCoefs (m.columns ε x) := by
  induction ms with
  | nil => intro acc; rfl
  | cons a ms ih => intro acc; simp only [List.cons_append, tensorColumns]; exact ih _

theorem kronRow_index (a b : Nat → α) (nb k i : Nat) (hi : i < nb) :
    kronRow a nb b (k * nb + i) = a k * b i := by
  have hpos : 0 < nb := by omega
  simp only [kronRow]
  have h1 : (k * nb + i) / nb = k := by
    rw [Nat.add_comm, Nat.add_mul_div_right _ _ hpos, Nat.div_eq_of_lt hi, Nat.zero_add]
  have h2 : (k * nb + i) % nb = i := by
    rw [Nat.add_comm, Nat.add_mul_mod_self_right, Nat.mod_eq_of_lt hi]
  rw [h1, h2]

/-- a two-way tensor term: column `i_a * m_b + i_b` is the product of the marginals' columns (times `by`) -/
theorem tensor_two (ε : α) (a b : Marg α) (by_ : Option Nat) (x : Nat → α) (ia ib : Nat) (hib : ib < b.nCoefs) :
    (Term.tensor [a, b] by_).columns ε x (ia * b.nCoefs + ib)
      = a.columns ε x ia * b.columns ε x ib * byValue by_ x := by
  simp only [Term.columns, tensorColumns]
  rw [kronRow_index _ _ _ _ _ hib]

/-- general tensor term: the last marginal's index varies fastest (row-major order
`((i₀ m₁ + i₁) m₂ + i₂) …`, obtained by iterating this statement) -/
theorem tensor_append_index (ε : α) (a : Marg α) (ms : List (Marg α)) (m : Marg α) (by_ : Option Nat)
    (x : Nat → α) (k i : Nat) (hi : i < m.nCoefs) :
    (Term.tensor (a :: (ms ++ [m])) by_).columns ε x (k * m.nCoefs + i)
      = (tensorColumns ε x (a.columns ε x) ms k * m.columns ε x i) * byValue by_ x := by
  simp only [Term.columns]
  rw [tensorColumns_append, kronRow_index _ _ _ _ _ hi]

/-- the number of columns of a tensor term is the product of the marginals' -/
theorem tensor_nCoefs (ms : List (Marg α)) (by_ : Option Nat) :
    (Term.tensor ms by_).nCoefs = prodList (ms.map Marg.nCoefs) := rfl

end general

/-! ### index bookkeeping -/

theorem coefStart_zero (ts : List (Term α)) : coefStart ts 0 = 0 := by simp [coefStart]

/-- contiguity: the block of term `i` starts where the block of term `i - 1` ends -/
theorem coefStart_succ (ts : List (Term α)) (i : Nat) (t : Term α) (h : ts[i]? = some t) :
    coefStart ts (i+1) = coefStart ts i + t.nCoefs := by
  induction ts generalizing i with
  | nil => simp at h
  | cons a ts ih =>
    cases i with
    | zero => simp at h; subst h; simp [coefStart]
    | succ i =>
      simp only [List.getElem?_cons_succ] at h
      have := ih i h
      simp only [coefStart, List.take_succ_cons, List.map_cons, List.sum_cons] at this ⊢
      omega

/-- the blocks cover exactly `range n_coefs` -/
theorem coefStart_length (ts : List (Term α)) : coefStart ts ts.length = nCoefsAll ts := by
  simp [coefStart, nCoefsAll]

/-- blocks are ordered (hence disjoint): an earlier term's block ends before a later one starts -/
theorem coefStart_mono (ts : List (Term α)) (i j : Nat) (hij : i ≤ j) : coefStart ts i ≤ coefStart ts j := by
  induction ts generalizing i j with
  | nil => simp [coefStart]
  | cons a ts ih =>
    cases i with
    | zero => simp [coefStart]
    | succ i =>
      cases j with
      | zero => omega
      | succ j =>
        have := ih i j (by omega)
        simp only [coefStart, List.take_succ_cons, List.map_cons, List.sum_cons] at this ⊢
        omega

section concat
variable [Zero α] [One α] [Add α] [Sub α] [Mul α] [Div α] [NatCast α] [LE α] [LT α]
  [DecidableLE α] [DecidableLT α] [DecidableEq α] [Max α] [HasFract α]

/-- the model matrix is the horizontal concatenation in term order: term `i`'s coefficient indices
address exactly its own columns -/
theorem columns_concat (ε : α) (x : Nat → α) (ts : List (Term α)) (i : Nat) (t : Term α)
    (h : ts[i]? = some t) (j : Nat) (hj : j < t.nCoefs) :
    columnsAll ε x ts (coefStart ts i + j) = t.columns ε x j := by
  induction ts generalizing i with
  | nil => simp at h
  | cons a ts ih =>
    cases i with
    | zero =>
      simp at h; subst h
      simp [columnsAll, coefStart, hj]
    | succ i =>
      simp only [List.getElem?_cons_succ] at h
      have := ih i h
      simp only [columnsAll, coefStart, List.take_succ_cons, List.map_cons, List.sum_cons]
      have hnot : ¬ (a.nCoefs + ((ts.take i).map Term.nCoefs).sum + j < a.nCoefs) := by omega
      rw [if_neg hnot]
      have e : a.nCoefs + ((ts.take i).map Term.nCoefs).sum + j - a.nCoefs
          = ((ts.take i).map Term.nCoefs).sum + j := by omega
      rw [e]; exact this
end concat

/-! ### factor terms are indicators of consecutive integer codes -/
section factor
variable [Field α] [LinearOrder α] [IsStrictOrderedRing α] [HasFract α]

/-- one-hot coding: with `k` categories coded `lo, lo+1, …, lo+k-1` and the edge knots
`(lo - 1/2, lo + k - 1/2)` that `compile` derives from the data, the row of the `c`-th category is the
`c`-th unit vector -/
theorem factor_is_indicator (ε : α) (hε : 0 < ε) (k : Nat) (hk : 0 < k) (lo : α) (feat : Nat)
    (lam : List α) (pens : List PenKind) (x : Nat → α) (c : Nat) (hc : c < k)
    (hx : x feat = lo + c) (j : Nat) :
    (Term.single { kind := .factor, feature := feat, nSplines := k, order := 0, cyclic := false, byVar := none,
                   dummy := false, lam := lam, penalties := pens, constraints := [.none],
                   e0 := lo - 1/2, e1 := lo + k - 1/2 : Marg α }).columns ε x j
      = if j = c then 1 else 0 := by
  have hkpos : (0:α) < k := by exact_mod_cast hk
  simp only [Term.columns, Marg.columns, basisRow]
  -- rescaled position (c + 1/2)/k
  have hlt : ¬ (lo + (k:α) - 1/2 < lo - 1/2) := by linarith
  have hres : (BasisCfg.mk k 0 false (lo - 1/2) (lo + (k:α) - 1/2)).rescale (x feat) = ((c:α) + 1/2) / k := by
    simp only [BasisCfg.rescale, BasisCfg.scale, BasisCfg.lo, BasisCfg.hi, hlt, if_false]
    have : lo + (k:α) - 1/2 - (lo - 1/2) = k := by ring
    rw [this, if_neg (ne_of_gt hkpos), hx]; congr 1; ring
  simp only [Bool.false_eq_true, if_false, ↓reduceIte]
  rw [hres]
  have h0 : (0:α) ≤ ((c:α) + 1/2) / k := by positivity
  have hck : (c:α) + 1 ≤ k := by exact_mod_cast hc
  have h1 : ((c:α) + 1/2) / k ≤ 1 := by rw [div_le_one hkpos]; linarith
  unfold openRow
  rw [if_neg (by intro h; exact absurd h.1 (not_lt.mpr h0)), if_neg (by intro h; exact absurd h.1 (not_lt.mpr h1))]
  simp only [innerRow, bspl, deBoorH]
  have ht := augKnot_strictMono (α := α) k 0 ε hk (le_of_lt hε)
  have hk0 : ∀ j : Nat, augKnot k 0 ε j = (j:α) / k + (if k ≤ j then ε else 0) := by
    intro j; simp only [augKnot, Nat.add_zero, Nat.cast_zero, sub_zero]; rw [mul_one_div]
  have hcell : haar (augKnot k 0 ε) (((c:α) + 1/2) / k) = indRow c := by
    apply haar_eq_ind _ ht c
    · rw [hk0 c, if_neg (by omega), add_zero]
      apply div_le_div_of_nonneg_right _ (le_of_lt hkpos); linarith
    · rw [hk0 (c+1)]
      have hδ : (0:α) ≤ (if k ≤ c + 1 then ε else 0) := by split <;> [exact le_of_lt hε; exact le_rfl]
      have : ((c:α) + 1/2) / k < ((c+1 : Nat) : α) / k := by
        apply div_lt_div_of_pos_right _ hkpos; push_cast; linarith
      linarith
  rw [hcell]; rfl

end factor

/-! ### non-vacuity -/
example : coefStart ([Term.intercept, Term.intercept, Term.intercept] : List (Term ℚ)) 2 = 2 := by decide

/-! ### tie to the source by translation of the decision logic (`gen_decision_*`)

`Gen/Decisions.lean` is regenerated on every run from the abstract syntax tree of `pygam/terms.py`: the `n_coefs`
properties of `Intercept`, `LinearTerm`, `SplineTerm`, `FactorTerm` (`n_splines - 1 * (coding in ['dummy'])`) and
`TensorTerm` (`np.prod` of the marginals'), over `Nat`. -/
section gen_decisions

/-- `n_coefs` of the three non-tensor term classes is `Marg.nCoefs`: linear `1`, spline `n_splines`, factor
`n_splines` minus one under dummy coding -/
theorem gen_decision_n_coefs_marg (m : Marg α) :
    m.nCoefs = match m.kind with
      | .linear => Gen.n_coefs_linear
      | .spline => Gen.n_coefs_spline m.nSplines
      | .factor => Gen.n_coefs_factor m.nSplines (if m.dummy then "dummy" else "one-hot") := by
  rcases m with ⟨kind, _, _, _, _, _, dummy, _, _, _, _, _⟩
  cases kind <;> cases dummy <;> simp [Marg.nCoefs, Gen.n_coefs_linear, Gen.n_coefs_spline, Gen.n_coefs_factor]

/-- `n_coefs` of a term is `Term.nCoefs`: intercept `1`, tensor term the product of its marginals' -/
theorem gen_decision_n_coefs_term (t : Term α) :
    t.nCoefs = match t with
      | .intercept => Gen.n_coefs_intercept
      | .single m => m.nCoefs
      | .tensor ms _ => Gen.n_coefs_tensor (ms.map Marg.nCoefs) := by
  cases t <;> rfl

end gen_decisions

end PyGam.C16
