import PyGam.Proofs.Exposure
import Mathlib.Tactic.Ring
/-!
# C19 — PoissonGAM exposure is equivalent to rate modelling with exposure weights

Property theorems only.  `cast` is the `astype('f')` the code applies to `exposure` and `weights`;
`round` is `np.round`; `norm k = gammaln(k+1)` is SciPy's normaliser (a parameter, not modelled).
Algebraic statements hold over every field (`ℚ`, `ℝ`) and for *any* function `log`; the statements that
use `log (a b) = log a + log b` are over `ℝ`.
-/
open Finset
namespace PyGam.C19
open PyGam PyGam.Exposure
variable {α : Type}

/-! ### "Fitting counts y with exposure e ≡ fitting rates y / e with weights e (× sample weights)" -/

/-- `_exposure_to_weights(y, e, w) = (y / e, w · e)` elementwise, in exact arithmetic (`cast = id`) -/
theorem exposure_to_weights [One α] [Mul α] [Div α] (y e w : Nat → α) :
    exposureToWeights id y (some e) (some w) = (fun i => y i / e i, fun i => w i * e i) := rfl

/-- the same with the float32 casts the code applies: `e` and `w` are cast, `y` is not, and the
product of the two float32 arrays is a float32 product (rounded once more) -/
theorem exposure_to_weights_cast [One α] [Mul α] [Div α] (cast : α → α) (y e w : Nat → α) :
    exposureToWeights cast y (some e) (some w)
      = (fun i => y i / cast (e i), fun i => cast (cast (w i) * cast (e i))) := rfl

/-- omitted sample weights are weights one: the weight is the exposure itself -/
theorem exposure_to_weights_no_weights [Field α] (cast : α → α) (hc : ∀ x, cast (cast x) = cast x)
    (y e : Nat → α) :
    exposureToWeights cast y (some e) none = (fun i => y i / cast (e i), fun i => cast (e i)) := by
  simp [exposureToWeights, optVec, hc]

/-- "omitting exposure is the same as exposure one" (the cast leaves `1` alone) -/
theorem omitted_exposure_eq_exposure_one [One α] [Mul α] [Div α] (cast : α → α) (h1 : cast 1 = 1)
    (y : Nat → α) (w : Option (Nat → α)) :
    exposureToWeights cast y none w = exposureToWeights cast y (some (fun _ => 1)) w := by
  simp [exposureToWeights, optVec, h1]

/-- … and then nothing is converted at all: rates are the counts, weights are the sample weights -/
theorem omitted_exposure_is_identity [Field α] (cast : α → α) (hc : ∀ x, cast (cast x) = cast x)
    (y w : Nat → α) :
    exposureToWeights cast y none (some w) = (y, fun i => cast (w i)) := by
  simp [exposureToWeights, optVec, hc]

/-- `PoissonGAM.fit(X, y, exposure, weights) = GAM.fit(X, ·, ·) ∘ _exposure_to_weights`.
This is *definitional* in the model (`poissonFit` is written that way, mirroring the two lines of
`PoissonGAM.fit`); the content is in the correspondence streams `fit.*`, which compare the real
`PoissonGAM.fit` with an independent `GAM(distribution='poisson', link='log').fit(X, y/e, w·e)`. -/
theorem fit_eq_base_fit_on_rates {β : Type} [One α] [Mul α] [Div α]
    (base : (Nat → α) → (Nat → α) → β) (cast : α → α) (y e w : Nat → α) :
    poissonFit base cast y (some e) (some w)
      = base (fun i => y i / cast (e i)) (fun i => cast (cast (w i) * cast (e i))) := rfl

/-- the same for `gridsearch` (definitional, see `fit_eq_base_fit_on_rates`) -/
theorem gridsearch_eq_base_gridsearch_on_rates {β : Type} [One α] [Mul α] [Div α]
    (base : (Nat → α) → (Nat → α) → β) (cast : α → α) (y e w : Nat → α) :
    poissonGridsearch base cast y (some e) (some w)
      = base (fun i => y i / cast (e i)) (fun i => cast (cast (w i) * cast (e i))) := rfl

/-- fit without exposure = fit with exposure one -/
theorem fit_omitted_exposure {β : Type} [One α] [Mul α] [Div α]
    (base : (Nat → α) → (Nat → α) → β) (cast : α → α) (h1 : cast 1 = 1) (y : Nat → α)
    (w : Option (Nat → α)) :
    poissonFit base cast y none w = poissonFit base cast y (some (fun _ => 1)) w := by
  unfold poissonFit; rw [omitted_exposure_eq_exposure_one cast h1]

/-! ### why rates-with-weights *is* the Poisson model of the counts

The base fit minimises `Σ wᵢ dev(yᵢ, μᵢ) + penalty` by PIRLS.  Fed with rates `y/e` and weights `w·e`
this is, term by term and step by step, the Poisson model of the counts `y` with mean `e·rate`. -/

section ordered
variable [Field α] [LinearOrder α] [IsStrictOrderedRing α] [LogOp α]

/-- working-weight identity: the deviance of the rate `y/e` at `r`, weighted by `e`, is the Poisson
deviance of the count `y` at mean `e·r` (for any function `log`) -/
theorem weighted_rate_deviance_eq_count_deviance (e y r : α) (he : e ≠ 0) :
    e * poissonDev (y / e) r = poissonDev y (e * r) := by
  unfold poissonDev
  rw [← mul_ylogydu_rate e y r he]
  field_simp

/-- … summed: `Σ (wᵢ eᵢ) dev(yᵢ/eᵢ, rᵢ) = Σ wᵢ dev(yᵢ, eᵢ rᵢ)`, i.e. the objective the base fit sees
on the converted data is the weighted Poisson deviance of the counts at mean rate × exposure
(`hx`: the float32 product `w·e` is exact — always so in exact arithmetic, `cast = id`) -/
theorem weighted_deviance_of_converted_data (cast : α → α) (n : Nat) (y e w r : Nat → α)
    (he : ∀ i < n, cast (e i) ≠ 0)
    (hx : ∀ i < n, cast (cast (w i) * cast (e i)) = cast (w i) * cast (e i)) :
    weightedDev n (exposureToWeights cast y (some e) (some w)).1 r
        (exposureToWeights cast y (some e) (some w)).2
      = weightedDev n y (fun i => cast (e i) * r i) (fun i => cast (w i)) := by
  unfold weightedDev exposureToWeights optVec
  apply sumTo_congr; intro i hi
  simp only
  rw [hx i hi, mul_assoc, weighted_rate_deviance_eq_count_deviance _ _ _ (he i hi)]

end ordered

section field
variable [Field α]

/-- PIRLS weights: `W²` of the rate model with weight `w·e` at rate `r` equals `W²` of the count
model with weight `w` at mean `e·r` (both are `w·e·r`) -/
theorem irls_weight_of_converted_data (w e r : α) (he : e ≠ 0) (hr : r ≠ 0) (hw : w ≠ 0) :
    irlsWeightSq (w * e) r = irlsWeightSq w (e * r) ∧ irlsWeightSq (w * e) r = w * (e * r) := by
  unfold irlsWeightSq
  constructor <;> field_simp

/-- PIRLS pseudo-data: the working residual of the rate `y/e` at `r` is that of the count `y` at
mean `e·r` (so the rate fit is Poisson regression of the counts with offset `log e`) -/
theorem pseudo_data_of_converted_data (lp y e r : α) (he : e ≠ 0) (hr : r ≠ 0) :
    pseudoData lp (y / e) r = pseudoData lp y (e * r) := by
  unfold pseudoData
  field_simp

end field

/-- over `ℝ`: the Poisson log-likelihood kernel of the count `y` at mean `e·r` is `e ×` the kernel
of the rate `y/e` at `r` plus a term free of `r` — both have the same maximiser -/
theorem count_kernel_eq_weighted_rate_kernel (y e r : ℝ) (he : 0 < e) (hr : 0 < r) :
    poissonKernel y (e * r) = e * poissonKernel (y / e) r + y * Real.log e := by
  unfold poissonKernel
  by_cases hy : y = 0
  · subst hy; simp [xlogy_zero]
  · have hye : y / e ≠ 0 := div_ne_zero hy he.ne'
    rw [xlogy_of_ne _ _ hy, xlogy_of_ne _ _ hye, logOp_real, logOp_real,
      Real.log_mul he.ne' hr.ne']
    field_simp
    ring

/-! ### "Predicting with exposure e returns e times the predicted rate" -/

theorem predict_with_exposure [Field α] (cast : α → α) (rate e : Nat → α) (i : Nat) :
    predictExposure cast rate (some e) i = cast (e i) * rate i := by
  simp [predictExposure, optVec, mul_comm]

theorem predict_without_exposure [Field α] (cast : α → α) (rate : Nat → α) (i : Nat) :
    predictExposure cast rate none i = rate i := by
  simp [predictExposure, optVec]

/-! ### "the log-likelihood is the Poisson log-probability of the observed counts at mean rate × exposure" -/

/-- exact statement of the rescaling in `_loglikelihood`, over `ℚ` with the real `np.round`:
for an integer count `y` and exposure `e ≠ 0`, `round((y/e)·(1·e)) = y` -/
theorem rescale_recovers_counts (y : ℤ) (e : ℚ) (he : e ≠ 0) :
    roundHalfEven ((y : ℚ) / e * (1 * e)) = y := by
  rw [rate_mul_exposure _ _ he, roundHalfEven_intCast]

/-- with sample weights the code evaluates the pmf at `round(y·w)` (not at `y`): for integer `y·w`
that is `y·w` -/
theorem rescale_with_weights (y w : ℤ) (e : ℚ) (he : e ≠ 0) :
    roundHalfEven ((y : ℚ) / e * ((w : ℚ) * e)) = y * w := by
  rw [rate_mul_weight _ _ _ he, ← Int.cast_mul, roundHalfEven_intCast]

section loglik
variable [Field α] [LinearOrder α] [LogOp α]

/-- what `loglikelihood(X, y, exposure, weights)` computes in general: with `Wᵢ = f32(wᵢ·eᵢ)` the
Poisson log-pmf of `round(yᵢ/eᵢ · Wᵢ)` at mean `μᵢ · Wᵢ` (`cast` idempotent, as float32 rounding is) -/
theorem loglikelihood_general_cast (cast round norm : α → α) (hc : ∀ x, cast (cast x) = cast x)
    (n : Nat) (mu y e w : Nat → α) :
    loglikelihood cast round norm n mu y (some e) (some w)
      = sumTo n (fun i => poissonLogPmf norm
          (round (y i / cast (e i) * cast (cast (w i) * cast (e i))))
          (mu i * cast (cast (w i) * cast (e i)))) := by
  unfold loglikelihood loglikInner logPdf rescaleCounts exposureToWeights optVec
  apply sumTo_congr; intro i _
  simp only [Option.map_some, hc]

/-- … when the float32 product `w·e` is exact: the log-pmf of `round(yᵢ wᵢ)` at mean `μᵢ · wᵢ · eᵢ`
(sample weights act as a further exposure multiplier *and* rescale the counts) -/
theorem loglikelihood_general (cast round norm : α → α) (hc : ∀ x, cast (cast x) = cast x)
    (n : Nat) (mu y e w : Nat → α) (he : ∀ i < n, cast (e i) ≠ 0)
    (hx : ∀ i < n, cast (cast (w i) * cast (e i)) = cast (w i) * cast (e i)) :
    loglikelihood cast round norm n mu y (some e) (some w)
      = sumTo n (fun i => poissonLogPmf norm (round (y i * cast (w i)))
          (mu i * (cast (w i) * cast (e i)))) := by
  rw [loglikelihood_general_cast cast round norm hc]
  apply sumTo_congr; intro i hi
  rw [hx i hi, rate_mul_weight _ _ _ (he i hi)]

/-- the property sentence: without sample weights and for counts (`round yᵢ = yᵢ`) the
log-likelihood is `Σ logpmf(yᵢ ; μᵢ · eᵢ)`, the Poisson log-probability of the observed counts at
mean rate × exposure, with `logpmf(k; m) = k log m − m − log k!` -/
theorem loglikelihood_is_poisson_at_rate_times_exposure (cast round norm : α → α)
    (hc : ∀ x, cast (cast x) = cast x)
    (n : Nat) (mu y e : Nat → α) (he : ∀ i < n, cast (e i) ≠ 0)
    (hy : ∀ i < n, round (y i) = y i) :
    loglikelihood cast round norm n mu y (some e) none
      = sumTo n (fun i => poissonLogPmf norm (y i) (mu i * cast (e i))) := by
  unfold loglikelihood loglikInner logPdf rescaleCounts exposureToWeights optVec
  apply sumTo_congr; intro i hi
  simp only [Option.map_none, one_mul, hc]
  rw [div_mul_cancel₀ _ (he i hi), hy i hi]

/-- … and without exposure at mean `μᵢ` -/
theorem loglikelihood_without_exposure (cast round norm : α → α) (h1 : cast 1 = 1)
    (n : Nat) (mu y : Nat → α) (hy : ∀ i < n, round (y i) = y i) :
    loglikelihood cast round norm n mu y none none
      = sumTo n (fun i => poissonLogPmf norm (y i) (mu i)) := by
  unfold loglikelihood loglikInner logPdf rescaleCounts exposureToWeights optVec
  apply sumTo_congr; intro i hi
  simp [hy i hi, h1]

/-- the pmf itself: `logpmf(k; m) = k log m − m − norm k` for `k ≠ 0`, `−m − norm 0` for `k = 0` -/
theorem poissonLogPmf_eq (norm : α → α) (k m : α) :
    poissonLogPmf norm k m = (if k = 0 then 0 else k * LogOp.log m) - m - norm k := by
  unfold poissonLogPmf poissonKernel
  by_cases hk : k = 0
  · subst hk; simp [xlogy_zero]
  · simp [xlogy_of_ne _ _ hk, hk]

end loglik

/-! ### non-vacuity: concrete instances of the hypotheses, evaluated -/

example : roundHalfEven ((7 : ℚ) / (3/8) * (1 * (3/8))) = 7 := by
  have := rescale_recovers_counts 7 (3/8) (by norm_num); simpa using this
example : (exposureToWeights (α := ℚ) id (fun _ => 6) (some (fun _ => 3/2)) (some (fun _ => 2))).1 0 = 4
    ∧ (exposureToWeights (α := ℚ) id (fun _ => 6) (some (fun _ => 3/2)) (some (fun _ => 2))).2 0 = 3 := by
  constructor <;> norm_num [exposureToWeights, optVec]
example : roundHalfEven (5/2) = 2 ∧ roundHalfEven (7/2) = 4 ∧ roundHalfEven (-5/2) = -2 := by decide +kernel
example : castF32 (1/10) = 13421773/134217728 := by decide +kernel

end PyGam.C19
