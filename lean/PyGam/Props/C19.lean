import PyGam.Proofs.Exposure
import PyGam.Proofs.ExposureStats
import Mathlib.Tactic.Ring
import PyGam.Gen.Formulas
/-!
# C19 — PoissonGAM exposure is equivalent to rate modelling with exposure weights

Property theorems only.  `cast` is the `astype('f')` the code applies to `exposure` and `weights`;
`round` is `np.round`; `norm k = gammaln(k+1)` is SciPy's normaliser (a parameter, not modelled).
Algebraic statements hold over every field (`ℚ`, `ℝ`) and for *any* function `log`; the statements that
use `log (a b) = log a + log b` are over `ℝ`.
-/
set_option linter.unusedSectionVars false
open Finset
namespace PyGam.C19
open PyGam PyGam.Exposure
variable {α : Type}

/-! ### "Fitting counts y with exposure e ≡ fitting rates y / e with weights e (× sample weights)" -/

/-- `_exposure_to_weights(y, e, w) = (y / e, w · e)` elementwise, in exact arithmetic (`cast = id`) -/
theorem exposure_to_weights [One α] [Mul α] [Div α] (y e w : Nat → α) :
    exposureToWeights id y (some e) (some w) = (fun i => y i / e i, fun i => w i * e i) := rfl

/-- the same with the float32 casts the code applies: `e` and `w` are cast, `y` is not, and the
product of the two float32 arrays is a float32 product (rounded once more) -/
theorem exposure_to_weights_cast [One α] [Mul α] [Div α] (cast : α → α) (y e w : Nat → α) :
    exposureToWeights cast y (some e) (some w)
      = (fun i => y i / cast (e i), fun i => cast (cast (w i) * cast (e i))) := rfl

/-- omitted sample weights are weights one: the weight is the exposure itself -/
theorem exposure_to_weights_no_weights [Field α] (cast : α → α) (hc : ∀ x, cast (cast x) = cast x)
    (y e : Nat → α) :
    exposureToWeights cast y (some e) none = (fun i => y i / cast (e i), fun i => cast (e i)) := by
  simp [exposureToWeights, optVec, hc]

/-- "omitting exposure is the same as exposure one" (the cast leaves `1` alone) -/
theorem omitted_exposure_eq_exposure_one [One α] [Mul α] [Div α] (cast : α → α) (h1 : cast 1 = 1)
    (y : Nat → α) (w : Option (Nat → α)) :
    exposureToWeights cast y none w = exposureToWeights cast y (some (fun _ => 1)) w := by
  simp [exposureToWeights, optVec, h1]

/-- … and then nothing is converted at all: rates are the counts, weights are the sample weights -/
theorem omitted_exposure_is_identity [Field α] (cast : α → α) (hc : ∀ x, cast (cast x) = cast x)
    (y w : Nat → α) :
    exposureToWeights cast y none (some w) = (y, fun i => cast (w i)) := by
  simp [exposureToWeights, optVec, hc]

/-- `PoissonGAM.fit(X, y, exposure, weights) = GAM.fit(X, ·, ·) ∘ _exposure_to_weights`.
This is *definitional* in the model (`poissonFit` is written that way, mirroring the two lines of
`PoissonGAM.fit`); the content is in the correspondence streams `fit.*`, which compare the real
`PoissonGAM.fit` with an independent `GAM(distribution='poisson', link='log').fit(X, y/e, w·e)`. -/
theorem fit_eq_base_fit_on_rates {β : Type} [One α] [Mul α] [Div α]
    (base : (Nat → α) → (Nat → α) → β) (cast : α → α) (y e w : Nat → α) :
    poissonFit base cast y (some e) (some w)
      = base (fun i => y i / cast (e i)) (fun i => cast (cast (w i) * cast (e i))) := rfl

/-- the same for `gridsearch` (definitional, see `fit_eq_base_fit_on_rates`) -/
theorem gridsearch_eq_base_gridsearch_on_rates {β : Type} [One α] [Mul α] [Div α]
    (base : (Nat → α) → (Nat → α) → β) (cast : α → α) (y e w : Nat → α) :
    poissonGridsearch base cast y (some e) (some w)
      = base (fun i => y i / cast (e i)) (fun i => cast (cast (w i) * cast (e i))) := rfl

/-- fit without exposure = fit with exposure one -/
theorem fit_omitted_exposure {β : Type} [One α] [Mul α] [Div α]
    (base : (Nat → α) → (Nat → α) → β) (cast : α → α) (h1 : cast 1 = 1) (y : Nat → α)
    (w : Option (Nat → α)) :
    poissonFit base cast y none w = poissonFit base cast y (some (fun _ => 1)) w := by
  unfold poissonFit; rw [omitted_exposure_eq_exposure_one cast h1]

/-! ### why rates-with-weights *is* the Poisson model of the counts

The base fit minimises `Σ wᵢ dev(yᵢ, μᵢ) + penalty` by PIRLS.  Fed with rates `y/e` and weights `w·e`
this is, term by term and step by step, the Poisson model of the counts `y` with mean `e·rate`. -/

section ordered
variable [Field α] [LinearOrder α] [IsStrictOrderedRing α] [LogOp α]

/-- working-weight identity: the deviance of the rate `y/e` at `r`, weighted by `e`, is the Poisson
deviance of the count `y` at mean `e·r` (for any function `log`) -/
theorem weighted_rate_deviance_eq_count_deviance (e y r : α) (he : e ≠ 0) :
    e * poissonDev (y / e) r = poissonDev y (e * r) := by
  unfold poissonDev
  rw [← mul_ylogydu_rate e y r he]
  field_simp

/-- … summed: `Σ (wᵢ eᵢ) dev(yᵢ/eᵢ, rᵢ) = Σ wᵢ dev(yᵢ, eᵢ rᵢ)`, i.e. the objective the base fit sees
on the converted data is the weighted Poisson deviance of the counts at mean rate × exposure
(`hx`: the float32 product `w·e` is exact — always so in exact arithmetic, `cast = id`) -/
theorem weighted_deviance_of_converted_data (cast : α → α) (n : Nat) (y e w r : Nat → α)
    (he : ∀ i < n, cast (e i) ≠ 0)
    (hx : ∀ i < n, cast (cast (w i) * cast (e i)) = cast (w i) * cast (e i)) :
    weightedDev n (exposureToWeights cast y (some e) (some w)).1 r
        (exposureToWeights cast y (some e) (some w)).2
      = weightedDev n y (fun i => cast (e i) * r i) (fun i => cast (w i)) := by
  unfold weightedDev exposureToWeights optVec
  apply sumTo_congr; intro i hi
  simp only
  rw [hx i hi, mul_assoc, weighted_rate_deviance_eq_count_deviance _ _ _ (he i hi)]

end ordered

section field
variable [Field α]

/-- PIRLS weights: `W²` of the rate model with weight `w·e` at rate `r` equals `W²` of the count
model with weight `w` at mean `e·r` (both are `w·e·r`) -/
theorem irls_weight_of_converted_data (w e r : α) (he : e ≠ 0) (hr : r ≠ 0) (hw : w ≠ 0) :
    irlsWeightSq (w * e) r = irlsWeightSq w (e * r) ∧ irlsWeightSq (w * e) r = w * (e * r) := by
  unfold irlsWeightSq
  constructor <;> field_simp

/-- PIRLS pseudo-data: the working residual of the rate `y/e` at `r` is that of the count `y` at
mean `e·r` (so the rate fit is Poisson regression of the counts with offset `log e`) -/
theorem pseudo_data_of_converted_data (lp y e r : α) (he : e ≠ 0) (hr : r ≠ 0) :
    pseudoData lp (y / e) r = pseudoData lp y (e * r) := by
  unfold pseudoData
  field_simp

end field

/-- over `ℝ`: the Poisson log-likelihood kernel of the count `y` at mean `e·r` is `e ×` the kernel
of the rate `y/e` at `r` plus a term free of `r` — both have the same maximiser -/
theorem count_kernel_eq_weighted_rate_kernel (y e r : ℝ) (he : 0 < e) (hr : 0 < r) :
    poissonKernel y (e * r) = e * poissonKernel (y / e) r + y * Real.log e := by
  unfold poissonKernel
  by_cases hy : y = 0
  · subst hy; simp [xlogy_zero]
  · have hye : y / e ≠ 0 := div_ne_zero hy he.ne'
    rw [xlogy_of_ne _ _ hy, xlogy_of_ne _ _ hye, logOp_real, logOp_real,
      Real.log_mul he.ne' hr.ne']
    field_simp
    ring

/-! ### "Predicting with exposure e returns e times the predicted rate" -/

theorem predict_with_exposure [Field α] (cast : α → α) (rate e : Nat → α) (i : Nat) :
    predictExposure cast rate (some e) i = cast (e i) * rate i := by
  simp [predictExposure, optVec, mul_comm]

theorem predict_without_exposure [Field α] (cast : α → α) (rate : Nat → α) (i : Nat) :
    predictExposure cast rate none i = rate i := by
  simp [predictExposure, optVec]

/-! ### "the log-likelihood is the Poisson log-probability of the observed counts at mean rate × exposure" -/

/-- exact statement of the rescaling in `_loglikelihood`, over `ℚ` with the real `np.round`:
for an integer count `y` and exposure `e ≠ 0`, `round((y/e)·(1·e)) = y` -/
theorem rescale_recovers_counts (y : ℤ) (e : ℚ) (he : e ≠ 0) :
    roundHalfEven ((y : ℚ) / e * (1 * e)) = y := by
  rw [rate_mul_exposure _ _ he, roundHalfEven_intCast]

/-- with sample weights the code evaluates the pmf at `round(y·w)` (not at `y`): for integer `y·w`
that is `y·w` -/
theorem rescale_with_weights (y w : ℤ) (e : ℚ) (he : e ≠ 0) :
    roundHalfEven ((y : ℚ) / e * ((w : ℚ) * e)) = y * w := by
  rw [rate_mul_weight _ _ _ he, ← Int.cast_mul, roundHalfEven_intCast]

section loglik
variable [Field α] [LinearOrder α] [LogOp α]

/-- what `loglikelihood(X, y, exposure, weights)` computes in general: with `Wᵢ = f32(wᵢ·eᵢ)` the
Poisson log-pmf of `round(yᵢ/eᵢ · Wᵢ)` at mean `μᵢ · Wᵢ` (`cast` idempotent, as float32 rounding is) -/
theorem loglikelihood_general_cast (cast round norm : α → α) (hc : ∀ x, cast (cast x) = cast x)
    (n : Nat) (mu y e w : Nat → α) :
    loglikelihood cast round norm n mu y (some e) (some w)
      = sumTo n (fun i => poissonLogPmf norm
          (round (y i / cast (e i) * cast (cast (w i) * cast (e i))))
          (mu i * cast (cast (w i) * cast (e i)))) := by
  unfold loglikelihood loglikInner logPdf rescaleCounts exposureToWeights optVec
  apply sumTo_congr; intro i _
  simp only [Option.map_some, hc]

/-- … when the float32 product `w·e` is exact: the log-pmf of `round(yᵢ wᵢ)` at mean `μᵢ · wᵢ · eᵢ`
(sample weights act as a further exposure multiplier *and* rescale the counts) -/
theorem loglikelihood_general (cast round norm : α → α) (hc : ∀ x, cast (cast x) = cast x)
    (n : Nat) (mu y e w : Nat → α) (he : ∀ i < n, cast (e i) ≠ 0)
    (hx : ∀ i < n, cast (cast (w i) * cast (e i)) = cast (w i) * cast (e i)) :
    loglikelihood cast round norm n mu y (some e) (some w)
      = sumTo n (fun i => poissonLogPmf norm (round (y i * cast (w i)))
          (mu i * (cast (w i) * cast (e i)))) := by
  rw [loglikelihood_general_cast cast round norm hc]
  apply sumTo_congr; intro i hi
  rw [hx i hi, rate_mul_weight _ _ _ (he i hi)]

/-- the property sentence: without sample weights and for counts (`round yᵢ = yᵢ`) the
log-likelihood is `Σ logpmf(yᵢ ; μᵢ · eᵢ)`, the Poisson log-probability of the observed counts at
mean rate × exposure, with `logpmf(k; m) = k log m − m − log k!` -/
theorem loglikelihood_is_poisson_at_rate_times_exposure (cast round norm : α → α)
    (hc : ∀ x, cast (cast x) = cast x)
    (n : Nat) (mu y e : Nat → α) (he : ∀ i < n, cast (e i) ≠ 0)
    (hy : ∀ i < n, round (y i) = y i) :
    loglikelihood cast round norm n mu y (some e) none
      = sumTo n (fun i => poissonLogPmf norm (y i) (mu i * cast (e i))) := by
  unfold loglikelihood loglikInner logPdf rescaleCounts exposureToWeights optVec
  apply sumTo_congr; intro i hi
  simp only [Option.map_none, one_mul, hc]
  rw [div_mul_cancel₀ _ (he i hi), hy i hi]

/-- … and without exposure at mean `μᵢ` -/
theorem loglikelihood_without_exposure (cast round norm : α → α) (h1 : cast 1 = 1)
    (n : Nat) (mu y : Nat → α) (hy : ∀ i < n, round (y i) = y i) :
    loglikelihood cast round norm n mu y none none
      = sumTo n (fun i => poissonLogPmf norm (y i) (mu i)) := by
  unfold loglikelihood loglikInner logPdf rescaleCounts exposureToWeights optVec
  apply sumTo_congr; intro i hi
  simp [hy i hi, h1]

/-- the pmf itself: `logpmf(k; m) = k log m − m − norm k` for `k ≠ 0`, `−m − norm 0` for `k = 0` -/
theorem poissonLogPmf_eq (norm : α → α) (k m : α) :
    poissonLogPmf norm k m = (if k = 0 then 0 else k * LogOp.log m) - m - norm k := by
  unfold poissonLogPmf poissonKernel
  by_cases hk : k = 0
  · subst hk; simp [xlogy_zero]
  · simp [xlogy_of_ne _ _ hk, hk]

end loglik

/-! ### every statistic / gridsearch objective derived from the log-likelihood is the one of the COUNTS

`PoissonGAM.fit(X, y, exposure, weights)` hands the *converted* data to `GAM.fit`, whose
`_estimate_model_statistics` computes `statistics_['loglikelihood' | 'AIC' | 'AICc' | 'UBRE' | 'pseudo_r2']`
from it (`Model/ExposureStats.lean`).  Because `PoissonGAM._loglikelihood` turns the rates back into counts,
these are the statistics of the counts at mean rate × exposure — also the scores `gridsearch` compares. -/

section stats
variable [Field α] [LinearOrder α] [IsStrictOrderedRing α] [LogOp α]

/-- the log-likelihood `_estimate_model_statistics` works with during a fit with exposure *is* the public
`loglikelihood(X, y, exposure, weights)` at the training data (for an idempotent cast, as float32 rounding is) -/
theorem fit_loglik_eq_loglikelihood (cast round norm : α → α) (hc : ∀ x, cast (cast x) = cast x)
    (n : Nat) (mu y : Nat → α) (e w : Option (Nat → α)) :
    fitLoglik cast round norm n mu y e w = loglikelihood cast round norm n mu y e w := by
  unfold fitLoglik loglikelihood fitRates fitWeights loglikInner logPdf rescaleCounts exposureToWeights
  apply sumTo_congr; intro i _
  cases w <;> simp [optVec, hc]

/-- `statistics_['loglikelihood']` of a fit with exposure (no sample weights, counts `y`): the Poisson
log-probability of the observed counts at mean rate × exposure -/
theorem fit_loglik_is_poisson_at_rate_times_exposure (cast round norm : α → α)
    (hc : ∀ x, cast (cast x) = cast x) (n : Nat) (mu y e : Nat → α) (he : ∀ i < n, cast (e i) ≠ 0)
    (hy : ∀ i < n, round (y i) = y i) :
    fitLoglik cast round norm n mu y (some e) none
      = sumTo n (fun i => poissonLogPmf norm (y i) (mu i * cast (e i))) := by
  rw [fit_loglik_eq_loglikelihood cast round norm hc,
    loglikelihood_is_poisson_at_rate_times_exposure cast round norm hc n mu y e he hy]

/-- `statistics_['AIC']` (the score of `gridsearch(objective='AIC')`): `-2 Σ logpmf(yᵢ ; μᵢ eᵢ) + 2 edof` -/
theorem fit_aic_is_count_aic (cast round norm : α → α) (hc : ∀ x, cast (cast x) = cast x)
    (n : Nat) (mu y e : Nat → α) (edof : α) (he : ∀ i < n, cast (e i) ≠ 0)
    (hy : ∀ i < n, round (y i) = y i) :
    fitAIC cast round norm n mu y (some e) none edof
      = -2 * sumTo n (fun i => poissonLogPmf norm (y i) (mu i * cast (e i))) + 2 * edof := by
  unfold fitAIC
  rw [aic_known, fit_loglik_is_poisson_at_rate_times_exposure cast round norm hc n mu y e he hy]

/-- `statistics_['AICc']` (the score of `gridsearch(objective='AICc')`) -/
theorem fit_aicc_is_count_aicc (cast round norm : α → α) (hc : ∀ x, cast (cast x) = cast x)
    (n : Nat) (mu y e : Nat → α) (edof : α) (he : ∀ i < n, cast (e i) ≠ 0)
    (hy : ∀ i < n, round (y i) = y i) :
    fitAICc cast round norm n mu y (some e) none edof
      = -2 * sumTo n (fun i => poissonLogPmf norm (y i) (mu i * cast (e i))) + 2 * edof
        + 2 * (edof + 1) * (edof + 2) / ((n : α) - edof - 2) := by
  unfold fitAICc
  rw [aicc_eq, fit_aic_is_count_aic cast round norm hc n mu y e edof he hy]

/-- with sample weights (exact float32 product): the AIC of the counts `round(yᵢ wᵢ)` at mean `μᵢ wᵢ eᵢ` -/
theorem fit_aic_weighted (cast round norm : α → α) (hc : ∀ x, cast (cast x) = cast x)
    (n : Nat) (mu y e w : Nat → α) (edof : α) (he : ∀ i < n, cast (e i) ≠ 0)
    (hx : ∀ i < n, cast (cast (w i) * cast (e i)) = cast (w i) * cast (e i)) :
    fitAIC cast round norm n mu y (some e) (some w) edof
      = -2 * sumTo n (fun i => poissonLogPmf norm (round (y i * cast (w i)))
          (mu i * (cast (w i) * cast (e i)))) + 2 * edof := by
  unfold fitAIC
  rw [aic_known, fit_loglik_eq_loglikelihood cast round norm hc,
    loglikelihood_general cast round norm hc n mu y e w he hx]

/-- the deviance `_estimate_model_statistics` works with is the weighted Poisson deviance of the counts at mean
exposure × rate -/
theorem fit_deviance_is_count_deviance (cast : α → α) (hc : ∀ x, cast (cast x) = cast x)
    (n : Nat) (mu y e w : Nat → α) (he : ∀ i < n, cast (e i) ≠ 0)
    (hx : ∀ i < n, cast (cast (w i) * cast (e i)) = cast (w i) * cast (e i)) :
    fitDeviance cast n mu y (some e) (some w)
      = weightedDev n y (fun i => cast (e i) * mu i) (fun i => cast (w i)) := by
  rw [← weighted_deviance_of_converted_data cast n y e w mu he hx]
  unfold fitDeviance fitRates weightedDev
  apply sumTo_congr; intro i _
  rw [fitWeights_some_some cast hc]
  simp [exposureToWeights, optVec]

/-- `statistics_['UBRE']` (the score of `gridsearch(objective='UBRE' | 'auto')`): the deviance of the counts
over `n` plus `2 γ edof / n`, `γ = 1.4` -/
theorem fit_ubre_is_count_ubre (cast : α → α) (hc : ∀ x, cast (cast x) = cast x)
    (n : Nat) (mu y e w : Nat → α) (edof : α) (he : ∀ i < n, cast (e i) ≠ 0)
    (hx : ∀ i < n, cast (cast (w i) * cast (e i)) = cast (w i) * cast (e i)) :
    fitUBRE cast n mu y (some e) (some w) edof
      = weightedDev n y (fun i => cast (e i) * mu i) (fun i => cast (w i)) / (n : α)
        + 2 * (14 / 10) * edof / (n : α) := by
  unfold fitUBRE
  rw [ubre_known, fit_deviance_is_count_deviance cast hc n mu y e w he hx]

/-- `pseudo_r2['McFadden']`: one minus the ratio of the log-probability of the counts at mean `μᵢ eᵢ` to that at
mean `r̄ eᵢ`, `r̄` the mean observed rate (the null model of `_estimate_r2`) -/
theorem fit_mcfadden_is_count_mcfadden (cast round norm : α → α) (hc : ∀ x, cast (cast x) = cast x)
    (n : Nat) (mu y e : Nat → α) (he : ∀ i < n, cast (e i) ≠ 0) (hy : ∀ i < n, round (y i) = y i) :
    fitMcFadden cast round norm n mu y (some e) none
      = 1 - sumTo n (fun i => poissonLogPmf norm (y i) (mu i * cast (e i)))
          / sumTo n (fun i => poissonLogPmf norm (y i)
              (sumTo n (fun j => y j / cast (e j)) / (n : α) * cast (e i))) := by
  unfold fitMcFadden Stats.mcFadden
  rw [fit_loglik_is_poisson_at_rate_times_exposure cast round norm hc n mu y e he hy,
    fit_loglik_is_poisson_at_rate_times_exposure cast round norm hc n _ y e he hy]
  simp only [fitNullMu, Stats.meanOf, natTo_eq_cast']
  rfl

end stats

/-! ### the unit of the exposure is immaterial

Expressing the exposure in another unit (`e ↦ c e`, e.g. person-years → 10⁹ person-years, `c = 10⁻⁹`) changes the
rates to `rate / c` and nothing else: the objective of the fit and the log-likelihood are those of the counts. -/

section units
variable [Field α] [LinearOrder α] [IsStrictOrderedRing α] [LogOp α]

/-- the weighted deviance of the data converted with exposure `c e` at rates `r / c` is the one of the data
converted with exposure `e` at rates `r` (exact arithmetic) -/
theorem exposure_unit_change_deviance (n : Nat) (c : α) (hc : c ≠ 0) (y e w r : Nat → α)
    (he : ∀ i < n, e i ≠ 0) :
    weightedDev n (exposureToWeights id y (some (fun i => c * e i)) (some w)).1 (fun i => r i / c)
        (exposureToWeights id y (some (fun i => c * e i)) (some w)).2
      = weightedDev n (exposureToWeights id y (some e) (some w)).1 r
        (exposureToWeights id y (some e) (some w)).2 := by
  rw [weighted_deviance_of_converted_data id n y (fun i => c * e i) w (fun i => r i / c)
        (fun i hi => mul_ne_zero hc (he i hi)) (fun _ _ => rfl),
    weighted_deviance_of_converted_data id n y e w r he (fun _ _ => rfl)]
  unfold weightedDev
  apply sumTo_congr; intro i _
  simp only [id]
  congr 2
  field_simp

/-- … and so is the log-likelihood: at rates `μ / c` with exposure `c e` it is the one at rates `μ` with exposure `e` -/
theorem exposure_unit_change_loglikelihood (round norm : α → α) (n : Nat) (c : α) (hc : c ≠ 0)
    (mu y e : Nat → α) (he : ∀ i < n, e i ≠ 0) (hy : ∀ i < n, round (y i) = y i) :
    loglikelihood id round norm n (fun i => mu i / c) y (some (fun i => c * e i)) none
      = loglikelihood id round norm n mu y (some e) none := by
  rw [loglikelihood_is_poisson_at_rate_times_exposure id round norm (fun _ => rfl) n _ y _
        (fun i hi => mul_ne_zero hc (he i hi)) hy,
    loglikelihood_is_poisson_at_rate_times_exposure id round norm (fun _ => rfl) n mu y e he hy]
  apply sumTo_congr; intro i _
  simp only [id]
  congr 1
  field_simp

end units

/-! ### "gridsearch returns a fitted model minimising the requested objective"

`PoissonGAM.gridsearch` is `GAM.gridsearch` on the converted data (`gridsearch_eq_base_gridsearch_on_rates`); the
candidate loop of `GAM.gridsearch` is `Search.loop` (`Model/Search.lean`, tied to the code by C10).  Its scores are
`statistics_[objective]` of the candidates, i.e. the `fitAIC / fitAICc / fitUBRE` above — finite numbers. -/

/-- if at least one candidate can be fitted and has a score below `inf` (any finite AIC / AICc / UBRE), the search
on a not-yet-fitted model ends with a best model (so `self` is returned fitted), that model is one of the
candidates and its score is the minimum of the scores of all fitted candidates -/
theorem gridsearch_returns_fitted_minimiser [LinearOrder α] (inf : α) (outs : List (Option α)) (s : α)
    (hs : some s ∈ outs) (hlt : s < inf) :
    ∃ r, (Search.loop inf none outs).best = some r
      ∧ (r, (Search.loop inf none outs).bestScore) ∈ (Search.loop inf none outs).models
      ∧ ∀ x ∈ (Search.loop inf none outs).models, (Search.loop inf none outs).bestScore ≤ x.2 :=
  loop_best_of_finite inf outs s hs hlt

/-- conversely (what goes wrong when the objective of every candidate is `inf`): no candidate is ever `< inf`, there
is no best model and `self` stays unfitted -/
theorem gridsearch_all_inf_has_no_best [LinearOrder α] (inf : α) (outs : List (Option α))
    (h : ∀ o ∈ outs, o = none ∨ o = some inf) :
    (Search.loop inf none outs).best = none := by
  have key : ∀ (st : Search.LoopState α) (i : Nat), st.best = none → st.bestScore = inf →
      (∀ o ∈ outs, o = none ∨ o = some inf) → (Search.loopFrom st i outs).best = none := by
    induction outs with
    | nil => intro st i hb _ _; exact hb
    | cons o os ih =>
      intro st i hb hsc ho
      have ho' : ∀ o ∈ os, o = none ∨ o = some inf := fun o' h' => ho o' (List.mem_cons_of_mem _ h')
      rcases ho o (List.mem_cons_self) with rfl | rfl
      · exact ih (fun o' h' => h o' (List.mem_cons_of_mem _ h')) st (i + 1) hb hsc ho'
      · have hstep : (Search.step st i (some inf)).best = none
            ∧ (Search.step st i (some inf)).bestScore = inf := by
          unfold Search.step
          simp [hsc, hb]
        exact ih (fun o' h' => h o' (List.mem_cons_of_mem _ h')) _ (i + 1) hstep.1 hstep.2 ho'
  exact key (Search.initState inf none) 0 rfl rfl h

/-! ### non-vacuity: concrete instances of the hypotheses, evaluated -/

example : roundHalfEven ((7 : ℚ) / (3/8) * (1 * (3/8))) = 7 := by
  have := rescale_recovers_counts 7 (3/8) (by norm_num); simpa using this
example : (exposureToWeights (α := ℚ) id (fun _ => 6) (some (fun _ => 3/2)) (some (fun _ => 2))).1 0 = 4
    ∧ (exposureToWeights (α := ℚ) id (fun _ => 6) (some (fun _ => 3/2)) (some (fun _ => 2))).2 0 = 3 := by
  constructor <;> norm_num [exposureToWeights, optVec]
example : roundHalfEven (5/2) = 2 ∧ roundHalfEven (7/2) = 4 ∧ roundHalfEven (-5/2) = -2 := by decide +kernel
example : castF32 (1/10) = 13421773/134217728 := by decide +kernel
/-- the hypotheses of `gridsearch_returns_fitted_minimiser` / `gridsearch_all_inf_has_no_best` on concrete searches
(`inf := 1000`): a skipped candidate, then AIC 7, then AIC 5 → the third candidate is kept; all-`inf` → none -/
example : (Search.loop (1000 : Int) none [none, some 7, some 5]).best = some (Search.Ref.cand 2) := by decide
example : (Search.loop (1000 : Int) none [some 1000, none, some 1000]).best = none := by decide

/-! ### Second tie: the arithmetic of `_exposure_to_weights`, translated from the current source

`Gen/Formulas.lean` is regenerated on every run from the abstract syntax tree of `pygam/pygam.py`:
`Gen.exposure_to_weights_core` is the pair of arithmetic assignments of `PoissonGAM._exposure_to_weights`
(`y = y / exposure`, `weights = weights * exposure`) and its final `return y, weights`, one entry at a time.  Validation,
the float32 casts and the `None` defaults are the hand-written model's (`optVec`), tied by the correspondence streams. -/
section gen_formulas
variable [Field α] [LinearOrder α] [IsStrictOrderedRing α] [HasLogSqrt α]

/-- the translated arithmetic IS the model's `exposureToWeights`, entry by entry, for every cast and every combination
of given / omitted exposure and weights: rate = count / (cast) exposure, weight = (cast) weight × (cast) exposure, the
model's outer float32 rounding of the product applied on top -/
theorem gen_formula_exposure_to_weights (cast : α → α) (y : Nat → α) (e w : Option (Nat → α)) (i : Nat) :
    ((exposureToWeights cast y e w).1 i, (exposureToWeights cast y e w).2 i)
      = ((Gen.exposure_to_weights_core (y i) (optVec cast e i) (optVec cast w i)).1,
         cast (Gen.exposure_to_weights_core (y i) (optVec cast e i) (optVec cast w i)).2) := rfl

/-- in exact arithmetic (`cast = id`) with both vectors given, the model's result is the translated source, entrywise -/
theorem gen_formula_exposure_to_weights_exact (y e w : Nat → α) (i : Nat) :
    ((exposureToWeights id y (some e) (some w)).1 i, (exposureToWeights id y (some e) (some w)).2 i)
      = Gen.exposure_to_weights_core (y i) (e i) (w i) := rfl

/-- the final `return self.predict_mu(X) * exposure` of `PoissonGAM.predict`, translated from the current source
(`Gen.poisson_predict`), IS the model's `predictExposure`, entry by entry: predicted rate × (cast, or omitted = 1)
exposure -/
theorem gen_formula_poisson_predict (cast : α → α) (rate : Nat → α) (e : Option (Nat → α)) (i : Nat) :
    predictExposure cast rate e i = Gen.poisson_predict (rate i) (optVec cast e i) := rfl

end gen_formulas

end PyGam.C19
