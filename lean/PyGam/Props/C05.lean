import PyGam.Proofs.Penalty
import PyGam.Proofs.Kron
import PyGam.Proofs.SplineShapeRows
import PyGam.Proofs.SplineConvex
import PyGam.Proofs.ConstraintBound
import PyGam.Proofs.SplineAlmostMono
import Mathlib.Algebra.Order.Ring.Defs
import Mathlib.Tactic.Linarith
import Mathlib.Tactic.Positivity
import PyGam.Gen.Tables
/-!
# C05 — shape constraints (coefficient level)

Each constraint matrix `monotonicity_(n, coef, increasing)` / `convexity_(n, coef, convex)` is symmetric
positive semi-definite, its quadratic form is the sum of squared *violating* first (monotone) resp. second
(convex / concave) differences, and it vanishes exactly when the coefficients satisfy the constraint.
For all sizes and all coefficient vectors over any linear ordered commutative ring.
-/
open Finset
namespace PyGam.C05
open PyGam
variable {α : Type} [CommRing α] [LinearOrder α] [IsStrictOrderedRing α]

/-- `xᵀ (D·mask)(D·mask)ᵀ x = Σ_k ((Δ^d x)_k · mask_k)²` -/
theorem quadForm_maskedPen (n d : Nat) (mask x : Nat → α) :
    quadForm n (maskedPen n d mask) x = ∑ k ∈ range (n - d), (iterDiffVec d x k * mask k) ^ 2 := by
  unfold maskedPen
  rw [quadForm_gram n (n - d) (fun i k => diffMat (α := α) d i k * mask k) x]
  exact sum_congr rfl (fun k hk => by rw [comb_masked n d x mask k (mem_range.mp hk)])

theorem maskedPen_symm (n d : Nat) (mask : Nat → α) (i j : Nat) :
    maskedPen n d mask i j = maskedPen n d mask j i := by
  simp only [maskedPen]; congr 1; funext k; ring

theorem maskedPen_psd (n d : Nat) (mask x : Nat → α) : 0 ≤ quadForm n (maskedPen n d mask) x := by
  rw [quadForm_maskedPen]; exact sum_nonneg (fun k _ => sq_nonneg _)

/-- monotone-increasing constraint at the current coefficients: the sum of the squared *negative*
first differences -/
theorem quadForm_monoInc (n : Nat) (c : Nat → α) :
    quadForm n (monoPen true n c) c
      = ∑ k ∈ range (n - 1), (if c (k+1) - c k < 0 then (c (k+1) - c k) ^ 2 else 0) := by
  unfold monoPen; rw [quadForm_maskedPen]
  apply sum_congr rfl; intro k _
  simp only [iterDiffVec, diffVec, monoMask, if_true]
  by_cases h : c (k+1) - c k < 0
  · simp [h]
  · simp [h]

/-- monotone-decreasing: the squared *positive* first differences -/
theorem quadForm_monoDec (n : Nat) (c : Nat → α) :
    quadForm n (monoPen false n c) c
      = ∑ k ∈ range (n - 1), (if 0 < c (k+1) - c k then (c (k+1) - c k) ^ 2 else 0) := by
  unfold monoPen; rw [quadForm_maskedPen]
  apply sum_congr rfl; intro k _
  simp only [iterDiffVec, diffVec, monoMask, Bool.false_eq_true, if_false]
  by_cases h : 0 < c (k+1) - c k
  · simp [h]
  · simp [h]

/-- convex: the squared *negative* second differences -/
theorem quadForm_convex (n : Nat) (c : Nat → α) :
    quadForm n (convPen true n c) c
      = ∑ k ∈ range (n - 2), (if iterDiffVec 2 c k < 0 then (iterDiffVec 2 c k) ^ 2 else 0) := by
  unfold convPen; rw [quadForm_maskedPen]
  apply sum_congr rfl; intro k _
  simp only [convMask, if_true]
  by_cases h : iterDiffVec 2 c k < 0
  · simp [h]
  · simp [h]

/-- concave: the squared *positive* second differences -/
theorem quadForm_concave (n : Nat) (c : Nat → α) :
    quadForm n (convPen false n c) c
      = ∑ k ∈ range (n - 2), (if 0 < iterDiffVec 2 c k then (iterDiffVec 2 c k) ^ 2 else 0) := by
  unfold convPen; rw [quadForm_maskedPen]
  apply sum_congr rfl; intro k _
  simp only [convMask, Bool.false_eq_true, if_false]
  by_cases h : 0 < iterDiffVec 2 c k
  · simp [h]
  · simp [h]

/-- the monotone-increasing constraint vanishes exactly when the coefficients are non-decreasing -/
theorem monoInc_zero_iff (n : Nat) (c : Nat → α) :
    quadForm n (monoPen true n c) c = 0 ↔ ∀ k, k < n - 1 → c k ≤ c (k+1) := by
  rw [quadForm_monoInc]
  rw [sum_eq_zero_iff_of_nonneg (fun k _ => by split <;> positivity)]
  constructor
  · intro h k hk
    have := h k (mem_range.mpr hk)
    by_contra hlt
    have hneg : c (k+1) - c k < 0 := by linarith [not_le.mp hlt]
    rw [if_pos hneg] at this
    have : c (k+1) - c k = 0 := by simpa using this
    linarith
  · intro h k hk
    have := h k (mem_range.mp hk)
    rw [if_neg (by linarith)]

theorem monoDec_zero_iff (n : Nat) (c : Nat → α) :
    quadForm n (monoPen false n c) c = 0 ↔ ∀ k, k < n - 1 → c (k+1) ≤ c k := by
  rw [quadForm_monoDec]
  rw [sum_eq_zero_iff_of_nonneg (fun k _ => by split <;> positivity)]
  constructor
  · intro h k hk
    have := h k (mem_range.mpr hk)
    by_contra hlt
    have hpos : 0 < c (k+1) - c k := by linarith [not_le.mp hlt]
    rw [if_pos hpos] at this
    have : c (k+1) - c k = 0 := by simpa using this
    linarith
  · intro h k hk
    have := h k (mem_range.mp hk)
    rw [if_neg (by linarith)]

/-- convex constraint vanishes exactly when all second differences are non-negative -/
theorem convex_zero_iff (n : Nat) (c : Nat → α) :
    quadForm n (convPen true n c) c = 0 ↔ ∀ k, k < n - 2 → 0 ≤ iterDiffVec 2 c k := by
  rw [quadForm_convex]
  rw [sum_eq_zero_iff_of_nonneg (fun k _ => by split <;> positivity)]
  constructor
  · intro h k hk
    have := h k (mem_range.mpr hk)
    by_contra hlt
    have hneg : iterDiffVec 2 c k < 0 := not_le.mp hlt
    rw [if_pos hneg] at this
    have : iterDiffVec 2 c k = 0 := by simpa using this
    linarith
  · intro h k hk
    have := h k (mem_range.mp hk)
    rw [if_neg (by linarith)]

theorem concave_zero_iff (n : Nat) (c : Nat → α) :
    quadForm n (convPen false n c) c = 0 ↔ ∀ k, k < n - 2 → iterDiffVec 2 c k ≤ 0 := by
  rw [quadForm_concave]
  rw [sum_eq_zero_iff_of_nonneg (fun k _ => by split <;> positivity)]
  constructor
  · intro h k hk
    have := h k (mem_range.mpr hk)
    by_contra hlt
    have hpos : 0 < iterDiffVec 2 c k := not_le.mp hlt
    rw [if_pos hpos] at this
    have : iterDiffVec 2 c k = 0 := by simpa using this
    linarith
  · intro h k hk
    have := h k (mem_range.mp hk)
    rw [if_neg (by linarith)]

/-- every constraint kind: symmetric and positive semi-definite as a quadratic form in any `x` -/
theorem conMatrix_psd (n : Nat) (c x : Nat → α) (k : ConKind) : 0 ≤ quadForm n (conMatrix n c k) x := by
  cases k
  · have : conMatrix n c ConKind.none = fun _ _ => (0:α) := rfl
    rw [this, quadForm_zero]
  all_goals (simp only [conMatrix, convPen, monoPen]; exact maskedPen_psd _ _ _ _)

theorem conMatrix_symm (n : Nat) (c : Nat → α) (k : ConKind) (i j : Nat) :
    conMatrix n c k i j = conMatrix n c k j i := by
  cases k
  · rfl
  all_goals (simp only [conMatrix, convPen, monoPen]; exact maskedPen_symm _ _ _ _ _)

/-! ### function level: the shape of the coefficients is the shape of the spline -/
section function_level
variable {β : Type} [Field β] [LinearOrder β] [IsStrictOrderedRing β] [HasFract β]

/-- the fitted function of a (non-periodic) spline term with coefficients `c` -/
def splineFn (ε : β) (cfg : BasisCfg β) (c : Nat → β) (x : β) : β :=
  ∑ j ∈ range cfg.nSplines, c j * basisRow ε cfg x j

theorem splineFn_eq (ε : β) (cfg : BasisCfg β) (hper : cfg.periodic = false) (c : Nat → β) (x : β) :
    splineFn ε cfg c x = splineVal cfg.nSplines cfg.order ε c (cfg.rescale x) := by
  simp [splineFn, splineVal, basisRow, hper]

theorem rescale_mono (cfg : BasisCfg β) (x x' : β) (h : x ≤ x') : cfg.rescale x ≤ cfg.rescale x' := by
  have hs : 0 < cfg.scale := by
    have hl : cfg.lo ≤ cfg.hi := by
      simp only [BasisCfg.lo, BasisCfg.hi]; split <;> [exact le_of_lt ‹_›; exact not_lt.mp ‹_›]
    simp only [BasisCfg.scale]; split
    · exact zero_lt_one
    · rename_i hne; exact lt_of_le_of_ne (by linarith) (Ne.symm hne)
  simp only [BasisCfg.rescale]
  exact div_le_div_of_nonneg_right (by linarith) (le_of_lt hs)

/-- **monotone increasing**: if the coefficients are non-decreasing (exactly when the monotonic_inc
constraint matrix vanishes, `monoInc_zero_iff`) the spline of order ≥ 1 is non-decreasing on the whole
real line — inside the knot range and on both linear continuations -/
theorem spline_mono_of_coef_mono (ε : β) (hε : 0 ≤ ε) (cfg : BasisCfg β) (hper : cfg.periodic = false)
    (hn : cfg.order < cfg.nSplines) (hp : 0 < cfg.order) (c : Nat → β)
    (hc : ∀ j, j + 1 < cfg.nSplines → c j ≤ c (j+1)) (x x' : β) (hxx : x ≤ x') :
    splineFn ε cfg c x ≤ splineFn ε cfg c x' := by
  rw [splineFn_eq ε cfg hper, splineFn_eq ε cfg hper]
  exact splineVal_mono _ _ ε hn hp hε c hc _ _ (rescale_mono cfg x x' hxx)

/-- **monotone decreasing** -/
theorem spline_anti_of_coef_anti (ε : β) (hε : 0 ≤ ε) (cfg : BasisCfg β) (hper : cfg.periodic = false)
    (hn : cfg.order < cfg.nSplines) (hp : 0 < cfg.order) (c : Nat → β)
    (hc : ∀ j, j + 1 < cfg.nSplines → c (j+1) ≤ c j) (x x' : β) (hxx : x ≤ x') :
    splineFn ε cfg c x' ≤ splineFn ε cfg c x := by
  have h := spline_mono_of_coef_mono ε hε cfg hper hn hp (fun j => - c j)
    (fun j hj => by have := hc j hj; linarith) x x' hxx
  have e : ∀ z, splineFn ε cfg (fun j => - c j) z = - splineFn ε cfg c z := by
    intro z; simp [splineFn, sum_neg_distrib]
  rw [e, e] at h; linarith

/-- order 0 (piecewise constant) is covered inside the knot range -/
theorem spline_mono_inside_any_order (ε : β) (hε : 0 ≤ ε) (cfg : BasisCfg β) (hper : cfg.periodic = false)
    (hn : cfg.order < cfg.nSplines) (hε0 : cfg.order = 0 → 0 < ε) (c : Nat → β)
    (hc : ∀ j, j + 1 < cfg.nSplines → c j ≤ c (j+1)) (x x' : β)
    (h0 : 0 ≤ cfg.rescale x) (hxx : x ≤ x') (h1 : cfg.rescale x' ≤ 1) :
    splineFn ε cfg c x ≤ splineFn ε cfg c x' := by
  rw [splineFn_eq ε cfg hper, splineFn_eq ε cfg hper]
  exact splineVal_mono_inside _ _ ε hn hε hε0 c hc _ _ h0 (rescale_mono cfg x x' hxx) h1

/-! #### convex / concave (over `ℝ`; any wrap function `HasFract ℝ`, which a non-periodic term never calls) -/

/-- **convex, everywhere**: if the second differences of the coefficients are non-negative (exactly when the
convex constraint matrix vanishes, `convex_zero_iff`) the spline of order ≥ 1 is a convex function on the
whole real line — inside the knot range and on both linear continuations (the left one is the tangent at the
lower edge knot, the right one is at least as steep as every slope inside). `ε ≥ 0` is the perturbation of the
last knot (`1e-9` in the code). No differentiability at the knots is used: order 1 (piecewise linear) is covered.
Order 0 is excluded because it is false there (a non-constant step function is not convex). -/
theorem spline_convex_everywhere_of_coef_convex [HasFract ℝ] (ε : ℝ) (hε : 0 ≤ ε) (cfg : BasisCfg ℝ)
    (hper : cfg.periodic = false) (hn : cfg.order < cfg.nSplines) (hp : 0 < cfg.order) (c : Nat → ℝ)
    (hc : ∀ j, j + 2 < cfg.nSplines → c (j+1) - c j ≤ c (j+2) - c (j+1)) :
    ConvexOn ℝ Set.univ (splineFn ε cfg c) := by
  have h := convexOn_comp_rescale cfg (splineVal_convexOn_univ cfg.nSplines ε cfg.order hn hp hε c hc)
  rw [Set.preimage_univ] at h
  have e : splineFn ε cfg c = fun x => splineVal cfg.nSplines cfg.order ε c (cfg.rescale x) := by
    funext x; exact splineFn_eq ε cfg hper c x
  rw [e]; exact h

/-- **convex on the term's domain** `[lo, hi]` (the sorted edge knots): the statement of the property -/
theorem spline_convex_of_coef_convex [HasFract ℝ] (ε : ℝ) (hε : 0 ≤ ε) (cfg : BasisCfg ℝ)
    (hper : cfg.periodic = false) (hn : cfg.order < cfg.nSplines) (hp : 0 < cfg.order) (c : Nat → ℝ)
    (hc : ∀ j, j + 2 < cfg.nSplines → c (j+1) - c j ≤ c (j+2) - c (j+1)) :
    ConvexOn ℝ (Set.Icc cfg.lo cfg.hi) (splineFn ε cfg c) := by
  have h := convexOn_comp_rescale cfg (splineVal_convexOn_Icc cfg.nSplines ε cfg.order hn hp hε c hc)
  have e : splineFn ε cfg c = fun x => splineVal cfg.nSplines cfg.order ε c (cfg.rescale x) := by
    funext x; exact splineFn_eq ε cfg hper c x
  rw [e]
  exact h.subset (fun x hx => rescale_mem_unit cfg x hx) (convex_Icc _ _)

/-- **concave, everywhere**: non-positive second differences (`concave_zero_iff`) give a concave function -/
theorem spline_concave_everywhere_of_coef_concave [HasFract ℝ] (ε : ℝ) (hε : 0 ≤ ε) (cfg : BasisCfg ℝ)
    (hper : cfg.periodic = false) (hn : cfg.order < cfg.nSplines) (hp : 0 < cfg.order) (c : Nat → ℝ)
    (hc : ∀ j, j + 2 < cfg.nSplines → c (j+2) - c (j+1) ≤ c (j+1) - c j) :
    ConcaveOn ℝ Set.univ (splineFn ε cfg c) := by
  have h := spline_convex_everywhere_of_coef_convex ε hε cfg hper hn hp (fun j => - c j)
    (fun j hj => by have := hc j hj; linarith)
  have e : splineFn ε cfg (fun j => - c j) = - splineFn ε cfg c := by
    funext z; simp [splineFn, sum_neg_distrib]
  rw [e] at h
  exact neg_convexOn_iff.mp h

/-- **concave on the term's domain** -/
theorem spline_concave_of_coef_concave [HasFract ℝ] (ε : ℝ) (hε : 0 ≤ ε) (cfg : BasisCfg ℝ)
    (hper : cfg.periodic = false) (hn : cfg.order < cfg.nSplines) (hp : 0 < cfg.order) (c : Nat → ℝ)
    (hc : ∀ j, j + 2 < cfg.nSplines → c (j+2) - c (j+1) ≤ c (j+1) - c j) :
    ConcaveOn ℝ (Set.Icc cfg.lo cfg.hi) (splineFn ε cfg c) := by
  have h := spline_convex_of_coef_convex ε hε cfg hper hn hp (fun j => - c j)
    (fun j hj => by have := hc j hj; linarith)
  have e : splineFn ε cfg (fun j => - c j) = - splineFn ε cfg c := by
    funext z; simp [splineFn, sum_neg_distrib]
  rw [e] at h
  exact neg_convexOn_iff.mp h

/-- the link to the constraint matrix: a vanishing convex constraint at the fitted coefficients gives a convex
fitted function (and likewise concave) -/
theorem spline_convex_of_constraint_zero [HasFract ℝ] (ε : ℝ) (hε : 0 ≤ ε) (cfg : BasisCfg ℝ)
    (hper : cfg.periodic = false) (hn : cfg.order < cfg.nSplines) (hp : 0 < cfg.order) (c : Nat → ℝ)
    (hz : quadForm cfg.nSplines (convPen true cfg.nSplines c) c = 0) :
    ConvexOn ℝ Set.univ (splineFn ε cfg c) := by
  apply spline_convex_everywhere_of_coef_convex ε hε cfg hper hn hp c
  intro j hj
  have := (convex_zero_iff cfg.nSplines c).mp hz j (by omega)
  simp only [iterDiffVec, diffVec] at this
  linarith

theorem spline_concave_of_constraint_zero [HasFract ℝ] (ε : ℝ) (hε : 0 ≤ ε) (cfg : BasisCfg ℝ)
    (hper : cfg.periodic = false) (hn : cfg.order < cfg.nSplines) (hp : 0 < cfg.order) (c : Nat → ℝ)
    (hz : quadForm cfg.nSplines (convPen false cfg.nSplines c) c = 0) :
    ConcaveOn ℝ Set.univ (splineFn ε cfg c) := by
  apply spline_concave_everywhere_of_coef_concave ε hε cfg hper hn hp c
  intro j hj
  have := (concave_zero_iff cfg.nSplines c).mp hz j (by omega)
  simp only [iterDiffVec, diffVec] at this
  linarith

/-- non-vacuity: 5 cubic functions on `[0,2]`, `ε = 1e-9`, coefficients `j²` (second differences `2`): the
hypotheses are met by a genuinely curved instance; mirrored for concave -/
example [HasFract ℝ] :
    ConvexOn ℝ Set.univ (splineFn (1e-9 : ℝ) ⟨5, 3, false, 0, 2⟩ (fun j => (j:ℝ)^2)) :=
  spline_convex_everywhere_of_coef_convex _ (by norm_num) _ rfl (by decide) (by decide) _
    (fun j _ => by push_cast; nlinarith)

example [HasFract ℝ] :
    ConcaveOn ℝ Set.univ (splineFn (1e-9 : ℝ) ⟨5, 3, false, 0, 2⟩ (fun j => -(j:ℝ)^2)) :=
  spline_concave_everywhere_of_coef_concave _ (by norm_num) _ rfl (by decide) (by decide) _
    (fun j _ => by push_cast; nlinarith)

end function_level

/-- non-vacuity: c = (1,3,2,5) violates monotone-increasing once, by 1 -/
example : quadForm 4 (monoPen (α := Int) true 4 (fun k => [1,3,2,5].getD k 0)) (fun k => [1,3,2,5].getD k 0) = 1 := by
  decide

/-! ### how large a violation can a converged soft-constrained fit keep?

The constraint is *soft*: PIRLS adds `lamC · C(β)` (`lamC = 1e9`, `gen_constraint_strength`) and a conditioning
ridge `ρ I` to the penalty of the constrained term, `C(β)` being rebuilt from the coefficients entering the
iteration.  At a fixed point the rows of the penalised normal equations that belong to the term read
`lamC (C(β) β)_i + ρ β_i = r_i`, where `r = Bᵀ W² (z − B β) − (S + P) β` is the score residual of the
*unconstrained* penalised criterion on that block (the working residual in coefficient space).  The theorems below
say that the violating differences are exactly the (double) partial sums of `(r − ρ β) / lamC`, hence bounded by
`(Σ|r_i| + ρ Σ|β_i|) / lamC` (monotone) resp. `n ×` that (convex / concave) — the bound
"of order n × |working residual| / 1e9" of the property — and that the fitted function is then monotone up to
`(n−1) ×` the coefficient bound inside its domain.  The harness validates the hypothesis (the fixed-point rows,
with the mask of the entering coefficients) and the conclusion on real converged fits (`con.violation` stream). -/
section violation_bound
variable {γ : Type} [Field γ] [LinearOrder γ] [IsStrictOrderedRing γ]

/-- **identity behind the bound** (any ring, any mask, any vector — in particular the mask built from the
coefficients *entering* the last iteration and the coefficients it *produced*): the masked first differences are
the negated partial sums of the product with the constraint matrix -/
theorem violations_are_partial_sums (n : Nat) (mask x : Nat → α) (j : Nat) (hj : j < n - 1) :
    mask j * (mask j * (x (j+1) - x j)) = - ∑ i ∈ range (j + 1), mulVec n (maskedPen n 1 mask) x i := by
  have := maskedPen1_partial_sum n mask x j hj
  simp only [maskedViol, diffVec] at this
  rw [this, neg_neg]

/-- second differences: double partial sums -/
theorem violations2_are_double_partial_sums (n : Nat) (mask x : Nat → α) (j : Nat) (hj : j < n - 2) :
    mask j * (mask j * (x (j+2) - x (j+1) - (x (j+1) - x j)))
      = ∑ l ∈ range (j + 1), ∑ i ∈ range (l + 1), mulVec n (maskedPen n 2 mask) x i := by
  have := maskedPen2_double_partial_sum n mask x j hj
  simp only [maskedViol2, iterDiffVec, diffVec] at this
  rw [this]

/-- **monotone constraints**: every violating first difference of a fixed point is at most
`(Σ|r_i| + ρ Σ|β_i|) / lamC` in absolute value -/
theorem mono_fixed_point_violation_bound (incr : Bool) (n : Nat) (c r : Nat → γ) (lamC ρ : γ) (hl : 0 < lamC)
    (hρ : 0 ≤ ρ) (hfix : ∀ i < n, lamC * mulVec n (conMatrix n c (if incr then .monoInc else .monoDec)) c i + ρ * c i = r i)
    (j : Nat) (hj : j + 1 < n) :
    |(if incr then min (c (j+1) - c j) 0 else max (c (j+1) - c j) 0)|
      ≤ (∑ i ∈ range n, |r i| + ρ * ∑ i ∈ range n, |c i|) / lamC := by
  have h := mono_violation_bound incr n c r lamC ρ hl hρ
    (by cases incr <;> simpa [conMatrix] using hfix) j (by omega)
  simpa [violPart, diffVec] using h

/-- **convex / concave constraints**: every violating second difference of a fixed point is at most
`n (Σ|r_i| + ρ Σ|β_i|) / lamC` in absolute value -/
theorem conv_fixed_point_violation_bound (convex : Bool) (n : Nat) (c r : Nat → γ) (lamC ρ : γ) (hl : 0 < lamC)
    (hρ : 0 ≤ ρ) (hfix : ∀ i < n, lamC * mulVec n (conMatrix n c (if convex then .convex else .concave)) c i + ρ * c i = r i)
    (j : Nat) (hj : j + 2 < n) :
    |(if convex then min (c (j+2) - c (j+1) - (c (j+1) - c j)) 0 else max (c (j+2) - c (j+1) - (c (j+1) - c j)) 0)|
      ≤ (n : γ) * (∑ i ∈ range n, |r i| + ρ * ∑ i ∈ range n, |c i|) / lamC := by
  have h := conv_violation_bound convex n c r lamC ρ hl hρ
    (by cases convex <;> simpa [conMatrix] using hfix) j (by omega)
  simpa [violPart2, iterDiffVec, diffVec] using h

variable [HasFract γ]

/-- **function level**: a fixed point of the monotone-increasing soft constraint is non-decreasing inside the
term's domain up to `(n−1) (Σ|r_i| + ρ Σ|β_i|) / lamC` -/
theorem spline_almost_mono_at_fixed_point (ε : γ) (hε : 0 ≤ ε) (cfg : BasisCfg γ) (hper : cfg.periodic = false)
    (hn : cfg.order < cfg.nSplines) (hε0 : cfg.order = 0 → 0 < ε) (c r : Nat → γ) (lamC ρ : γ) (hl : 0 < lamC)
    (hρ : 0 ≤ ρ)
    (hfix : ∀ i < cfg.nSplines,
      lamC * mulVec cfg.nSplines (conMatrix cfg.nSplines c .monoInc) c i + ρ * c i = r i)
    (x x' : γ) (h0 : 0 ≤ cfg.rescale x) (hxx : x ≤ x') (h1 : cfg.rescale x' ≤ 1) :
    splineFn ε cfg c x
        - ((cfg.nSplines - 1 : Nat) : γ)
          * ((∑ i ∈ range cfg.nSplines, |r i| + ρ * ∑ i ∈ range cfg.nSplines, |c i|) / lamC)
      ≤ splineFn ε cfg c x' := by
  rw [splineFn_eq ε cfg hper, splineFn_eq ε cfg hper]
  set δ := (∑ i ∈ range cfg.nSplines, |r i| + ρ * ∑ i ∈ range cfg.nSplines, |c i|) / lamC with hδdef
  have hδ0 : 0 ≤ δ := by
    apply div_nonneg _ (le_of_lt hl)
    have h1 : 0 ≤ ∑ i ∈ range cfg.nSplines, |r i| := sum_nonneg (fun i _ => abs_nonneg _)
    have h2 : 0 ≤ ρ * ∑ i ∈ range cfg.nSplines, |c i| := mul_nonneg hρ (sum_nonneg (fun i _ => abs_nonneg _))
    linarith
  have hδ : ∀ i, i + 1 < cfg.nSplines → -δ ≤ c (i+1) - c i := by
    intro i hi
    have hb := mono_fixed_point_violation_bound true cfg.nSplines c r lamC ρ hl hρ (by simpa using hfix) i hi
    simp only [if_true] at hb
    have := neg_abs_le (min (c (i+1) - c i) 0)
    have hm : min (c (i+1) - c i) 0 ≤ c (i+1) - c i := min_le_left _ _
    linarith
  exact splineVal_almost_mono _ _ ε hn hε hε0 c δ hδ0 hδ _ _ h0 (rescale_mono cfg x x' hxx) h1

/-- the decreasing constraint on `c` is the increasing constraint on `-c` -/
theorem conMatrix_monoDec_neg (n : Nat) (c : Nat → γ) :
    conMatrix n c .monoDec = conMatrix n (fun j => - c j) .monoInc := by
  funext i j
  simp only [conMatrix, monoPen, maskedPen]
  congr 1; funext k
  have hm : monoMask false c k = monoMask true (fun j => - c j) k := by
    simp only [monoMask, diffVec, Bool.false_eq_true, if_false, if_true]
    by_cases h : 0 < c (k+1) - c k
    · have h' : -c (k+1) - -c k < 0 := by linarith
      simp [h, h']; linarith
    · have h' : ¬ (-c (k+1) - -c k < 0) := by intro hh; apply h; linarith
      simp [h, h']; linarith
  rw [hm]

/-- **function level, decreasing**: a fixed point of the monotone-decreasing soft constraint is non-increasing inside the
term's domain up to `(n−1) (Σ|r_i| + ρ Σ|β_i|) / lamC` -/
theorem spline_almost_anti_at_fixed_point (ε : γ) (hε : 0 ≤ ε) (cfg : BasisCfg γ) (hper : cfg.periodic = false)
    (hn : cfg.order < cfg.nSplines) (hε0 : cfg.order = 0 → 0 < ε) (c r : Nat → γ) (lamC ρ : γ) (hl : 0 < lamC)
    (hρ : 0 ≤ ρ)
    (hfix : ∀ i < cfg.nSplines,
      lamC * mulVec cfg.nSplines (conMatrix cfg.nSplines c .monoDec) c i + ρ * c i = r i)
    (x x' : γ) (h0 : 0 ≤ cfg.rescale x) (hxx : x ≤ x') (h1 : cfg.rescale x' ≤ 1) :
    splineFn ε cfg c x'
      ≤ splineFn ε cfg c x
        + ((cfg.nSplines - 1 : Nat) : γ)
          * ((∑ i ∈ range cfg.nSplines, |r i| + ρ * ∑ i ∈ range cfg.nSplines, |c i|) / lamC) := by
  have hneg : ∀ i < cfg.nSplines,
      lamC * mulVec cfg.nSplines (conMatrix cfg.nSplines (fun j => - c j) .monoInc) (fun j => - c j) i + ρ * (- c i)
        = - r i := by
    intro i hi
    have h := hfix i hi
    rw [conMatrix_monoDec_neg] at h
    have e : mulVec cfg.nSplines (conMatrix cfg.nSplines (fun j => - c j) .monoInc) (fun j => - c j) i
        = - mulVec cfg.nSplines (conMatrix cfg.nSplines (fun j => - c j) .monoInc) c i := by
      simp only [mulVec, sumTo_eq, mul_neg, Finset.sum_neg_distrib]
    rw [e]; linarith
  have key := spline_almost_mono_at_fixed_point ε hε cfg hper hn hε0 (fun j => - c j) (fun i => - r i) lamC ρ hl hρ hneg
    x x' h0 hxx h1
  have e1 : ∀ z, splineFn ε cfg (fun j => - c j) z = - splineFn ε cfg c z := by
    intro z; simp [splineFn, Finset.sum_neg_distrib]
  simp only [e1, abs_neg] at key
  linarith

end violation_bound

/-- non-vacuity of the fixed-point hypothesis: `c = (1, 0)` violates monotone-increasing by `-1`; with
`lamC = 10`, `ρ = 0` the constraint rows are `r = (10, -10)` and the bound `(10 + 10)/10 = 2 ≥ 1` holds
(the identity gives exactly `-(10)/10 = -1`) -/
example : ∀ i < 2, (10:ℚ) * mulVec 2 (conMatrix 2 (fun k => [(1:ℚ), 0].getD k 0) .monoInc)
    (fun k => [(1:ℚ), 0].getD k 0) i + 0 * (fun k => [(1:ℚ), 0].getD k 0) i = (fun k => [(10:ℚ), -10].getD k 0) i := by
  intro i hi
  have hcases : i = 0 ∨ i = 1 := by omega
  rcases hcases with rfl | rfl <;> simp [mulVec, sumTo, conMatrix, monoPen, maskedPen, monoMask, diffMat, iterDiffLast, diffLast,
    ident, diffVec] <;> norm_num

/-! ### tie to the source by translation -/

/-- the soft-constraint strength is `1e9`, the conditioning ridge starts at `1e-3` and is capped at `1e-1` -/
theorem gen_constraint_strength :
    Gen.constraintLam = some (mkRat 1000000000 1) ∧ Gen.constraintL2 = some (mkRat 1 1000) ∧ Gen.constraintL2Max = some (mkRat 1 10) := by
  decide +kernel

/-- the constraint registry of the source is the one modelled by `ConKind` -/
theorem gen_constraint_names :
    Gen.constraintNames = some ["concave", "convex", "monotonic_dec", "monotonic_inc", "none"] := by decide

end PyGam.C05
