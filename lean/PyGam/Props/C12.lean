import PyGam.Proofs.Invariance
import PyGam.Proofs.NormalEq
import PyGam.Model.Predict
import Mathlib.Data.Matrix.Mul
import Mathlib.Algebra.Order.BigOperators.Ring.Finset
import Mathlib.Tactic.LinearCombination
import Mathlib.Tactic.Positivity
/-!
# C12 — fits are invariant to row order, feature units and equivalent weight encodings; LinearGAM is linear in y

The fit is "the solution of the penalised normal equations `(BᵀW²B + A) β = BᵀW² z`" (normal / identity: with
`W² = w`, `z = y`, C01 `solve_correct` / `normal_eq_is_minimiser`) or a fixed point of the PIRLS map whose every step
is such a solve (C01 `fixed_point_iff_score`).  The theorems below say that the three transformations of the data
leave `BᵀW²B + A` and `BᵀW²z` — hence the normal equations, their solution set, every PIRLS iterate, the effective
degrees of freedom (a function of `BᵀW²B` and `A` alone) and the predictions — unchanged, and that for fixed
`B, w, A` the solution is linear in `y`.  They are about the definitions the driver executes
(`PyGam.normalMat`, `normalRhs`, `stepData` of `Model/Pirls.lean`, `columnsAll` of `Model/Terms.lean`, and
`Model/Invariance.lean`).

1. rows:      `normal_matrix_perm`, `normal_rhs_perm`, `pirls_step_perm`, `crit_perm`
2. units:     `edge_knots_affine`, `affine_feature_invariance`, `affine_prediction_invariance`, `affine_penalty_invariance`
3. weights:   `weights_eq_replication`, `weights_eq_replication_rhs`, `weights_eq_replication_dev`, `work_weight_linear`
4. linearity: `solution_add`, `solution_smul`, `solution_unique`, `fit_linear_in_y`, `fitted_values_linear`,
              `rss_quadratic`, `scale_gcv_cov_quadratic`, `pinv_scaling`, `wald_scale_free`, `centre_smul`
-/
open Finset
namespace PyGam.C12
open PyGam PyGam.Inv

/-! ### 1. row order -/
section rows
variable {α : Type} [Field α]

/-- `BᵀW²B + A` is a sum over rows: any permutation `σ` of the `n` rows (of the model matrix, the working weights
and the mask together) leaves it unchanged — "predictions and edof are unchanged when the training rows are
permuted" (edof is a function of this matrix and `A`) -/
theorem normal_matrix_perm (n : Nat) (σ : Equiv.Perm ℕ) (hσ : ∀ r, r < n ↔ σ r < n)
    (B : Nat → Nat → α) (keep : Nat → Bool) (W2 : Nat → α) (A : Nat → Nat → α) :
    normalMat n (permRows σ B) (permVecB σ keep) (permVec σ W2) A = normalMat n B keep W2 A := by
  funext i j
  exact congrArg (· + A i j) (sumTo_perm n σ hσ (fun r => if keep r then B r i * W2 r * B r j else 0))

/-- … and so is the right-hand side `BᵀW²z`: the permuted problem has the *same* normal equations, hence the
same solution set -/
theorem normal_rhs_perm (n : Nat) (σ : Equiv.Perm ℕ) (hσ : ∀ r, r < n ↔ σ r < n)
    (B : Nat → Nat → α) (keep : Nat → Bool) (W2 z : Nat → α) :
    normalRhs n (permRows σ B) (permVecB σ keep) (permVec σ W2) (permVec σ z) = normalRhs n B keep W2 z := by
  funext i
  exact sumTo_perm n σ hσ (fun r => if keep r then B r i * W2 r * z r else 0)

end rows

section rowsPirls
variable {α : Type} [Field α] [LinearOrder α] [IsStrictOrderedRing α] [ExpLog α] [HasLogSqrt α]

/-- every model class: the whole PIRLS step (`η, μ, W², z` derived row by row from the entering coefficients,
then the normal equations) of the permuted data equals that of the original data, for every family, link,
expectile and entering `β` — so the iterates, the fixed point and the edof coincide -/
theorem pirls_step_perm (cfg : GlmCfg α) (n m : Nat) (σ : Equiv.Perm ℕ) (hσ : ∀ r, r < n ↔ σ r < n)
    (B : Nat → Nat → α) (y w : Nat → α) (keep : Nat → Bool) (A : Nat → Nat → α) (β : Nat → α) :
    let d := stepData cfg m B y w keep β
    let d' := stepData cfg m (permRows σ B) (permVec σ y) (permVec σ w) (permVecB σ keep) β
    normalMat n (permRows σ B) d'.keep d'.W2 A = normalMat n B d.keep d.W2 A
      ∧ normalRhs n (permRows σ B) d'.keep d'.W2 d'.z = normalRhs n B d.keep d.W2 d.z := by
  intro d d'
  have hW : d'.W2 = permVec σ d.W2 := rfl
  have hz : d'.z = permVec σ d.z := rfl
  have hk : d'.keep = permVecB σ d.keep := rfl
  rw [hW, hz, hk]
  exact ⟨normal_matrix_perm n σ hσ B d.keep d.W2 A, normal_rhs_perm n σ hσ B d.keep d.W2 d.z⟩

end rowsPirls

section rowsFin
variable {α : Type} [Field α] {n m : ℕ}
open NormalEq

/-- the penalised criterion itself (C01 `crit`) does not see the row order -/
theorem crit_perm (σ : Equiv.Perm (Fin n)) (B : Fin n → Fin m → α) (A : Fin m → Fin m → α) (w y : Fin n → α)
    (β : Fin m → α) :
    crit (fun r => B (σ r)) A (fun r => w (σ r)) (fun r => y (σ r)) β = crit B A w y β := by
  simp only [crit, lp]
  congr 1
  exact Equiv.sum_comp σ (fun r => w r * (y r - ∑ j, B r j * β j) ^ 2)

end rowsFin

/-! ### 2. feature units -/
section units
variable {α : Type} [Field α] [LinearOrder α] [IsStrictOrderedRing α]

/-- `gen_edge_knots` commutes with a change of units `x ↦ a x + b`, `a ≥ 0`: the data-derived edge knots
(minimum and maximum of the column, rows `0 … k`) of the mapped column are the mapped edge knots -/
theorem edge_knots_affine (a b : α) (ha : 0 ≤ a) (x : Nat → α) (k : Nat) (half : α) :
    edgeKnots false (dataMin (fun r => a * x r + b) k) (dataMax (fun r => a * x r + b) k) half
      = (a * (edgeKnots false (dataMin x k) (dataMax x k) half).1 + b,
         a * (edgeKnots false (dataMin x k) (dataMax x k) half).2 + b) := by
  simp only [edgeKnots, Bool.false_eq_true, if_false]
  rw [dataMin_affine a b ha, dataMax_affine a b ha]

/-- the data-derived knots bracket the data (so training rows are never extrapolated) -/
theorem edge_knots_bracket (x : Nat → α) (k r : Nat) (hr : r ≤ k) :
    dataMin x k ≤ x r ∧ x r ≤ dataMax x k := ⟨dataMin_le x k r hr, le_dataMax x k r hr⟩

variable [HasFract α]

/-- **identical model matrix.**  Rescale any set of features affinely (`x_f ↦ a_f x_f + b_f`, `a_f > 0`) where every
rescaled feature enters only as the argument of spline bases — spline terms and spline marginals of tensor terms,
not linear terms, factor codes or by-variables (`TermOK`) — and let the edge knots follow (`affineKnots`: by
`edge_knots_affine` for data-derived knots, by the user for user-given ones).  Then every row of the model matrix
of the new problem, at the mapped point, equals the row of the old problem: identical `B`, hence identical normal
equations, PIRLS iterates, coefficients and edof. -/
theorem affine_feature_invariance (ε : α) (a b : Nat → α) (ts : List (Term α)) (h : ∀ t ∈ ts, TermOK a b t)
    (x : Nat → α) :
    columnsAll ε (mapRow a b x) (ts.map (Term.affineKnots a b)) = columnsAll ε x ts :=
  columnsAll_affine ε a b ts h x

/-- predictions at mapped query points are unchanged ("query points mapped likewise"): same coefficients, same
linear predictor -/
theorem affine_prediction_invariance (ε : α) (a b : Nat → α) (ts : List (Term α)) (h : ∀ t ∈ ts, TermOK a b t)
    (coef x : Nat → α) :
    linPred ε (ts.map (Term.affineKnots a b)) coef (mapRow a b x) = linPred ε ts coef x := by
  simp only [linPred]
  rw [nCoefsAll_affine, columnsAll_affine ε a b ts h x]

/-- the penalty matrix of a term does not depend on the units (it depends on `lam`, the penalty kinds and the
number of coefficients only) -/
theorem affine_penalty_invariance (pp : Nat → Nat → Nat → α) (a b : Nat → α) (m : Marg α) :
    (m.affineKnots a b).penalty pp = m.penalty pp := marg_penalty_affine pp a b m

end units

/-! ### 3. integer weights = replicated rows -/
section weights
variable {α : Type} [Field α]

/-- data set in which row `i` occurs `w i` times (`replIdx`), each copy with the per-unit working weight `u`:
its normal matrix is that of the original rows with working weights `w i · u i` -/
theorem weights_eq_replication (n : Nat) (w : Nat → Nat) (B : Nat → Nat → α) (keep : Nat → Bool) (u : Nat → α)
    (A : Nat → Nat → α) :
    let src := replSrc (replIdx n w)
    normalMat (replIdx n w).length (permRows src B) (permVecB src keep) (permVec src u) A
      = normalMat n B keep (fun r => (w r : α) * u r) A := by
  intro src
  funext i j
  have h := sumTo_repl n w (fun r => if keep r then B r i * u r * B r j else 0)
  show sumTo _ (fun r => if keep (src r) then B (src r) i * u (src r) * B (src r) j else 0) + A i j
      = sumTo n (fun r => if keep r then B r i * ((w r : α) * u r) * B r j else 0) + A i j
  rw [h]
  congr 1
  apply sumTo_congr; intro r _
  split <;> ring

theorem weights_eq_replication_rhs (n : Nat) (w : Nat → Nat) (B : Nat → Nat → α) (keep : Nat → Bool)
    (u z : Nat → α) :
    let src := replSrc (replIdx n w)
    normalRhs (replIdx n w).length (permRows src B) (permVecB src keep) (permVec src u) (permVec src z)
      = normalRhs n B keep (fun r => (w r : α) * u r) z := by
  intro src
  funext i
  have h := sumTo_repl n w (fun r => if keep r then B r i * u r * z r else 0)
  show sumTo _ (fun r => if keep (src r) then B (src r) i * u (src r) * z (src r) else 0)
      = sumTo n (fun r => if keep r then B r i * ((w r : α) * u r) * z r else 0)
  rw [h]
  apply sumTo_congr; intro r _
  split <;> ring

/-- the same for the deviance (any per-row unit deviance `dev`): `Σ_copies dev = Σ_i w_i dev_i` -/
theorem weights_eq_replication_dev (n : Nat) (w : Nat → Nat) (dev : Nat → α) :
    sumTo (replIdx n w).length (permVec (replSrc (replIdx n w)) dev) = sumTo n (fun r => (w r : α) * dev r) :=
  sumTo_repl n w dev

/-- number of rows of the replicated data set -/
theorem replicated_size (n : Nat) (w : Nat → Nat) : (replIdx n w).length = ∑ i ∈ range n, w i :=
  length_replIdx n w

end weights

section weightsPirls
variable {α : Type} [Field α] [LinearOrder α] [IsStrictOrderedRing α] [ExpLog α] [HasLogSqrt α]

/-- sample weights enter the PIRLS step only as a factor of the working weight (`_W`), for every family, link
and expectile: so `w_i` copies with weight one have, together, the working weight of one row with weight `w_i` -/
theorem work_weight_linear (cfg : GlmCfg α) (w y mu : α) :
    workWeight2 cfg w y mu = w * workWeight2 cfg 1 y mu := by
  simp only [workWeight2]; ring

end weightsPirls

/-! ### 4. LinearGAM: linearity in the response -/
section linear
variable {α : Type} [Field α] {n m : ℕ}
open NormalEq

/-- the penalised normal equations `Bᵀ W (y - Bβ) = Aβ` of the normal / identity model -/
def NormalEqs (B : Fin n → Fin m → α) (A : Fin m → Fin m → α) (w y : Fin n → α) (β : Fin m → α) : Prop :=
  ∀ i, ∑ r, B r i * w r * (y r - lp B β r) = ∑ j, A i j * β j

/-- adding responses adds solutions -/
theorem solution_add (B : Fin n → Fin m → α) (A : Fin m → Fin m → α) (w y₁ y₂ : Fin n → α) (β₁ β₂ : Fin m → α)
    (h₁ : NormalEqs B A w y₁ β₁) (h₂ : NormalEqs B A w y₂ β₂) :
    NormalEqs B A w (fun r => y₁ r + y₂ r) (fun j => β₁ j + β₂ j) := by
  intro i
  have e1 : ∑ r, B r i * w r * ((y₁ r + y₂ r) - lp B (fun j => β₁ j + β₂ j) r)
      = ∑ r, B r i * w r * (y₁ r - lp B β₁ r) + ∑ r, B r i * w r * (y₂ r - lp B β₂ r) := by
    rw [← sum_add_distrib]; apply sum_congr rfl; intro r _; rw [lp_add]; ring
  have e2 : ∑ j, A i j * (β₁ j + β₂ j) = ∑ j, A i j * β₁ j + ∑ j, A i j * β₂ j := by
    rw [← sum_add_distrib]; apply sum_congr rfl; intro j _; ring
  rw [e1, e2, h₁ i, h₂ i]

theorem lp_smul (B : Fin n → Fin m → α) (c : α) (β : Fin m → α) (r : Fin n) :
    lp B (fun j => c * β j) r = c * lp B β r := by
  simp only [lp, mul_sum]; apply sum_congr rfl; intro j _; ring

/-- scaling the response scales solutions -/
theorem solution_smul (B : Fin n → Fin m → α) (A : Fin m → Fin m → α) (w y : Fin n → α) (β : Fin m → α) (c : α)
    (h : NormalEqs B A w y β) : NormalEqs B A w (fun r => c * y r) (fun j => c * β j) := by
  intro i
  have e1 : ∑ r, B r i * w r * (c * y r - lp B (fun j => c * β j) r)
      = c * ∑ r, B r i * w r * (y r - lp B β r) := by
    rw [mul_sum]; apply sum_congr rfl; intro r _; rw [lp_smul]; ring
  have e2 : ∑ j, A i j * (c * β j) = c * ∑ j, A i j * β j := by
    rw [mul_sum]; apply sum_congr rfl; intro j _; ring
  rw [e1, e2, h i]

end linear

section linearOrdered
variable {α : Type} [Field α] [LinearOrder α] [IsStrictOrderedRing α] {n m : ℕ}
open NormalEq

/-- with non-negative weights and a positive definite penalty (`A = √ε·I + P`, `P` PSD — the code's `S + P`) the
normal equations have at most one solution -/
theorem solution_unique (B : Fin n → Fin m → α) (A : Fin m → Fin m → α) (hA : ∀ i j, A i j = A j i)
    (hpd : ∀ δ : Fin m → α, δ ≠ 0 → 0 < bil A δ δ) (w y : Fin n → α) (hw : ∀ r, 0 ≤ w r) (β β' : Fin m → α)
    (h : NormalEqs B A w y β) (h' : NormalEqs B A w y β') : β = β' := by
  by_contra hne
  have hδ : (fun j => β' j - β j) ≠ 0 := by
    intro h0; apply hne; funext j
    have := congrFun h0 j; simp only [Pi.zero_apply] at this; linarith
  have hδ' : (fun j => β j - β' j) ≠ 0 := by
    intro h0; apply hne; funext j
    have := congrFun h0 j; simp only [Pi.zero_apply] at this; linarith
  have e1 := crit_excess B A hA w y β (fun j => β' j - β j) h
  have e2 := crit_excess B A hA w y β' (fun j => β j - β' j) h'
  have r1 : (fun j => β j + (β' j - β j)) = β' := by funext j; ring
  have r2 : (fun j => β' j + (β j - β' j)) = β := by funext j; ring
  rw [r1] at e1; rw [r2] at e2
  have n1 : 0 ≤ ∑ r, w r * (lp B (fun j => β' j - β j) r) ^ 2 :=
    sum_nonneg (fun r _ => mul_nonneg (hw r) (sq_nonneg _))
  have n2 : 0 ≤ ∑ r, w r * (lp B (fun j => β j - β' j) r) ^ 2 :=
    sum_nonneg (fun r _ => mul_nonneg (hw r) (sq_nonneg _))
  linarith [hpd _ hδ, hpd _ hδ']

/-- **the fit is a linear function of the response**: for any solver `fit` of the normal equations of a fixed
`B, w, A` (the LinearGAM fit, C01 `solve_correct`): `fit (y₁ + y₂) = fit y₁ + fit y₂` and `fit (c y) = c fit y` -/
theorem fit_linear_in_y (B : Fin n → Fin m → α) (A : Fin m → Fin m → α) (hA : ∀ i j, A i j = A j i)
    (hpd : ∀ δ : Fin m → α, δ ≠ 0 → 0 < bil A δ δ) (w : Fin n → α) (hw : ∀ r, 0 ≤ w r)
    (fit : (Fin n → α) → (Fin m → α)) (hfit : ∀ y, NormalEqs B A w y (fit y)) :
    (∀ y₁ y₂, fit (fun r => y₁ r + y₂ r) = fun j => fit y₁ j + fit y₂ j)
      ∧ (∀ c y, fit (fun r => c * y r) = fun j => c * fit y j) := by
  constructor
  · intro y₁ y₂
    exact solution_unique B A hA hpd w _ hw _ _ (hfit _) (solution_add B A w y₁ y₂ _ _ (hfit y₁) (hfit y₂))
  · intro c y
    exact solution_unique B A hA hpd w _ hw _ _ (hfit _) (solution_smul B A w y _ c (hfit y))

/-- … hence so are the predictions at any query row `b` (a row of any model matrix `Bq`) -/
theorem fitted_values_linear (B : Fin n → Fin m → α) (A : Fin m → Fin m → α) (hA : ∀ i j, A i j = A j i)
    (hpd : ∀ δ : Fin m → α, δ ≠ 0 → 0 < bil A δ δ) (w : Fin n → α) (hw : ∀ r, 0 ≤ w r)
    (fit : (Fin n → α) → (Fin m → α)) (hfit : ∀ y, NormalEqs B A w y (fit y))
    {q : ℕ} (Bq : Fin q → Fin m → α) (r : Fin q) :
    (∀ y₁ y₂, lp Bq (fit (fun r => y₁ r + y₂ r)) r = lp Bq (fit y₁) r + lp Bq (fit y₂) r)
      ∧ (∀ c y, lp Bq (fit (fun r => c * y r)) r = c * lp Bq (fit y) r) := by
  obtain ⟨ha, hs⟩ := fit_linear_in_y B A hA hpd w hw fit hfit
  exact ⟨fun y₁ y₂ => by rw [ha, lp_add], fun c y => by rw [hs, lp_smul]⟩

end linearOrdered

/-! ### statistics under `y ↦ c y`

`edof = ‖U₁‖²_F = tr((BᵀWB + A)⁻¹ BᵀWB)` is computed from `B, w, A` alone — the response does not occur in it
(`edof_indep_of_y` is this remark: in the model the edof is an *argument* of `scaleEst`, `gcvScore` below, fixed
while `y` varies).  What depends on `y` does so through the residuals, which scale with `c` by `fit_linear_in_y`. -/
section stats
variable {α : Type} [Field α]

/-- residuals scale by `c`, the weighted RSS (= deviance of the normal family) by `c²` -/
theorem rss_quadratic (n : Nat) (w y mu : Nat → α) (c : α) :
    rss n w (fun r => c * y r) (fun r => c * mu r) = c ^ 2 * rss n w y mu := by
  simp only [rss, sumTo_eq, mul_sum]
  apply sum_congr rfl; intro r _; ring

/-- scale, GCV and the coefficient covariance are multiplied by `c²` (same `n`, `edof`, `γ`, `K = B Bᵀ`) -/
theorem scale_gcv_cov_quadratic (nn gamma edof dev c : α) (K : Nat → Nat → α) :
    scaleEst nn edof (c ^ 2 * dev) = c ^ 2 * scaleEst nn edof dev
      ∧ gcvScore nn gamma edof (c ^ 2 * dev) = c ^ 2 * gcvScore nn gamma edof dev
      ∧ covOf K (scaleEst nn edof (c ^ 2 * dev)) = fun i j => c ^ 2 * covOf K (scaleEst nn edof dev) i j := by
  refine ⟨?_, ?_, ?_⟩
  · simp only [scaleEst]; ring
  · simp only [gcvScore]; ring
  · funext i j; simp only [covOf, scaleEst]; ring

/-- the centring of a spline block before the Wald test commutes with the scaling -/
theorem centre_smul (k : Nat) (kk c : α) (β : Nat → α) :
    centre k kk (fun j => c * β j) = fun j => c * centre k kk β j := by
  funext j
  simp only [centre, sumTo_eq, ← mul_sum]; ring

/-- the Wald statistic `βᵀ M β` is unchanged when `β ↦ c β` and `M ↦ c⁻² M` (`c ≠ 0`): with `pinv_scaling` the
test statistic, and with it the p-value (same rank, same `n - edof`), does not depend on the units of `y` -/
theorem wald_scale_free (k : Nat) (M : Nat → Nat → α) (β : Nat → α) (c : α) (hc : c ≠ 0) :
    wald k (fun i j => (c ^ 2)⁻¹ * M i j) (fun j => c * β j) = wald k M β := by
  simp only [wald, bilin, sumTo_eq]
  apply sum_congr rfl; intro i _; apply sum_congr rfl; intro j _
  field_simp

open Matrix in
/-- the pseudo-inverse scales by `c⁻²`: if `M` satisfies the four Penrose equations for `C` then `c⁻² M` satisfies
them for `c² C` (and the pseudo-inverse is the unique such matrix) -/
theorem pinv_scaling {k : ℕ} (C M : Matrix (Fin k) (Fin k) α) (c : α) (hc : c ≠ 0)
    (h1 : C * M * C = C) (h2 : M * C * M = M) (h3 : (C * M)ᵀ = C * M) (h4 : (M * C)ᵀ = M * C) :
    let C' := c ^ 2 • C
    let M' := (c ^ 2)⁻¹ • M
    C' * M' * C' = C' ∧ M' * C' * M' = M' ∧ (C' * M')ᵀ = C' * M' ∧ (M' * C')ᵀ = M' * C' := by
  intro C' M'
  have hc2 : c ^ 2 ≠ 0 := pow_ne_zero 2 hc
  have e1 : C' * M' = C * M := by
    simp only [C', M', Matrix.smul_mul, Matrix.mul_smul, smul_smul]
    rw [inv_mul_cancel₀ hc2, one_smul]
  have e2 : M' * C' = M * C := by
    simp only [C', M', Matrix.smul_mul, Matrix.mul_smul, smul_smul]
    rw [mul_inv_cancel₀ hc2, one_smul]
  refine ⟨?_, ?_, ?_, ?_⟩
  · rw [e1]; simp only [C', Matrix.mul_smul]; rw [h1]
  · rw [e2]; simp only [M', Matrix.mul_smul]; rw [h2]
  · rw [e1, h3]
  · rw [e2, h4]

end stats

/-! ### non-vacuity -/

/-- a genuine permutation of 3 rows meets the hypothesis of `normal_matrix_perm` -/
example : ∀ r, r < 3 ↔ (Equiv.swap 0 2 : Equiv.Perm ℕ) r < 3 := by
  intro r
  by_cases h0 : r = 0
  · subst h0; simp
  · by_cases h2 : r = 2
    · subst h2; simp
    · rw [Equiv.swap_apply_of_ne_of_ne h0 h2]

/-- the replicated index list of weights `2, 0, 3` -/
example : replIdx 3 (fun i => [2, 0, 3].getD i 0) = [0, 0, 2, 2, 2] := by decide

/-- a positive definite symmetric penalty exists (`A = 1`, `m = 1`) and a solver for `B = 1, w = 1`:
`β = y/2` solves `(y - β) = β` -/
example : ∃ fit : (Fin 1 → ℚ) → (Fin 1 → ℚ), ∀ y, NormalEqs (fun _ _ => 1) (fun _ _ => 1) (fun _ => 1) y (fit y) :=
  ⟨fun y _ => y 0 / 2, by intro y i; simp [NormalEq.lp]; ring⟩

example : ∀ δ : Fin 1 → ℚ, δ ≠ 0 → 0 < NormalEq.bil (fun _ _ => (1:ℚ)) δ δ := by
  intro δ hδ
  have h0 : δ 0 ≠ 0 := by
    intro h; apply hδ; funext j; rw [Fin.fin_one_eq_zero j]; exact h
  simp only [NormalEq.bil, Finset.univ_unique, Finset.sum_singleton, Fin.default_eq_zero, mul_one]
  exact mul_self_pos.mpr h0

/-- a spline marginal on feature 0 with by-variable 1 admits the change of units `x₀ ↦ 1000 x₀ + 32` -/
example : MargOK (fun f => if f = 0 then (1000:ℚ) else 1) (fun f => if f = 0 then (32:ℚ) else 0)
    { kind := .spline, feature := 0, nSplines := 5, order := 3, cyclic := false, byVar := some 1, dummy := false,
      lam := [1], penalties := [.auto], constraints := [.none], e0 := 0, e1 := 1 } := by
  refine ⟨fun _ => ⟨by norm_num, by norm_num⟩, fun h => absurd rfl h, ?_⟩
  intro k hk
  have : k = 1 := by simpa using hk.symm
  subst this; simp

end PyGam.C12
