import PyGam.Proofs.Intervals
import PyGam.Gen.Decisions
import PyGam.Gen.Formulas
import PyGam.Proofs.Dists
/-!
# C09 — confidence and prediction intervals are the stated quantiles on the link scale

Property theorems only.  They are about `Model/Intervals.lean` (`getQuantiles` = `GAM._get_quantiles`, and its three
public wrappers `confidenceIntervals`, `predictionIntervals`, `partialDependenceIntervals`), over `ℝ`
(`ExpLog ℝ = (Real.exp, Real.log, Real.sqrt)`), for **every** fitted-model record `fit : FitStats ℝ` (any number of
coefficients, any coefficients / covariance / scale / edof), **every** model-matrix row, **every** coefficient block.

The two SciPy quantile functions are parameters `normPpf : ℝ → ℝ`, `tPpf : df → q → ℝ`.  SciPy is trusted: its
contract `PpfContract z` (strictly increasing on `(0,1)`, `z (1 - q) = - z q`) is a *hypothesis* of the order theorems and
is validated on a grid by the harness on every run, for every reference distribution the run uses.

`rowBound … row q` is one entry of the result: `xform (lp + z q * √(rowᵀ cov_block row [+ scale]))`.
-/
open Set
namespace PyGam.C09
open PyGam

variable (normPpf : ℝ → ℝ) (tPpf : ℝ → ℝ → ℝ) (fit : FitStats ℝ)

/-! ## width ↔ quantiles -/

/-- "width w is the same as quantiles [(1-w)/2, (1+w)/2]": the list the code builds from a width
(`alpha = (1 - width)/2; [alpha, 1 - alpha]`), over any ordered field -/
theorem width_eq_quantiles {α : Type} [Field α] [LinearOrder α] [IsStrictOrderedRing α] (w : α) :
    quantilesOfWidth w = [(1 - w) / 2, (1 + w) / 2] := quantilesOfWidth_eq w

/-- … and therefore a call with `width=w` returns exactly what the call with `quantiles=[(1-w)/2, (1+w)/2]` returns
(result or exception), whatever else is passed (`w'` = the ignored width of the second call) -/
theorem width_same_as_quantiles (start len : Nat) (prediction xform : Bool) (w w' : ℝ)
    (rows : List (Nat → ℝ)) :
    getQuantiles normPpf tPpf fit start len prediction xform w none rows
      = getQuantiles normPpf tPpf fit start len prediction xform w' (some [(1 - w) / 2, (1 + w) / 2]) rows := by
  have e : resolveQuantiles w none = resolveQuantiles w' (some [(1 - w) / 2, (1 + w) / 2]) := by
    simp only [resolveQuantiles, quantilesOfWidth_eq]
  unfold getQuantiles
  rw [e]

/-! ## rejection -/

/-- the check of the code is `not (0 < q < 1)`: a level passes iff *both* comparisons `0 < q` and `q < 1` hold.  Stated
for an arbitrary comparison structure (no order axioms), so it also covers IEEE doubles, where every comparison with
NaN is false: a NaN level — given directly or produced by `width = NaN` through `(1 - width)/2` — is rejected. -/
theorem reject_unless_strictly_inside {β : Type} [Zero β] [One β] [Add β] [Sub β] [Mul β] [Div β] [LE β]
    [DecidableLE β] [LT β] [DecidableLT β] (qs : List β) :
    quantilesRejected qs = false ↔ (qs ≠ [] ∧ ∀ q ∈ qs, (0 : β) < q ∧ q < (1 : β)) := by
  simp only [quantilesRejected, Bool.or_eq_false_iff, List.any_eq_false, List.isEmpty_eq_false_iff,
    Bool.not_eq_true, badQuantile_eq_false_iff_lt]
  exact And.comm

/-- "quantile levels outside (0,1) must be rejected": the call raises `ValueError` **iff** some requested level is not
strictly inside `(0,1)` (or the list of levels is empty — `np.vstack([])`), for every entry point (they all are
`getQuantiles`) -/
theorem reject_outside_unit (start len : Nat) (prediction xform : Bool) (width : ℝ)
    (quantiles : Option (List ℝ)) (rows : List (Nat → ℝ)) :
    getQuantiles normPpf tPpf fit start len prediction xform width quantiles rows = IvOut.valueError ↔
      (resolveQuantiles width quantiles = [] ∨
        ∃ q ∈ resolveQuantiles width quantiles, q ∉ Ioo (0 : ℝ) 1) := by
  have hiff : ∀ q : ℝ, q ∉ Ioo (0 : ℝ) 1 ↔ (q ≤ 0 ∨ 1 ≤ q) := by
    intro q; simp only [mem_Ioo, not_and_or, not_lt]
  simp only [hiff]
  unfold getQuantiles
  simp only []
  by_cases h : quantilesRejected (resolveQuantiles width quantiles) = true
  · simp only [h, if_true, true_iff]
    exact (quantilesRejected_iff _).mp h
  · simp only [h, Bool.false_eq_true, if_false, reduceCtorEq, false_iff]
    exact fun hc => h ((quantilesRejected_iff _).mpr hc)

/-- one bad level anywhere in an explicit `quantiles` list is enough, whatever the width -/
theorem reject_bad_quantile (start len : Nat) (prediction xform : Bool) (width : ℝ)
    (qs : List ℝ) (rows : List (Nat → ℝ)) (q : ℝ) (hq : q ∈ qs) (hbad : q ≤ 0 ∨ 1 ≤ q) :
    getQuantiles normPpf tPpf fit start len prediction xform width (some qs) rows = IvOut.valueError :=
  (reject_outside_unit normPpf tPpf fit start len prediction xform width (some qs) rows).mpr
    (Or.inr ⟨q, hq, fun hin => by rcases hbad with h | h
                                  · exact absurd hin.1 (not_lt.mpr h)
                                  · exact absurd hin.2 (not_lt.mpr h)⟩)

/-- "also through width": with `quantiles=None` the call raises `ValueError` exactly for the widths with `|w| ≥ 1`.
(So `width = 1`, `1.5`, `-1` are rejected; `width = 0` and widths in `(-1, 0)` are *accepted* by the code: their levels
`(1 ∓ w)/2` are inside `(0,1)`, only in decreasing order.  The property quantifies over widths in `(0,1)`.) -/
theorem reject_width_iff (start len : Nat) (prediction xform : Bool) (w : ℝ) (rows : List (Nat → ℝ)) :
    getQuantiles normPpf tPpf fit start len prediction xform w none rows = IvOut.valueError ↔
      (w ≤ -1 ∨ 1 ≤ w) := by
  unfold getQuantiles
  simp only [resolveQuantiles]
  by_cases h : quantilesRejected (quantilesOfWidth w) = true
  · simp only [h, if_true, true_iff]
    exact (width_rejected_iff w).mp h
  · simp only [h, Bool.false_eq_true, if_false, reduceCtorEq, false_iff]
    exact fun hc => h ((width_rejected_iff w).mpr hc)

/-- whenever a result is returned, every level that was used lies strictly inside `(0,1)` -/
theorem accepted_levels_in_unit (start len : Nat) (prediction xform : Bool) (width : ℝ)
    (quantiles : Option (List ℝ)) (rows : List (Nat → ℝ)) (v : List (List ℝ))
    (h : getQuantiles normPpf tPpf fit start len prediction xform width quantiles rows = IvOut.ok v) :
    ∀ q ∈ resolveQuantiles width quantiles, q ∈ Ioo (0 : ℝ) 1 := by
  unfold getQuantiles at h
  simp only [] at h
  by_cases hr : quantilesRejected (resolveQuantiles width quantiles) = true
  · simp [hr] at h
  · have hf : quantilesRejected (resolveQuantiles width quantiles) = false := by simpa using hr
    exact fun q hq => ((quantilesRejected_eq_false_iff _).mp hf).2 q hq

/-! ## the formula -/

/-- one entry, written out: `xform (row·coef_block + z_q √(rowᵀ cov_block row [+ scale]))`, with
`z_q = norm.ppf(q)` when the scale is known and `t.ppf(q, df = n_samples - edof)` otherwise -/
theorem rowBound_formula (start len : Nat) (prediction xform : Bool) (row : Nat → ℝ) (q : ℝ) :
    rowBound normPpf tPpf fit start len prediction xform row q =
      applyXform (if xform then some (fit.link, fit.levels) else none)
        (dot len row (blockVec start fit.coef)
          + (if fit.knownScale then normPpf q else tPpf (fit.nSamples - fit.edof) q)
            * Real.sqrt (totalVar prediction fit.scale (quadForm len (blockCov start fit.cov) row))) := by
  simp only [rowBound, linkBound_real, lineVar_eq_quadForm, refDistOf]
  cases fit.knownScale <;> simp [zOf]

/-- "the confidence bound equals the inverse link of (linear predictor + z_q × standard error of the linear predictor
computed from the coefficient covariance), where z_q is a standard-normal quantile when the scale is known and a
Student-t quantile with n − edof degrees of freedom otherwise" — for every accepted call of `confidence_intervals`,
entry `(row, q)` of the result is `g⁻¹(row·coef + z_q √(rowᵀ cov row))` -/
theorem confidence_bound_formula (width : ℝ) (quantiles : Option (List ℝ)) (rows : List (Nat → ℝ))
    (h : quantilesRejected (resolveQuantiles width quantiles) = false) :
    confidenceIntervals normPpf tPpf fit width quantiles rows =
      IvOut.ok (rows.map fun row => (resolveQuantiles width quantiles).map fun q =>
        linkInv fit.link fit.levels
          (dot fit.m row fit.coef
            + (if fit.knownScale then normPpf q else tPpf (fit.nSamples - fit.edof) q)
              * Real.sqrt (quadForm fit.m fit.cov row))) := by
  simp only [confidenceIntervals, getQuantiles, h, Bool.false_eq_true, if_false]
  congr 1; apply List.map_congr_left; intro row _
  simp only [quantileRow]; apply List.map_congr_left; intro q _
  rw [rowBound_formula]
  simp [applyXform, totalVar, blockVec_zero, blockCov_zero]

/-- "LinearGAM prediction intervals add the scale to the variance": entry `(row, q)` of `prediction_intervals` is
`g⁻¹(row·coef + z_q √(rowᵀ cov row + scale))` -/
theorem prediction_bound_formula (width : ℝ) (quantiles : Option (List ℝ)) (rows : List (Nat → ℝ))
    (h : quantilesRejected (resolveQuantiles width quantiles) = false) :
    predictionIntervals normPpf tPpf fit width quantiles rows =
      IvOut.ok (rows.map fun row => (resolveQuantiles width quantiles).map fun q =>
        linkInv fit.link fit.levels
          (dot fit.m row fit.coef
            + (if fit.knownScale then normPpf q else tPpf (fit.nSamples - fit.edof) q)
              * Real.sqrt (quadForm fit.m fit.cov row + fit.scale))) := by
  simp only [predictionIntervals, getQuantiles, h, Bool.false_eq_true, if_false]
  congr 1; apply List.map_congr_left; intro row _
  simp only [quantileRow]; apply List.map_congr_left; intro q _
  rw [rowBound_formula]
  simp [applyXform, totalVar, blockVec_zero, blockCov_zero]

/-- "partial-dependence intervals follow the same rule on the link scale using only the term's coefficient block":
entry `(row, q)` is `row·coef_block + z_q √(rowᵀ cov_block row)` (no inverse link), `row` = the term's columns -/
theorem pdep_bound_formula (start len : Nat) (width : ℝ) (quantiles : Option (List ℝ))
    (rows : List (Nat → ℝ)) (h : quantilesRejected (resolveQuantiles width quantiles) = false) :
    partialDependenceIntervals normPpf tPpf fit start len width quantiles rows =
      IvOut.ok (rows.map fun row => (resolveQuantiles width quantiles).map fun q =>
        partialDependencePoint fit start len row
          + (if fit.knownScale then normPpf q else tPpf (fit.nSamples - fit.edof) q)
            * Real.sqrt (quadForm len (blockCov start fit.cov) row)) := by
  simp only [partialDependenceIntervals, getQuantiles, h, Bool.false_eq_true, if_false]
  congr 1; apply List.map_congr_left; intro row _
  simp only [quantileRow]; apply List.map_congr_left; intro q _
  rw [rowBound_formula]
  simp [applyXform, totalVar, partialDependencePoint]

/-- `pdep_uses_own_block`: computing with the term's block of `coef_` / `cov` and the term's columns is the same as
the general rule applied to the full-length row that is zero outside the term's block — every other coefficient and
every cross-covariance with other terms is ignored -/
theorem pdep_uses_own_block (start len : Nat) (hblock : start + len ≤ fit.m) (prediction xform : Bool)
    (r : Nat → ℝ) (q : ℝ) :
    rowBound normPpf tPpf fit start len prediction xform r q
      = rowBound normPpf tPpf fit 0 fit.m prediction xform (padRow start len r) q
    ∧ partialDependencePoint fit start len r = dot fit.m (padRow start len r) fit.coef := by
  have h1 := dot_padRow start len fit.m hblock r fit.coef
  have h2 := lineVar_padRow start len fit.m hblock r fit.cov
  refine ⟨?_, ?_⟩
  · simp only [rowBound, blockVec_zero, blockCov_zero, h1, h2]
  · simp only [partialDependencePoint, h1]

/-! ## order, bracketing, nesting, containment

`hx` says: when the inverse link is applied (`xform = true`: confidence / prediction intervals) the model's link is one
of the increasing links identity / log / logit with `levels > 0` — that covers LinearGAM, LogisticGAM, PoissonGAM,
GammaGAM, InvGaussGAM, ExpectileGAM. -/

section order
variable {normPpf tPpf fit}
variable (hn : PpfContract normPpf) (ht : ∀ df, PpfContract (tPpf df))
variable {xform : Bool} (hx : xform = true → fit.link.increasing = true ∧ 0 < fit.levels)
include hx

/-- the transformation applied to the link-scale bounds is strictly increasing under `hx` -/
theorem xform_strictMono :
    StrictMono (applyXform (if xform then some (fit.link, fit.levels) else none)) := by
  apply applyXform_strictMono
  intro k levels hkl
  cases hxf : xform
  · simp [hxf] at hkl
  · simp only [hxf, if_true, Option.some.injEq, Prod.mk.injEq] at hkl
    obtain ⟨rfl, rfl⟩ := hkl
    exact hx hxf

include hn ht

/-- "bounds are ordered in q": a larger level never gives a smaller bound (any block, confidence or prediction) -/
theorem ordered_in_q (start len : Nat) (prediction : Bool) (row : Nat → ℝ) {q q' : ℝ}
    (hq : q ∈ Ioo (0 : ℝ) 1) (hq' : q' ∈ Ioo (0 : ℝ) 1) (h : q ≤ q') :
    rowBound normPpf tPpf fit start len prediction xform row q
      ≤ rowBound normPpf tPpf fit start len prediction xform row q' := by
  unfold rowBound
  exact (xform_strictMono hx).monotone (linkBound_mono_z _ _ ((zOf_contract hn ht _).mono hq hq' h))

/-- … strictly, as soon as the variance of the line is positive -/
theorem strictly_ordered_in_q (start len : Nat) (prediction : Bool) (row : Nat → ℝ) {q q' : ℝ}
    (hq : q ∈ Ioo (0 : ℝ) 1) (hq' : q' ∈ Ioo (0 : ℝ) 1) (h : q < q')
    (hv : 0 < totalVar prediction fit.scale (lineVar len row (blockCov start fit.cov))) :
    rowBound normPpf tPpf fit start len prediction xform row q
      < rowBound normPpf tPpf fit start len prediction xform row q' := by
  unfold rowBound
  exact (xform_strictMono hx) (linkBound_strictMono_z _ hv ((zOf_contract hn ht _).strictMono hq hq' h))

/-- list form: for increasing levels every returned row is non-decreasing -/
theorem ordered_rows (start len : Nat) (prediction : Bool) (row : Nat → ℝ) (qs : List ℝ)
    (hqs : ∀ q ∈ qs, q ∈ Ioo (0 : ℝ) 1) (hsorted : qs.Pairwise (· ≤ ·)) :
    (quantileRow normPpf tPpf fit start len prediction xform qs row).Pairwise (· ≤ ·) := by
  unfold quantileRow
  rw [List.pairwise_map]
  exact hsorted.imp_of_mem (fun {a b} ha hb hab =>
    ordered_in_q hn ht hx start len prediction row (hqs a ha) (hqs b hb) hab)

omit hx in
/-- the level ½ returns the point prediction itself (`predict_mu` / the partial dependence): `z(½) = 0` -/
theorem median_is_prediction (start len : Nat) (prediction : Bool) (row : Nat → ℝ) :
    rowBound normPpf tPpf fit start len prediction xform row (1 / 2)
      = applyXform (if xform then some (fit.link, fit.levels) else none)
          (dot len row (blockVec start fit.coef)) := by
  unfold rowBound
  rw [(zOf_contract hn ht _).half, linkBound_real, zero_mul, add_zero]

/-- "bounds bracket the prediction": for `q ≤ ½ ≤ q'` the `q` bound is below and the `q'` bound above the point
prediction `g⁻¹(row·coef)` (for `partial_dependence`: the returned partial dependence) -/
theorem brackets_prediction (start len : Nat) (prediction : Bool) (row : Nat → ℝ) {q q' : ℝ}
    (hq : q ∈ Ioo (0 : ℝ) 1) (hq' : q' ∈ Ioo (0 : ℝ) 1) (h : q ≤ 1 / 2) (h' : 1 / 2 ≤ q') :
    rowBound normPpf tPpf fit start len prediction xform row q
        ≤ applyXform (if xform then some (fit.link, fit.levels) else none)
            (dot len row (blockVec start fit.coef))
    ∧ applyXform (if xform then some (fit.link, fit.levels) else none)
            (dot len row (blockVec start fit.coef))
        ≤ rowBound normPpf tPpf fit start len prediction xform row q' := by
  have hh : (1 / 2 : ℝ) ∈ Ioo (0 : ℝ) 1 := ⟨by norm_num, by norm_num⟩
  rw [← median_is_prediction hn ht start len prediction row]
  exact ⟨ordered_in_q hn ht hx start len prediction row hq hh h,
    ordered_in_q hn ht hx start len prediction row hh hq' h'⟩

/-- "and nest as the width grows": for `0 ≤ w ≤ w' < 1` the interval of width `w` is `[lo, hi]` with `lo ≤ hi` and it
lies inside the interval `[lo', hi']` of width `w'` -/
theorem nested_in_width (start len : Nat) (prediction : Bool) (row : Nat → ℝ) {w w' : ℝ}
    (h0 : 0 ≤ w) (hww : w ≤ w') (h1 : w' < 1) :
    ∃ lo hi lo' hi',
      quantileRow normPpf tPpf fit start len prediction xform (quantilesOfWidth w) row = [lo, hi] ∧
      quantileRow normPpf tPpf fit start len prediction xform (quantilesOfWidth w') row = [lo', hi'] ∧
      lo' ≤ lo ∧ lo ≤ hi ∧ hi ≤ hi' := by
  refine ⟨_, _, _, _, by rw [quantilesOfWidth_eq]; rfl, by rw [quantilesOfWidth_eq]; rfl, ?_, ?_, ?_⟩
  · exact ordered_in_q hn ht hx start len prediction row
      ⟨by linarith, by linarith⟩ ⟨by linarith, by linarith⟩ (by linarith)
  · exact ordered_in_q hn ht hx start len prediction row
      ⟨by linarith, by linarith⟩ ⟨by linarith, by linarith⟩ (by linarith)
  · exact ordered_in_q hn ht hx start len prediction row
      ⟨by linarith, by linarith⟩ ⟨by linarith, by linarith⟩ (by linarith)

/-- "prediction intervals add the scale to the variance and therefore contain the confidence interval", level by
level: with `scale ≥ 0`, below the median the prediction bound is the lower one, above the median the higher one -/
theorem prediction_contains_confidence (hs : 0 ≤ fit.scale) (start len : Nat) (row : Nat → ℝ) {q : ℝ}
    (hq : q ∈ Ioo (0 : ℝ) 1) :
    (q ≤ 1 / 2 → rowBound normPpf tPpf fit start len true xform row q
                  ≤ rowBound normPpf tPpf fit start len false xform row q)
    ∧ (1 / 2 ≤ q → rowBound normPpf tPpf fit start len false xform row q
                  ≤ rowBound normPpf tPpf fit start len true xform row q) := by
  have hv : lineVar len row (blockCov start fit.cov)
      ≤ lineVar len row (blockCov start fit.cov) + fit.scale := by linarith
  have hz := zOf_contract hn ht (refDistOf fit.knownScale fit.nSamples fit.edof)
  constructor
  · intro h
    unfold rowBound
    exact (xform_strictMono hx).monotone
      (by simpa [totalVar] using linkBound_anti_var_of_nonpos (hz.nonpos_of_le_half hq h) _ hv)
  · intro h
    unfold rowBound
    exact (xform_strictMono hx).monotone
      (by simpa [totalVar] using linkBound_mono_var_of_nonneg (hz.nonneg_of_half_le hq h) _ hv)

/-- … and as intervals: for every width `0 ≤ w < 1` the prediction interval `[plo, phi]` contains the confidence
interval `[clo, chi]` -/
theorem prediction_interval_contains_confidence_interval (hs : 0 ≤ fit.scale) (row : Nat → ℝ) {w : ℝ}
    (h0 : 0 ≤ w) (h1 : w < 1) :
    ∃ clo chi plo phi,
      quantileRow normPpf tPpf fit 0 fit.m false xform (quantilesOfWidth w) row = [clo, chi] ∧
      quantileRow normPpf tPpf fit 0 fit.m true xform (quantilesOfWidth w) row = [plo, phi] ∧
      plo ≤ clo ∧ clo ≤ chi ∧ chi ≤ phi := by
  refine ⟨_, _, _, _, by rw [quantilesOfWidth_eq]; rfl, by rw [quantilesOfWidth_eq]; rfl, ?_, ?_, ?_⟩
  · exact (prediction_contains_confidence hn ht hx hs 0 fit.m row ⟨by linarith, by linarith⟩).1 (by linarith)
  · exact ordered_in_q hn ht hx 0 fit.m false row
      ⟨by linarith, by linarith⟩ ⟨by linarith, by linarith⟩ (by linarith)
  · exact (prediction_contains_confidence hn ht hx hs 0 fit.m row ⟨by linarith, by linarith⟩).2 (by linarith)

end order

/-- on the link scale (`xform = false`, e.g. `partial_dependence`) the levels `q` and `1 - q` are mirror images about
the point value -/
theorem symmetric_on_link_scale (hn : PpfContract normPpf) (ht : ∀ df, PpfContract (tPpf df))
    (start len : Nat) (prediction : Bool) (row : Nat → ℝ) {q : ℝ} (hq : q ∈ Ioo (0 : ℝ) 1) :
    rowBound normPpf tPpf fit start len prediction false row (1 - q) - dot len row (blockVec start fit.coef)
      = dot len row (blockVec start fit.coef) - rowBound normPpf tPpf fit start len prediction false row q := by
  simp only [rowBound, applyXform, Bool.false_eq_true, if_false, linkBound_real,
    (zOf_contract hn ht _).antisymm q hq]
  ring

/-! ## non-vacuity -/

/-- the contract is satisfiable: `q ↦ q - ½` is strictly increasing and antisymmetric about ½ -/
example : PpfContract (fun q : ℝ => q - 1 / 2) :=
  ⟨fun a _ b _ h => by simpa using h, fun q _ => by ring⟩

/-- a concrete fit meeting the link hypothesis (logit, one trial), and a concrete bound:
one coefficient `2`, variance `4`, row `1`, multiplier `q - ½` at `q = ¼`: `2 + (-¼)·√4 = 3/2` on the link scale -/
example :
    let fit : FitStats ℝ := { m := 1, coef := fun _ => 2, cov := fun _ _ => 4, scale := 1, knownScale := true,
                               nSamples := 10, edof := 1, link := LinkKind.logit, levels := 1 }
    (fit.link.increasing = true ∧ 0 < fit.levels) ∧
    rowBound (fun q => q - 1 / 2) (fun _ q => q - 1 / 2) fit 0 1 false false (fun _ => 1) (1 / 4) = 3 / 2 := by
  refine ⟨⟨rfl, by norm_num⟩, ?_⟩
  have h4 : Real.sqrt 4 = 2 := by
    rw [show (4 : ℝ) = 2 ^ 2 by norm_num, Real.sqrt_sq (by norm_num)]
  simp [rowBound, applyXform, linkBound_real, totalVar, lineVar, blockCov, blockVec, dot, sumTo, refDistOf, zOf, h4]
  norm_num

/-- the rejection rule on concrete levels (exact rationals): `0`, `1`, `-1/10`, `3/2` and the empty list are rejected,
`[1/40, 39/40]` accepted, width `19/20` accepted, widths `1`, `3/2` rejected, width `-1/10` accepted -/
example : quantilesRejected ([1/2, 0] : List Rat) = true ∧ quantilesRejected ([1/5, 1] : List Rat) = true ∧
    quantilesRejected ([-1/10] : List Rat) = true ∧ quantilesRejected ([3/2] : List Rat) = true ∧
    quantilesRejected ([] : List Rat) = true ∧ quantilesRejected ([1/40, 39/40] : List Rat) = false ∧
    quantilesRejected (quantilesOfWidth (19/20 : Rat)) = false ∧
    quantilesRejected (quantilesOfWidth (1 : Rat)) = true ∧
    quantilesRejected (quantilesOfWidth (3/2 : Rat)) = true ∧
    quantilesRejected (quantilesOfWidth (-1/10 : Rat)) = false := by
  decide +kernel

/-! ## Second tie: the per-level range check, translated from the current source

`Gen/Decisions.lean` is regenerated on every run from the abstract syntax tree of `pygam/pygam.py`:
`Gen.quantile_level_check` is the body of the first `for quantile in quantiles:` loop of `GAM._get_quantiles`
(`if not (0 < quantile < 1): raise ValueError`; the chained comparison is written `0 < q ∧ q < 1`). -/
section gen_decisions
variable {α : Type} [Field α] [LinearOrder α] [IsStrictOrderedRing α] [HasLogSqrt α]

/-- the check the source applies to every requested level IS the model's `badQuantile`: a level is rejected with a
`ValueError` exactly when the model rejects it, and an accepted level is handed on unchanged -/
theorem gen_decision_quantile_level_check (q : α) :
    Gen.quantile_level_check q = if badQuantile q then .error "ValueError" else .ok q := by
  unfold Gen.quantile_level_check badQuantile
  by_cases h0 : (0:α) < q <;> by_cases h1 : q < 1 <;> simp [h0, h1]

/-- hence the whole call is rejected (model: `quantilesRejected`) exactly when the list of levels is empty or the
translated source check raises on one of them -/
theorem gen_decision_quantiles_rejected (qs : List α) :
    quantilesRejected qs = true ↔ (qs = [] ∨ ∃ q ∈ qs, Gen.quantile_level_check q = .error "ValueError") := by
  have hq : ∀ q : α, Gen.quantile_level_check q = .error "ValueError" ↔ badQuantile q = true := by
    intro q
    rw [gen_decision_quantile_level_check]
    by_cases h : badQuantile q = true <;> simp [h]
  simp only [quantilesRejected, Bool.or_eq_true, List.any_eq_true, List.isEmpty_iff, hq]
  exact Or.comm

/-- non-vacuity on exact rationals: the translated check accepts `1/40`, rejects `0`, `1`, `3/2` -/
example [HasLogSqrt Rat] : Gen.quantile_level_check (1/40 : Rat) = .ok (1/40) ∧
    Gen.quantile_level_check (0 : Rat) = .error "ValueError" ∧
    Gen.quantile_level_check (1 : Rat) = .error "ValueError" ∧
    Gen.quantile_level_check (3/2 : Rat) = .error "ValueError" := by
  refine ⟨?_, ?_, ?_, ?_⟩ <;> rw [gen_decision_quantile_level_check] <;> decide +kernel

end gen_decisions

/-- one interval line on the link scale, translated from the current source of `_get_quantiles` (the argument of
`lines.append(…)`: `lp + q * var ** 0.5`, `Gen.quantile_line`), IS the model's `linkBound` over `ℝ` (both square roots
are `Real.sqrt`) — the expression every bound theorem above is about -/
theorem gen_formula_quantile_line (z lp var : ℝ) : Gen.quantile_line lp z var = linkBound z lp var := rfl

end PyGam.C09
