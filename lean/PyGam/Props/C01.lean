import PyGam.Proofs.Solve
import PyGam.Proofs.NormalEq
import PyGam.Proofs.Stationary
import PyGam.Proofs.EigFactor
import Mathlib.Algebra.Order.BigOperators.Ring.Finset
import PyGam.Gen.Formulas
/-!
# C01 — fit returns the penalised (quasi-)likelihood optimum of the specified model

1. `solve_correct` : the coefficients computed by the coded QR/SVD formula satisfy the penalised normal
   equations, for every number `k` of rows of `R` (fewer, as many, or more observations than coefficients), under
   the LAPACK / Cholesky contracts (hypotheses, validated numerically on every checked fit).
2. `normal_eq_is_minimiser` : a solution of the penalised normal equations is the global minimiser of
   `Σ w (y - Bβ)² + βᵀAβ` (normal / identity: the closed-form PWLS fit; one PIRLS step reaches it from any start).
3. `fixed_point_iff_score`, `score_residual_is_gradient` : a fixed point of the model PIRLS step
   (`PyGam.stepData`, `normalMat`, `normalRhs` — the definitions the driver runs against the real fit) is exactly a
   zero of the score residual `Bᵀ[w·asym·(y-μ)/(V(μ) g'(μ))] - Aβ`, i.e. `-½` × the gradient of the penalised
   deviance (with C06 `dev_hasDerivAt`: `∂dev/∂μ = -2(y-μ)/V`, and C07 `link_hasDerivAt`: `∂μ/∂η = 1/g'`).
4. `expectile_fixed_point` : for ExpectileGAM the same with the asymmetric weights, which is the stationarity of
   the asymmetrically weighted least-squares criterion on the open set where no residual is zero.
-/
open Finset Matrix
namespace PyGam.C01
open PyGam

/-! ### 1. the coded solve -/
section solve
variable {α : Type} [Field α] {n k m : ℕ}

/-- `(WBᵀWB + A) β = WBᵀ (Wz)` for `β = V D⁻¹ U₁ᵀ Qᵀ (Wz)` -/
theorem solve_correct (F : Solve.Factor α n k m) (z : Fin n → α) :
    (F.WBᵀ * F.WB + F.A) *ᵥ (F.Bmat *ᵥ z) = F.WBᵀ *ᵥ z := by
  rw [mulVec_mulVec, Solve.normal_mul_Bmat]

/-- the solution is unique: the normal matrix `V D² Vᵀ` is invertible (`d_i ≠ 0`, `V` orthogonal) -/
theorem solve_unique (F : Solve.Factor α n k m) (hV : F.V * F.Vᵀ = 1) (z : Fin n → α) (β : Fin m → α)
    (h : (F.WBᵀ * F.WB + F.A) *ᵥ β = F.WBᵀ *ᵥ z) : β = F.Bmat *ᵥ z := by
  have h2 := solve_correct F z
  rw [← h2] at h
  -- left inverse of the normal matrix
  let Ninv := F.V * diagonal (fun i => (F.d i)⁻¹) * diagonal (fun i => (F.d i)⁻¹) * F.Vᵀ
  have hinv : Ninv * (F.WBᵀ * F.WB + F.A) = 1 := by
    rw [Solve.normal_matrix F]
    show F.V * diagonal (fun i => (F.d i)⁻¹) * diagonal (fun i => (F.d i)⁻¹) * F.Vᵀ
        * (F.V * diagonal F.d * diagonal F.d * F.Vᵀ) = 1
    have e : F.V * diagonal (fun i => (F.d i)⁻¹) * diagonal (fun i => (F.d i)⁻¹) * F.Vᵀ
          * (F.V * diagonal F.d * diagonal F.d * F.Vᵀ)
        = F.V * diagonal (fun i => (F.d i)⁻¹) * (diagonal (fun i => (F.d i)⁻¹) * ((F.Vᵀ * F.V) * diagonal F.d))
            * diagonal F.d * F.Vᵀ := by
      simp only [Matrix.mul_assoc]
    rw [e, F.vorth, Matrix.one_mul, Solve.diag_inv_mul' _ F.dne, Matrix.mul_one]
    have e2 : F.V * diagonal (fun i => (F.d i)⁻¹) * diagonal F.d * F.Vᵀ
        = F.V * (diagonal (fun i => (F.d i)⁻¹) * diagonal F.d) * F.Vᵀ := by
      simp only [Matrix.mul_assoc]
    rw [e2, Solve.diag_inv_mul' _ F.dne, Matrix.mul_one, hV]
  calc β = (Ninv * (F.WBᵀ * F.WB + F.A)) *ᵥ β := by rw [hinv, one_mulVec]
    _ = Ninv *ᵥ ((F.WBᵀ * F.WB + F.A) *ᵥ β) := by rw [mulVec_mulVec]
    _ = Ninv *ᵥ ((F.WBᵀ * F.WB + F.A) *ᵥ (F.Bmat *ᵥ z)) := by rw [h]
    _ = (Ninv * (F.WBᵀ * F.WB + F.A)) *ᵥ (F.Bmat *ᵥ z) := by rw [mulVec_mulVec]
    _ = F.Bmat *ᵥ z := by rw [hinv, one_mulVec]

end solve

/-! ### 2. optimality -/
section optimal
variable {α : Type} [Field α] [LinearOrder α] [IsStrictOrderedRing α] {n m : ℕ}
open NormalEq

/-- exact excess of the criterion over its value at a solution of the normal equations -/
theorem crit_excess_eq (B : Fin n → Fin m → α) (A : Fin m → Fin m → α) (hA : ∀ i j, A i j = A j i)
    (w y : Fin n → α) (β δ : Fin m → α)
    (hN : ∀ i, ∑ r, B r i * w r * (y r - lp B β r) = ∑ j, A i j * β j) :
    crit B A w y (fun j => β j + δ j) - crit B A w y β = ∑ r, w r * (lp B δ r) ^ 2 + bil A δ δ :=
  crit_excess B A hA w y β δ hN

/-- with non-negative weights and a positive semi-definite symmetric penalty, a solution of the
penalised normal equations minimises the criterion globally -/
theorem normal_eq_is_minimiser (B : Fin n → Fin m → α) (A : Fin m → Fin m → α) (hA : ∀ i j, A i j = A j i)
    (hpsd : ∀ δ : Fin m → α, 0 ≤ bil A δ δ) (w y : Fin n → α) (hw : ∀ r, 0 ≤ w r) (β : Fin m → α)
    (hN : ∀ i, ∑ r, B r i * w r * (y r - lp B β r) = ∑ j, A i j * β j) (γ : Fin m → α) :
    crit B A w y β ≤ crit B A w y γ := by
  have h := crit_excess B A hA w y β (fun j => γ j - β j) hN
  have e : (fun j => β j + (γ j - β j)) = γ := by funext j; ring
  rw [e] at h
  have hnn : 0 ≤ ∑ r, w r * (lp B (fun j => γ j - β j) r) ^ 2 :=
    sum_nonneg (fun r _ => mul_nonneg (hw r) (sq_nonneg _))
  linarith [hpsd (fun j => γ j - β j)]

end optimal

/-! ### 3./4. fixed point of the model PIRLS step = zero of the score residual -/
section fixedpoint
variable {α : Type} [Field α] [LinearOrder α] [IsStrictOrderedRing α] [ExpLog α] [HasLogSqrt α]

/-- `rhs - N β = score residual`, row by row of the normal equations: so the PIRLS step maps `β` to itself
(`N(β) β = rhs(β)`) exactly when the score residual vanishes -/
theorem rhs_sub_normal_eq_score (n m : Nat) (B : Nat → Nat → α) (A : Nat → Nat → α) (d : StepData α)
    (β : Nat → α) (hlp : d.lp = linearPredictor m B β) (i : Nat) :
    normalRhs n B d.keep d.W2 d.z i - mulVec m (normalMat n B d.keep d.W2 A) β i
      = scoreResidual n m B A d β i := by
  simp only [normalRhs, mulVec, normalMat, scoreResidual, sumTo_eq, hlp, linearPredictor]
  have h1 : ∑ j ∈ range m, (∑ r ∈ range n, (if d.keep r then B r i * d.W2 r * B r j else 0) + A i j) * β j
      = ∑ r ∈ range n, (if d.keep r then B r i * d.W2 r * ∑ j ∈ range m, B r j * β j else 0)
        + ∑ j ∈ range m, A i j * β j := by
    simp only [add_mul, sum_add_distrib, sum_mul]
    congr 1
    rw [sum_comm]
    apply sum_congr rfl; intro r _
    by_cases hk : d.keep r
    · simp only [hk, if_true, mul_sum]; apply sum_congr rfl; intro j _; ring
    · simp [hk]
  rw [h1]
  have h2 : ∑ r ∈ range n, (if d.keep r then B r i * d.W2 r * (d.z r - ∑ j ∈ range m, B r j * β j) else 0)
      = ∑ r ∈ range n, (if d.keep r then B r i * d.W2 r * d.z r else 0)
        - ∑ r ∈ range n, (if d.keep r then B r i * d.W2 r * ∑ j ∈ range m, B r j * β j else 0) := by
    rw [← sum_sub_distrib]; apply sum_congr rfl; intro r _
    by_cases hk : d.keep r
    · simp only [hk, if_true]; ring
    · simp [hk]
  rw [h2]; ring

theorem fixed_point_iff_score (n m : Nat) (B : Nat → Nat → α) (A : Nat → Nat → α) (d : StepData α)
    (β : Nat → α) (hlp : d.lp = linearPredictor m B β) :
    (∀ i, mulVec m (normalMat n B d.keep d.W2 A) β i = normalRhs n B d.keep d.W2 d.z i)
      ↔ (∀ i, scoreResidual n m B A d β i = 0) := by
  constructor
  · intro h i; rw [← rhs_sub_normal_eq_score n m B A d β hlp i, h i]; ring
  · intro h i
    have := rhs_sub_normal_eq_score n m B A d β hlp i
    rw [h i] at this; linarith

/-- the summand of the score residual is the weighted derivative of the deviance: with `g = g'(μ) ≠ 0` and
`V = V(μ) ≠ 0`, `W²(z - η) = w·asym·(y - μ) / (V g)`, i.e. `-½ · w · asym · ∂dev/∂μ · ∂μ/∂η` -/
theorem score_residual_is_gradient (cfg : GlmCfg α) (w y lp : α)
    (hg : linkGrad cfg.link cfg.levels (linkInv cfg.link cfg.levels lp) ≠ 0)
    (hV : varFn cfg.fam cfg.levels (linkInv cfg.link cfg.levels lp) ≠ 0) :
    let mu := linkInv cfg.link cfg.levels lp
    workWeight2 cfg w y mu * (pseudoDatum cfg lp y mu - lp)
      = w * asymWeight cfg y mu * (y - mu)
          / (varFn cfg.fam cfg.levels mu * linkGrad cfg.link cfg.levels mu) := by
  intro mu
  have hg' : linkGrad cfg.link cfg.levels mu ≠ 0 := hg
  have hV' : varFn cfg.fam cfg.levels mu ≠ 0 := hV
  simp only [workWeight2, pseudoDatum]
  field_simp
  ring

/-- ExpectileGAM: the working weight is the sample weight times `τ` above and `1 - τ` at or below the fit -/
theorem expectile_weight (τ levels w y mu : α) :
    workWeight2 ⟨.normal, .identity, levels, some τ⟩ w y mu = w * (if mu < y then τ else 1 - τ) := by
  simp [workWeight2, asymWeight, linkGrad, varFn]

/-- ExpectileGAM fixed point: `Bᵀ[w·asym·(y - μ)] = Aβ`, the stationarity of
`Σ w·asym·(y - μ)² + βᵀAβ` wherever the asymmetric weights are locally constant -/
theorem expectile_fixed_point (τ levels w y lp : α) :
    let cfg : GlmCfg α := ⟨.normal, .identity, levels, some τ⟩
    workWeight2 cfg w y lp * (pseudoDatum cfg lp y lp - lp) = w * (if lp < y then τ else 1 - τ) * (y - lp) := by
  intro cfg
  simp [cfg, workWeight2, pseudoDatum, asymWeight, linkGrad, varFn]

end fixedpoint

/-! ### 5. the score residual is the gradient of the penalised deviance (calculus, over ℝ) -/
section gradient
open Stationary

/-- along every coordinate direction the penalised deviance `Σ w dev(y, g⁻¹(Bβ)) + βᵀAβ` has derivative
`−2 ×` the `j`-th score residual (chain rule through C06 `dev_hasDerivAt` and the inverse link, C07) -/
theorem penalised_deviance_gradient (fam : Family) (k : LinkKind) (L : ℝ) (hL : 0 < L) (n m : ℕ)
    (B A : ℕ → ℕ → ℝ) (hA : ∀ i l, A i l = A l i) (y w β : ℕ → ℝ) (j : ℕ) (hj : j < m)
    (hdom : ∀ r, r < n → etaR m B β r ∈ linkRange k L ∧ validDom fam L (y r) (muR k L m B β r)) :
    HasDerivAt (fun t => penDev fam k L n m B A y w (bump β j t)) (-2 * scoreJ fam k L n m B A y w β j) 0 :=
  penDev_hasDerivAt fam k L hL n m B A hA y w β j hj hdom

/-- **stationarity**: if the score residual vanishes (equivalently, by `fixed_point_iff_score`, if `β` is a fixed
point of the PIRLS step) then every partial derivative of the penalised deviance vanishes at `β` -/
theorem stationary_of_score_zero (fam : Family) (k : LinkKind) (L : ℝ) (hL : 0 < L) (n m : ℕ)
    (B A : ℕ → ℕ → ℝ) (hA : ∀ i l, A i l = A l i) (y w β : ℕ → ℝ)
    (hdom : ∀ r, r < n → etaR m B β r ∈ linkRange k L ∧ validDom fam L (y r) (muR k L m B β r))
    (hscore : ∀ j, j < m → scoreJ fam k L n m B A y w β j = 0) (j : ℕ) (hj : j < m) :
    HasDerivAt (fun t => penDev fam k L n m B A y w (bump β j t)) 0 0 := by
  have h := penalised_deviance_gradient fam k L hL n m B A hA y w β j hj hdom
  rw [hscore j hj, mul_zero] at h; exact h

/-- the score residual of the executable model (`PyGam.scoreResidual` on `stepData`, all rows kept, no
expectile weights) is `scoreJ` -/
theorem model_score_eq (fam : Family) (k : LinkKind) (L : ℝ) (n m : ℕ) (B A : ℕ → ℕ → ℝ) (y w β : ℕ → ℝ) (j : ℕ)
    (hg : ∀ r, r < n → linkGrad k L (muR k L m B β r) ≠ 0) (hV : ∀ r, r < n → varFn fam L (muR k L m B β r) ≠ 0) :
    scoreResidual n m B A (stepData ⟨fam, k, L, none⟩ m B y w (fun _ => true) β) β j
      = scoreJ fam k L n m B A y w β j := by
  simp only [scoreResidual, scoreJ, stepData, sumTo_eq, if_true]
  congr 1
  apply sum_congr rfl; intro r hr
  have hr' := mem_range.mp hr
  have hlp : linearPredictor m B β r = etaR m B β r := by simp [linearPredictor, etaR, sumTo_eq]
  have := score_residual_is_gradient (α := ℝ) ⟨fam, k, L, none⟩ (w r) (y r) (etaR m B β r)
    (by simpa [muR] using hg r hr') (by simpa [muR] using hV r hr')
  simp only [asymWeight, mul_one] at this
  rw [hlp, mul_assoc, this]; simp [muR]

end gradient

/-! ### non-vacuity: a 1 × 1 instance of the contracts (k = n = m = 1, WB = 3, A = 16, d = 5) -/
example : ∃ F : Solve.Factor ℚ 1 1 1, F.WB = !![3] ∧ F.A = !![16] :=
  ⟨{ WB := !![3], A := !![16], Q := !![1], R := !![3], E := !![4], U1 := !![3/5], U2 := !![4/5],
     d := fun _ => 5, V := !![1],
     qr := by ext i j; fin_cases i; fin_cases j; norm_num [Matrix.mul_apply],
     qorth := by ext i j; fin_cases i; fin_cases j; norm_num [Matrix.mul_apply],
     chol := by ext i j; fin_cases i; fin_cases j; norm_num [Matrix.mul_apply],
     svdR := by ext i j; fin_cases i; fin_cases j; simp [Matrix.mul_apply, Matrix.diagonal, Matrix.vecHead],
     svdE := by ext i j; fin_cases i; fin_cases j; simp [Matrix.mul_apply, Matrix.diagonal, Matrix.vecHead],
     uorth := by ext i j; fin_cases i; fin_cases j; norm_num [Matrix.mul_apply],
     vorth := by ext i j; fin_cases i; fin_cases j; norm_num [Matrix.mul_apply],
     dne := by intro i; norm_num }, rfl, rfl⟩

/-! ### the factor handed to the solve when the Cholesky factorisation breaks down (repair c0c1d29)

`solve_correct` takes the contract `EᵀE = S + P (+ C)` as a hypothesis.  `GAM._cholesky` meets it with a Cholesky factor
or — when that fails by rounding, for `lam·‖P‖ ≳ 1e7` — with the eigen-factor `diag(√w) Vᵀ` of `eigh`, eigenvalues below
the rounding level replaced by the ridge `√ε`. -/
section eig_fallback
open Matrix PyGam.EigFactor
variable {ι : Type} [Fintype ι] [DecidableEq ι]

/-- under the LAPACK contract of `eigh` (`A = V diag(w) Vᵀ`, `w ≥ 0`) the eigen-factor satisfies the contract of the
solve, `EᵀE = A`: the fit is that of the specified model, no ridge is added -/
theorem eig_fallback_meets_contract (A V : Matrix ι ι ℝ) (w : ι → ℝ) (hA : A = V * diagonal w * Vᵀ) (hw : ∀ i, 0 ≤ w i) :
    (eigFactor V w)ᵀ * eigFactor V w = A := eigFactor_contract A V w hA hw

/-- when eigenvalues are replaced (`w ↦ w'`), the matrix that is factored differs from `A` by `V diag(w' - w) Vᵀ`: only
the replaced eigen-directions change, by the replacement (at most the rounding level `m ε max w` plus `√ε`) -/
theorem eig_fallback_perturbation (A V : Matrix ι ι ℝ) (w w' : ι → ℝ) (hA : A = V * diagonal w * Vᵀ) (hw' : ∀ i, 0 ≤ w' i) :
    (eigFactor V w')ᵀ * eigFactor V w' - A = V * diagonal (fun i => w' i - w i) * Vᵀ :=
  eigFactor_replaced A V w w' hA hw'

-- non-vacuity: V = 1, w = (4, 9): the factor is diag(2, 3)
example : (eigFactor (1 : Matrix (Fin 2) (Fin 2) ℝ) ![4, 9])ᵀ * eigFactor 1 ![4, 9] = diagonal ![4, 9] := by
  have := eig_fallback_meets_contract (diagonal ![4, 9]) (1 : Matrix (Fin 2) (Fin 2) ℝ) ![4, 9] (by simp)
    (by intro i; fin_cases i <;> simp)
  exact this

/-- **block-wise fallback** (repair c980deb: each diagonal block of `S + P (+ C)` — one per term — is factored on its
own): if `A` and the assembled `L` are block diagonal w.r.t. a labelling `ℓ` of the coefficients and every block of `L`
factors its block of `A`, then `LᵀL = A` — the contract of the solve holds for the whole penalty, and the cut-off applied
in one block never sees another term's eigenvalues -/
theorem block_fallback_meets_contract {κ : Type} [DecidableEq κ] (ℓ : ι → κ) (A L : Matrix ι ι ℝ)
    (hA : ∀ i j, ℓ i ≠ ℓ j → A i j = 0) (hL : ∀ k i, ℓ k ≠ ℓ i → L k i = 0)
    (hblock : ∀ i j, ℓ i = ℓ j → ∑ k ∈ Finset.univ.filter (fun k => ℓ k = ℓ i), L k i * L k j = A i j) :
    Lᵀ * L = A := block_factor_contract ℓ A L hA hL hblock

/-- what is factored inside one block depends on that block of `L` only: replacing eigenvalues in the block of a heavily
penalised term leaves `(LᵀL)_{ij}` of every other term's block unchanged -/
theorem block_fallback_is_local {κ : Type} [DecidableEq κ] (ℓ : ι → κ) (L L' : Matrix ι ι ℝ)
    (hL : ∀ k i, ℓ k ≠ ℓ i → L k i = 0) (hL' : ∀ k i, ℓ k ≠ ℓ i → L' k i = 0) (b : κ)
    (hsame : ∀ k i, ℓ k = b → ℓ i = b → L k i = L' k i) (i j : ι) (hi : ℓ i = b) (hj : ℓ j = b) :
    (Lᵀ * L) i j = (L'ᵀ * L') i j := block_factor_local ℓ L L' hL hL' b hsame i j hi hj

-- non-vacuity: two 1 x 1 blocks, A = diag(4, 9), L = diag(2, 3)
example : (diagonal ![(2:ℝ), 3])ᵀ * diagonal ![(2:ℝ), 3] = diagonal ![(4:ℝ), 9] := by
  apply block_fallback_meets_contract (fun i : Fin 2 => i) (diagonal ![(4:ℝ), 9]) (diagonal ![(2:ℝ), 3])
  · intro i j h; exact diagonal_apply_ne _ h
  · intro k i h; exact diagonal_apply_ne _ h
  · intro i j h
    subst h
    have : Finset.univ.filter (fun k : Fin 2 => k = i) = {i} := by ext k; simp
    rw [this, Finset.sum_singleton]
    fin_cases i <;> simp [diagonal] <;> norm_num

end eig_fallback

/-! ### tie to the source by translation of the formulas (`gen_formula_*`)

`Gen/Formulas.lean` is regenerated on every run from the abstract syntax tree of `pygam/pygam.py`: `GAM._pseudo_data` and
`GAM._W`, one entry each, with `self.link.gradient(·, self.distribution)` and `self.distribution.V` as function
parameters (`sp.sparse.diags` of a vector is the vector of its diagonal).  The theorems state that the generated
definitions ARE the model's `pseudoDatum` and the root of `workWeight2` (`Model/Pirls.lean`). -/
section gen_formulas
set_option linter.unusedSectionVars false

/-- `GAM._pseudo_data`: `lp + (y - mu) * gradient(mu)` is `pseudoDatum` (by `rfl`, for every type with the notation classes) -/
theorem gen_formula_pseudo_data {α : Type} [Zero α] [One α] [Add α] [Sub α] [Mul α] [Div α] [Neg α] [LE α] [LT α]
    [DecidableLE α] [DecidableLT α] [ExpLog α] [HasLogSqrt α] (cfg : GlmCfg α) (lp y mu : α) :
    Gen.pseudo_data (linkGrad cfg.link cfg.levels) y lp mu = pseudoDatum cfg lp y mu := rfl

/-- `GAM._W`: `(gradient(mu)**2 * V(mu) * weights**-1) ** -0.5` is the square root of the model's `workWeight2`
(the model keeps `W²`, the code `W`).  This tie is up to field identities (`1/(a·(1/w)) = w·1/a`, true in every field
with `x/0 = 0`, no side condition) and the one law `sqrt (1/x) = 1 / sqrt x` of the square root, stated as the
hypothesis `hinv`; `gen_formula_W_real` discharges it for `ℝ`.  Dropping the root, the square of the gradient or the
inverse of the weights in the source makes the generated term a different function and the proof fails. -/
theorem gen_formula_W {α : Type} [Field α] [LinearOrder α] [IsStrictOrderedRing α] [ExpLog α] [HasLogSqrt α]
    (hinv : ∀ x : α, HasLogSqrt.sqrt (1 / x) = 1 / HasLogSqrt.sqrt x)
    (cfg : GlmCfg α) (hcfg : cfg.expectile = none) (w y mu : α) :
    Gen.W_GAM (linkGrad cfg.link cfg.levels) (varFn cfg.fam cfg.levels) mu w y
      = HasLogSqrt.sqrt (workWeight2 cfg w y mu) := by
  unfold Gen.W_GAM workWeight2 asymWeight
  rw [← hinv, hcfg]
  congr 1
  simp only [mul_inv_rev, inv_inv, mul_one, one_mul, div_eq_mul_inv]

/-- over `ℝ` (`Real.sqrt`) the law holds for every argument, so the tie is unconditional there -/
theorem gen_formula_W_real (cfg : GlmCfg ℝ) (hcfg : cfg.expectile = none) (w y mu : ℝ) :
    Gen.W_GAM (linkGrad cfg.link cfg.levels) (varFn cfg.fam cfg.levels) mu w y
      = Real.sqrt (workWeight2 cfg w y mu) :=
  gen_formula_W (fun x => by simp [one_div, Real.sqrt_inv]) cfg hcfg w y mu

end gen_formulas

end PyGam.C01
