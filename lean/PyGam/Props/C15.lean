import PyGam.Proofs.HeapViews
import PyGam.Gen.Decisions
/-!
# C15 — models are isolated: queries are pure, fit depends only on settings and data

Property theorems only.  They are about `PyGam.Heap.step` / `run` (`Model/Heap.lean`): the transcription of the
object graph that `GAM.__init__`, `fit`, `gridsearch`, `sample`, `set_params`, `deepcopy` / pickle and the term
constructors build and mutate (which calls copy, which share, which write in place), executed by the driver
against the real objects on random call histories on every run.

Vocabulary: `World` = heap of term objects / distribution objects / log dictionaries + expressions held by the
caller + model records; `w.view j` = model `j` *by value*: its settings, its term objects (edge knots, numbers of
categories, `lam`, …), its distribution object (`scale`), its logs and the binding of `coef_` / `statistics_`
(`fitted : Option FitIn` — the input that determined them).  Every prediction, interval, partial dependence,
likelihood, residual, summary or sample of model `j` is a function of `w.view j` (`predKey`, `queryKey`) and of
the argument arrays.  `Inv w` = no two models share a mutable object and no model shares one with a caller-held
expression; it holds in the empty world and is kept by every call (`inv_run`), so every theorem with hypothesis
`Inv w` holds after **every finite history of public calls**.

Outside the model, checked by the harness on the real code only: NumPy aliasing of the caller's arrays
(bit-identical before / after every call), row-wise evaluation of the numerical prediction code, and that PIRLS
reaches the optimum determined by `FitIn` from any starting point (refit vs fresh fit, to the tolerance tied to `tol`).
-/
namespace PyGam.C15
open PyGam.Heap

/-! ## the invariant holds after every history -/

/-- worlds that arise from the empty world by a finite sequence of public calls -/
def Reachable (env : Env) (w : World) : Prop := ∃ hs : List Op, w = run env World.empty hs

/-- after every history: no two live models share a term object, a distribution object or a log dictionary,
and no model shares a term object with an expression the caller still holds -/
theorem reachable_inv (env : Env) {w : World} (h : Reachable env w) : Inv w := by
  obtain ⟨hs, rfl⟩ := h
  exact inv_run env hs inv_empty

/-- the invariant is kept by every single call, from any world that has it -/
theorem inv_preserved (env : Env) {w : World} (o : Op) (h : Inv w) : Inv (step env w o).1 := inv_step env o h

/-! ## queries are pure -/

/-- *"prediction, interval, partial-dependence, likelihood, residual, summary … calls leave a fitted model's
predictions and statistics unchanged"*: in the model these calls return the world they were given (so every
model, the queried one included, is unchanged).  This is definitional — it transcribes that the code of these
methods contains no assignment to `self` or to objects reachable from it; the real check is the harness's
before/after hash of every live model around every such call. -/
theorem query_frame (env : Env) (w : World) (q : Query) (i : Nat) (d : Data) :
    (step env w (.query q i d)).1 = w := by
  simp only [step]; split <;> rfl

/-- what a query returns depends only on the queried model's view (and the argument arrays `d`) -/
theorem query_result (env : Env) (w : World) (q : Query) (i : Nat) (d : Data) :
    (step env w (.query q i d)).2 = match (w.view i).bind ModelView.queryKey with
      | some k => .result k
      | none => .error := by
  simp only [step, World.queryKey]
  cases (w.view i).bind ModelView.queryKey <;> rfl

/-- *"… sampling … calls leave a fitted model's predictions and statistics unchanged"*: `sample` deep-copies the
model, grid-searches and fits the copies; afterwards the list of models is exactly what it was and every model and
every expression is unchanged by value -/
theorem sample_frame (env : Env) {w : World} (h : Inv w) (i : Nat) (d : Data)
    (boots : List (List (Nat × Nat) × Nat)) :
    (step env w (.sample i d boots)).1.models = w.models
    ∧ (∀ j, (step env w (.sample i d boots)).1.view j = w.view j)
    ∧ (∀ e, e < w.exprs.length → (step env w (.sample i d boots)).1.exprView e = w.exprView e) := by
  simp only [step]
  split
  · obtain ⟨hk, hm⟩ := sample_keeps (env := env) i d boots h
    refine ⟨hm, fun j => ?_, hk.expr⟩
    rcases Nat.lt_or_ge j w.models.length with hj | hj
    · exact hk.view j hj (fun h => nomatch h)
    · simp [World.view, hm, List.getElem?_eq_none hj]
  · exact ⟨rfl, fun _ => rfl, fun _ _ => rfl⟩

/-- *"… keep_best=False grid-search calls leave a fitted model's predictions and statistics unchanged"*: every
model that existed before, the searched one included, is unchanged by value (the candidates are new models) -/
theorem gridsearch_nokeep_frame (env : Env) {w : World} (h : Inv w) (i : Nat) (d : Data)
    (grid : List (Nat × Nat)) (win : Nat) (hfit : ((w.models[i]?).bind (·.fitted)).isSome) :
    ∀ j, j < w.models.length → (step env w (.gridsearch i d false grid win)).1.view j = w.view j := by
  intro j hj
  simp only [step]
  split
  · exact (gridsearch_nokeep_keeps i d grid win h hfit).view j hj (fun h => nomatch h)
  · rfl

/-! ## predictions are row-wise -/

/-- *"predictions are row-wise, each output row depending only on the corresponding input row"*.  In the model a
batch prediction **is** the map of a one-row function over the rows (for any interpretation `P` of a row), so
this is definitional; that the numerical code (`check_X`, `build_columns`, sparse products) has this shape is
checked by the harness on row subsets and permutations. -/
theorem rowwise {R V : Type} (P : PredKey → R → V) (k : PredKey) (X : List R) :
    predict P k X = X.map (P k) := rfl

/-- row `r` of the output depends only on row `r` of the input -/
theorem rowwise_get {R V : Type} (P : PredKey → R → V) (k : PredKey) (X : List R) (r : Nat) :
    (predict P k X)[r]? = (X[r]?).map (P k) := by
  simp [predict]

/-- predicting a selection / reordering `idx` of the rows selects / reorders the predictions -/
theorem rowwise_select {R V : Type} (P : PredKey → R → V) (k : PredKey) (X : List R) (idx : List Nat) :
    predict P k (idx.filterMap (X[·]?)) = idx.filterMap ((predict P k X)[·]?) := by
  simp [predict, List.map_filterMap]

/-! ## the outcome of `fit` depends only on settings and data -/

/-- the settings obtained from a view are in normal form (the data-dependent `n_splines` of a factor term is not
a setting) -/
def Settings.Normal (s : Settings) : Prop := ∀ t ∈ s.terms, t.kind = .factor → t.nSplines = 0

theorem settings_normal (v : ModelView) : Settings.Normal v.settings := by
  intro t ht hk
  simp only [ModelView.settings, List.mem_map] at ht
  obtain ⟨o, _, rfl⟩ := ht
  obtain ⟨⟨kind, feature, nSplines, order, lam, userKnots⟩, knots⟩ := o
  cases kind <;> simp_all [TermObj.settings]

/-- a brand-new expression, a brand-new model built from it, and its first fit -/
def freshHistory (s : Settings) (d : Data) (iters : Nat) : List Op :=
  [.mkExpr s.terms, .construct s.cls s.mset s.scaleKnown 0, .fit 0 d iters]

/-- **`fit` is history-free** (any world, reachable or not): whatever happened to model `i` before — earlier fits on
the same or other data, grid searches, copies, other models built from the same expression — the binding of
`coef_` / `statistics_` after `fit(d)` is the one determined by `i`'s *current settings* and `d` alone; the
compiled term objects it predicts with are those of a brand-new model with these settings (all data-dependent
term state — edge knots, numbers of categories — is overwritten); and the settings themselves are unchanged. -/
theorem fit_history_free (env : Env) (w : World) (i : Nat) (d : Data) (iters : Nat) (m : Model)
    (hm : w.models[i]? = some m) :
    let s := (w.viewOf m).settings
    let w' := (step env w (.fit i d iters)).1
    (w'.view i).map (·.fitted) = some (some (s.fitIn env d))
    ∧ (w'.view i).map (·.terms) = some (s.fitIn env d).terms
    ∧ (w'.view i).map (·.settings) = some s := by
  have hi : i < w.models.length := (List.getElem?_eq_some_iff.mp hm).1
  simp only [step, hi, if_true]
  obtain ⟨l, hl⟩ := fitModel_rec env w i d iters m hm
  have ht := fitModel_terms env w i d iters m hm
  refine ⟨by simp [World.view, hl, World.viewOf], ht, ?_⟩
  have hv : ∃ v, (fitModel env w i d iters).view i = some v := by simp [World.view, hl]
  obtain ⟨v, hv⟩ := hv
  rw [hv] at ht ⊢
  simp only [Option.map_some, Option.some.injEq] at ht ⊢
  have hc : v.cls = m.cls ∧ v.mset = m.mset ∧ v.scaleKnown = m.scaleKnown := by
    simp only [World.view, hl, Option.map_some, Option.some.injEq] at hv
    subst hv
    simp [World.viewOf, preparedRec]
  obtain ⟨c1, c2, c3⟩ := hc
  simp only [ModelView.settings, ht, c1, c2, c3, World.viewOf, Settings.fitIn, List.map_map]
  congr 1
  apply List.map_congr_left
  intro t _
  simp [Function.comp_def, compile_settings, compile_fresh_settings]

/-- the first fit of a brand-new model with settings `s` in the empty world -/
theorem fresh_fit (env : Env) (s : Settings) (hs : Settings.Normal s) (d : Data) (iters : Nat) :
    ((run env World.empty (freshHistory s d iters)).view 0).map (·.fitted) = some (some (s.fitIn env d)) := by
  let wE := mkExpr World.empty s.terms
  let w0 := construct wE s.cls s.mset s.scaleKnown 0
  have hrun : run env World.empty (freshHistory s d iters) = (step env w0 (.fit 0 d iters)).1 := rfl
  have h1 : (wE.exprs.getD 0 []).map wE.term = s.terms.map TermObj.fresh := by
    have := term_map_of_terms wE [] (s.terms.map TermObj.fresh) (by simp [wE, mkExpr, World.empty])
    simpa [wE, mkExpr, World.empty] using this
  obtain ⟨m0, hm0, hset⟩ : ∃ m0, w0.models[0]? = some m0 ∧ (w0.viewOf m0).settings = s := by
    refine ⟨_, rfl, ?_⟩
    have h2 := term_map_of_terms w0 wE.terms ((wE.exprs.getD 0 []).map wE.term) rfl
    rw [h1] at h2
    obtain ⟨cls, mset, sk, terms⟩ := s
    simp only [World.viewOf, ModelView.settings, Settings.mk.injEq]
    refine ⟨trivial, trivial, trivial, ?_⟩
    have h3 : List.map w0.term (freshIds wE.terms.length ((wE.exprs.getD 0 []).map wE.term).length)
        = terms.map TermObj.fresh := by
      rw [h1]; exact h2
    show List.map TermObj.settings (List.map w0.term (freshIds wE.terms.length ((wE.exprs.getD 0 []).map wE.term).length)) = terms
    rw [h3, List.map_map]
    conv => rhs; rw [← List.map_id terms]
    apply List.map_congr_left
    intro t ht
    exact fresh_settings_of_valid t (hs t ht)
  rw [hrun]
  have := (fit_history_free env w0 0 d iters m0 hm0).1
  rw [hset] at this
  exact this

/-- **history-independence of `fit`**, in the form of the property: for every history `hs` of public calls and
every model `i` alive after it, `fit(d)` gives `i` the same binding of `coef_` / `statistics_` as the first fit of
a brand-new model built in an empty world from a brand-new expression with `i`'s settings. -/
theorem fit_history_free_run (env : Env) (hs : List Op) (i : Nat) (d : Data) (iters iters' : Nat) (v : ModelView)
    (hv : (run env World.empty hs).view i = some v) :
    ((run env World.empty (hs ++ [.fit i d iters])).view i).map (·.fitted)
      = ((run env World.empty (freshHistory v.settings d iters')).view 0).map (·.fitted) := by
  rw [fresh_fit env v.settings (settings_normal v) d iters']
  obtain ⟨m, hm, rfl⟩ : ∃ m, (run env World.empty hs).models[i]? = some m ∧ (run env World.empty hs).viewOf m = v := by
    simp only [World.view] at hv
    cases hm : (run env World.empty hs).models[i]? with
    | none => simp [hm] at hv
    | some m => exact ⟨m, rfl, by simpa [hm] using hv⟩
  have := (fit_history_free env _ i d iters m hm).1
  simpa [run_append, run] using this

/-- the scale of a distribution with unknown scale is, after `fit`, the estimate of *this* fit (a generic `GAM`
re-uses its distribution object across fits; nothing stale survives) -/
theorem fit_scale_fresh (env : Env) {w : World} (h : Inv w) (i : Nat) (d : Data) (iters : Nat) (m : Model)
    (hm : w.models[i]? = some m) (v : ModelView) (hv : (step env w (.fit i d iters)).1.view i = some v)
    (hk : v.dist.known = false) : v.dist.scale = some ((w.viewOf m).settings.fitIn env d) := by
  have hi : i < w.models.length := (List.getElem?_eq_some_iff.mp hm).1
  simp only [step, hi, if_true] at hv
  obtain ⟨l, hl⟩ := fitModel_rec env w i d iters m hm
  simp only [World.view, hl, Option.map_some, Option.some.injEq] at hv
  subst hv
  simp only [World.viewOf] at hk ⊢
  have hp := prepare_model env w i d m hm
  have hdists : (fitModel env w i d iters).dists = upd (prepare env w i d).dists (preparedRec w m).dist
      (fun o => if o.known then o else { o with scale := some ((w.viewOf m).settings.fitIn env d) }) := by
    have ht : (preparedRec w m).terms.map (prepare env w i d).term = m.terms.map (fun t => compile env d (w.term t)) := by
      have := term_map_of_terms (prepare env w i d) _ _ (prepare_terms env w i d m hm)
      simpa [preparedRec] using this
    unfold fitModel pirls
    rw [hp]
    simp only [ht, compiled_eq_fresh]
    simp [preparedRec, Settings.fitIn, World.viewOf, ModelView.settings]
  have hin : (preparedRec w m).dist < (prepare env w i d).dists.length := ((prepare_inv (env := env) i d h).ok i _ hp).2.1
  rw [World.dist_eq, hdists, getElem?_upd_self] at hk ⊢
  rw [List.getElem?_eq_getElem hin] at hk ⊢
  simp only [Option.map_some, Option.getD_some] at hk ⊢
  split at hk
  · next hkn => simp [hkn] at hk
  · next hkn => simp [hkn, World.viewOf]

/-! ## models are isolated -/

/-- **isolation, one call**: a call made on model `i` (or on no model: building expressions, constructing or
copying a model) leaves every *other* model `j` exactly as it was — its predictions, statistics, settings, edge
knots, scale and logs — and leaves every expression the caller holds as it was.  Holds from every world with the
invariant, hence after every history. -/
theorem models_isolated (env : Env) {w : World} (h : Inv w) (o : Op) (j : Nat) (hj : j < w.models.length)
    (ht : o.target ≠ some j) : (step env w o).1.view j = w.view j := by
  refine (step_keeps env o h).view j hj (fun hmem => ht ?_)
  cases hto : o.target with
  | none => simp [hto] at hmem
  | some i => simp [hto] at hmem; simp [hmem]

/-- **isolation, histories**: no sequence of calls made on other models (fits on any data, grid searches with
or without `keep_best`, `set_params`, sampling, copies, new models from the same expressions) changes model `j` -/
theorem models_isolated_run (env : Env) (hs : List Op) : ∀ {w : World}, Inv w → ∀ j, j < w.models.length →
    (∀ o ∈ hs, o.target ≠ some j) → (run env w hs).view j = w.view j := by
  induction hs with
  | nil => intro w _ j _ _; rfl
  | cons o os ih =>
    intro w h j hj ht
    have h1 := models_isolated env h o j hj (ht o (List.mem_cons_self))
    have hk := step_keeps env o h
    have := ih hk.inv j (Nat.lt_of_lt_of_le hj hk.len) (fun o' ho' => ht o' (List.mem_cons_of_mem _ ho'))
    simpa [run, h1] using this.trans h1

/-- in particular *"fitting one model never changes another model's predictions"* (nor what any other query of
it returns) -/
theorem fit_never_changes_other_predictions (env : Env) {w : World} (h : Inv w) (i j : Nat) (d : Data) (iters : Nat)
    (hj : j < w.models.length) (hij : i ≠ j) :
    ((step env w (.fit i d iters)).1.view j).bind ModelView.predKey = (w.view j).bind ModelView.predKey
    ∧ ((step env w (.fit i d iters)).1.view j).bind ModelView.queryKey = (w.view j).bind ModelView.queryKey := by
  rw [models_isolated env h (.fit i d iters) j hj (by simpa [Op.target] using hij)]
  exact ⟨rfl, rfl⟩

/-- no history of calls changes an expression held by the caller (so a model built later from it gets the same
settings as a model built from it earlier) -/
theorem expressions_untouched (env : Env) (hs : List Op) : ∀ {w : World}, Inv w → ∀ e, e < w.exprs.length →
    (run env w hs).exprView e = w.exprView e := by
  induction hs with
  | nil => intro w _ e _; rfl
  | cons o os ih =>
    intro w h e he
    have hk := step_keeps env o h
    have := ih hk.inv e (Nat.lt_of_lt_of_le he hk.elen)
    simpa [run] using this.trans (hk.expr e he)

/-- a model built from expression `e` owns copies of `e`'s term objects: its settings are those of `e` -/
theorem construct_view (w : World) (cls : Cls) (mset : Nat) (sk : Bool) (e : Nat) (he : e < w.exprs.length) :
    ((construct w cls mset sk e).view w.models.length).map (·.terms) = w.exprView e := by
  have hx : w.exprs[e]? = some (w.exprs[e]) := List.getElem?_eq_getElem he
  simp only [World.view, construct, List.getElem?_append_right (Nat.le_refl _), Nat.sub_self, List.getElem?_cons_zero,
    Option.map_some, World.exprView, hx, World.viewOf, Option.some.injEq]
  have := term_map_of_terms (construct w cls mset sk e) w.terms ((w.exprs.getD e []).map w.term) rfl
  simpa [List.getD_eq_getElem?_getD, hx, construct] using this

/-- a deep copy / unpickled copy is, by value, the model it was made from (and by `reachable_inv` shares nothing
with it): it has the same settings, so by `fit_history_free` its fits give the same results -/
theorem copy_view (env : Env) (w : World) (i : Nat) (hi : i < w.models.length) :
    (step env w (.copy i)).1.view w.models.length = w.view i := by
  simp only [step, hi, if_true]
  exact copyModel_view i _ (List.getElem?_eq_getElem hi)

/-! ## `gam.terms = e` / `set_params(terms=e)` -/

/-- what the assignment does: the model gets **copies** of the expression's term objects — its view shows the
expression's current term values, un-compiled — and keeps everything else: a fitted model keeps `coef_`,
`statistics_`, `logs_` and its distribution.  (Its queries then read un-compiled term objects and raise until the
next fit: `queryKey`.)  By `models_isolated` no other model changes, by `expressions_untouched` no expression does,
and by `inv_preserved` the model shares nothing with the expression or with other models assigned the same expression. -/
theorem assign_view (env : Env) {w : World} (h : Inv w) (i e : Nat) (m : Model) (ex : List Nat)
    (hm : w.models[i]? = some m) (hx : w.exprs[e]? = some ex) :
    (step env w (.assignTerms i e)).1.view i = some { w.viewOf m with terms := ex.map w.term }
    ∧ ((step env w (.assignTerms i e)).1.view i).map (·.terms) = w.exprView e := by
  have hi : i < w.models.length := (List.getElem?_eq_some_iff.mp hm).1
  have he : e < w.exprs.length := (List.getElem?_eq_some_iff.mp hx).1
  simp only [step, hi, he, and_self, if_true]
  rw [assignTerms_view h i e m ex hm hx]
  exact ⟨rfl, by simp [World.exprView, hx]⟩

/-- **`fit` after `gam.terms = e` is history-free too**: the binding of `coef_` / `statistics_` is the one a brand-new
model built from a brand-new expression with `e`'s settings gets — whatever other models were assigned `e`, had their
hyper-parameters changed and were fitted on whatever data in between (none of that touches `e`: `expressions_untouched`) -/
theorem assign_fit_history_free (env : Env) {w : World} (h : Inv w) (i e : Nat) (d : Data) (iters : Nat) (m : Model)
    (ex : List Nat) (hm : w.models[i]? = some m) (hx : w.exprs[e]? = some ex) :
    ((run env w [.assignTerms i e, .fit i d iters]).view i).map (·.fitted)
      = some (some (Settings.fitIn env ⟨m.cls, m.mset, m.scaleKnown, (ex.map w.term).map TermObj.settings⟩ d)) := by
  have hi : i < w.models.length := (List.getElem?_eq_some_iff.mp hm).1
  have he : e < w.exprs.length := (List.getElem?_eq_some_iff.mp hx).1
  have hr := assignTerms_rec w i e m ex hm hx
  have h1 := (fit_history_free env (assignTerms w i e) i d iters _ hr).1
  have hv := assignTerms_view h i e m ex hm hx
  simp only [World.view, hr, Option.map_some, Option.some.injEq] at hv
  simp only [run, List.foldl_cons, List.foldl_nil, step, hi, he, and_self, if_true] at h1 ⊢
  rw [h1, hv]
  simp [World.viewOf, ModelView.settings]

/-- several models assigned **one** expression stay isolated: a plural `set_params` on one of them changes neither
the other one nor the expression (the instance of `models_isolated` / `expressions_untouched` that fails when the
assignment keeps a reference) -/
theorem assigned_models_isolated (env : Env) {w : World} (h : Inv w) (i j e c : Nat) (hij : i ≠ j)
    (hj : j < w.models.length) (he : e < w.exprs.length) :
    let w2 := run env w [.assignTerms i e, .assignTerms j e]
    (step env w2 (.setLam i c)).1.view j = w2.view j ∧ (step env w2 (.setLam i c)).1.exprView e = w2.exprView e
    ∧ (step env w2 (.setOrder i c)).1.view j = w2.view j ∧ (step env w2 (.setOrder i c)).1.exprView e = w2.exprView e := by
  intro w2
  have hinv2 : Inv w2 := inv_run env _ h
  have k1 := step_keeps env (.assignTerms i e) h
  have k2 := step_keeps env (.assignTerms j e) k1.inv
  have hj2 : j < w2.models.length := Nat.lt_of_lt_of_le (Nat.lt_of_lt_of_le hj k1.len) k2.len
  have he2 : e < w2.exprs.length := Nat.lt_of_lt_of_le (Nat.lt_of_lt_of_le he k1.elen) k2.elen
  exact ⟨models_isolated env hinv2 _ j hj2 (by simpa [Op.target] using hij),
    (step_keeps env (.setLam i c) hinv2).expr e he2,
    models_isolated env hinv2 _ j hj2 (by simpa [Op.target] using hij),
    (step_keeps env (.setOrder i c) hinv2).expr e he2⟩

/-! ## `gridsearch(keep_best=True)` -/

/-- after `gridsearch(keep_best=True)` the model is, **by value**, the winner (entry `win` of the list `models` of
the code: `self` first if it was fitted, then the candidates), and — by the invariant, `inv_preserved` — it shares
no term object, distribution object or log dictionary with the winner that is returned to the caller -/
theorem keep_best_copies (env : Env) {w : World} (h : Inv w) (i : Nat) (d : Data) (grid : List (Nat × Nat)) (win : Nat)
    (m0 : Model) (hm0 : w.models[i]? = some m0)
    (hwin : win < (if m0.fitted.isSome then grid.length + 1 else grid.length)) :
    let w' := (step env w (.gridsearch i d true grid win)).1
    let b := poolIndex m0.fitted.isSome i w.models.length win
    w'.view i = w'.view b
    ∧ (b ≠ i → ∀ mi mb, w'.models[i]? = some mi → w'.models[b]? = some mb → mi.sep mb) := by
  have hi : i < w.models.length := (List.getElem?_eq_some_iff.mp hm0).1
  intro w' b
  have hinv' : Inv w' := inv_step env _ h
  refine ⟨?_, fun hbi mi mb hmi hmb => hinv'.sep i b mi mb hmi hmb (Ne.symm hbi)⟩
  -- unfold the search
  have hw' : w' = gridsearch env w i d true grid win := by simp [w', step, hi]
  let w1 := if m0.fitted.isSome = true then w else prepare env w i d
  let w2 := grid.foldl (candidate env i d) w1
  have hw1len : w1.models.length = w.models.length := by
    simp only [w1]; split
    · rfl
    · exact prepare_length ..
  have hw1inv : Inv w1 := by
    simp only [w1]; split
    · exact h
    · exact prepare_inv i d h
  have hk2 := candidates_keeps (env := env) i d grid hw1inv
  have hw2len : w2.models.length = w.models.length + grid.length := by
    rw [← hw1len]; exact candidates_length env i d grid w1 (by omega)
  have hgs : w' = adopt w2 i b := by
    rw [hw']
    unfold gridsearch
    rw [hm0]
    simp only [true_and, hwin, if_true, w2, w1, b, hw1len]
  have hb : b < w2.models.length := by
    simp only [b, poolIndex]
    cases hf : m0.fitted.isSome with
    | true =>
      simp only [hf, if_true] at hwin ⊢
      split <;> omega
    | false =>
      simp only [hf, Bool.false_eq_true, if_false] at hwin ⊢
      omega
  have hi2 : i < w2.models.length := by omega
  obtain ⟨mb, hmb⟩ : ∃ mb, w2.models[b]? = some mb := ⟨_, List.getElem?_eq_getElem hb⟩
  rw [hgs, adopt_view i b mb hmb hi2]
  clear_value b
  by_cases hbi : b = i
  · subst hbi
    exact (adopt_view b b mb hmb hi2).symm
  · exact ((adopt_keeps i b hk2.inv).view b hb (by simpa using hbi)).symm

/-- … so a subsequent `fit` of the model (on any data) does not change the returned winner (nor any candidate):
its predictions, statistics, scale and logs stay what they were -/
theorem fit_after_keep_best (env : Env) {w : World} (h : Inv w) (i : Nat) (d d' : Data) (grid : List (Nat × Nat))
    (win iters : Nat) (b : Nat) (hb : b ≠ i)
    (hlt : b < (step env w (.gridsearch i d true grid win)).1.models.length) :
    (run env w [.gridsearch i d true grid win, .fit i d' iters]).view b
      = (step env w (.gridsearch i d true grid win)).1.view b := by
  have h1 := inv_step env (.gridsearch i d true grid win) h
  have := models_isolated env h1 (.fit i d' iters) b hlt (by simpa [Op.target] using Ne.symm hb)
  simpa [run] using this

/-! ## non-vacuity -/

/-- a concrete environment: data set `d` has edge knots `10 d + feature` (`+ 5` for categorical) and `d + 2` categories -/
def env0 : Env := { knots := fun d f c => 10 * d + f + (if c then 5 else 0), ncat := fun d _ => d + 2 }

/-- a history exercising every kind of call on two models built from one expression -/
def hist0 : List Op :=
  [.mkExpr [⟨.spline, 0, 6, 3, 0, none⟩, ⟨.factor, 1, 0, 0, 0, none⟩], .construct .linear 0 false 0,
   .construct .generic 0 false 0, .setLam 0 3, .fit 0 0 2, .fit 1 1 3, .gridsearch 0 1 true [(1, 2), (2, 2)] 1,
   .sample 1 0 [([(5, 1), (6, 1)], 0)], .copy 1, .setOrder 0 2, .fit 0 1 2, .query .predict 0 0]

/-- the hypotheses of the theorems are met by real histories: `hist0` is reachable (so `Inv` holds after it) and
has five models -/
example : Reachable env0 (run env0 World.empty hist0) ∧ (run env0 World.empty hist0).models.length = 5 :=
  ⟨⟨hist0, rfl⟩, by decide⟩

/-- … and the statements are not trivial there: refitting model 0 on data 1 changed its edge knots and number of
categories (data-dependent state follows the data), while model 1 kept its own -/
example : ((run env0 World.empty hist0).view 0).map (fun v => v.terms.map (fun t => (t.knots, t.set.nSplines)))
      = some [(some 10, 6), (some 16, 3)]
    ∧ ((run env0 World.empty (hist0.take 5)).view 0).map (fun v => v.terms.map (fun t => (t.knots, t.set.nSplines)))
      = some [(some 0, 6), (some 6, 2)] := by
  decide

/-- a history with `gam.terms = e`: two models are assigned one expression, a hyper-parameter of the first is changed,
and they are fitted on data sets with other knot ranges and numbers of categories -/
def hist1 : List Op :=
  [.mkExpr [⟨.spline, 0, 6, 3, 0, none⟩, ⟨.factor, 1, 0, 0, 0, none⟩], .mkExpr [⟨.linear, 0, 0, 0, 0, none⟩],
   .construct .linear 0 false 1, .construct .linear 0 false 1, .fit 0 1 2, .assignTerms 0 0, .assignTerms 1 0,
   .setLam 0 5, .query .predict 0 0, .fit 0 0 2, .fit 1 1 2, .query .predict 0 0]

/-- after it each model has the knots / categories of its own data, only model 0 got the new `lam`, the expression's
term objects were neither compiled nor changed; and the query between the assignment and the refit of the fitted
model 0 raises (its new term objects are not compiled) while the one after the refit succeeds -/
example :
    let w := run env0 World.empty hist1
    (w.view 0).map (fun v => v.terms.map (fun t => (t.knots, t.set.nSplines, t.set.lam))) = some [(some 0, 6, 5), (some 6, 2, 5)]
    ∧ (w.view 1).map (fun v => v.terms.map (fun t => (t.knots, t.set.nSplines, t.set.lam))) = some [(some 10, 6, 0), (some 16, 3, 0)]
    ∧ (w.exprView 0).map (fun ts => ts.map (fun t => (t.knots, t.set.lam))) = some [(none, 0), (none, 0)]
    ∧ (step env0 (run env0 World.empty (hist1.take 8)) (.query .predict 0 0)).2 = .error
    ∧ ((run env0 World.empty (hist1.take 8)).view 0).map (fun v => v.fitted.isSome) = some true
    ∧ (step env0 (run env0 World.empty (hist1.take 11)) (.query .predict 0 0)).2 ≠ .error := by
  decide

/-! ### tie to the source by translation of the decision logic (`gen_decision_*`)

`Gen/Decisions.lean` is regenerated on every run from the abstract syntax tree of `pygam/pygam.py`:
`Gen.classRecreatesDist` says for every model class whether its own `_validate_params` executes
`self.distribution = <Dist>(scale=self.scale)`. -/
section gen_decisions
/-- the Python class of a model class of `Model/Heap.lean` -/
def clsPyName : Cls → String
  | .linear => "LinearGAM" | .gamma => "GammaGAM" | .invGauss => "InvGaussGAM" | .expectile => "ExpectileGAM"
  | .logistic => "LogisticGAM" | .poisson => "PoissonGAM" | .generic => "GAM"

/-- the classes that build a fresh distribution object on every fit are exactly those of `Cls.recreatesDist` -/
theorem gen_decision_recreates_dist (c : Cls) :
    Gen.classRecreatesDist.lookup (clsPyName c) = some (some c.recreatesDist) := by
  cases c <;> rfl

end gen_decisions

end PyGam.C15
