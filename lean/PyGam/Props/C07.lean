import PyGam.Proofs.Links
import PyGam.Proofs.XR
import PyGam.Gen.Tables
import PyGam.Gen.Formulas
/-!
# C07 — link functions are monotone bijections with the stated inverse and derivative;
# targets outside the link's domain are rejected

Property theorems only.  Part A is over `ℝ` and is about the model triple
`linkFn / linkInv / linkGrad` of `Model/Links.lean` (= `Link.link / Link.mu / Link.gradient` of
`pygam/links.py`), for **every** link, **every** `levels` (number of binomial trials; only the logit link
reads it) and **every** mean in the open domain `linkDomain` / linear predictor in `linkRange`:

| link        | `linkDomain`     | `linkRange` | direction  |
|-------------|------------------|-------------|------------|
| identity    | ℝ                | ℝ           | increasing |
| log         | (0, ∞)           | ℝ           | increasing |
| logit       | (0, levels)      | ℝ           | increasing |
| inverse     | (0, ∞)           | (0, ∞)      | decreasing |
| inv_squared | (0, ∞)           | (0, ∞)      | decreasing |

Part B is about the decision taken by `utils.check_y` (`Model/XR.lean : checkY`), over the IEEE
special-value algebra `XR α` on any linearly ordered field `α` and **any** `ExpLog α` instance.
-/
open Set
namespace PyGam.C07
open PyGam LinkKind XR

/-! ## A. bijection, inverse, derivative, monotonicity (ℝ) -/

/-- "applying the link and then the inverse link returns the mean": `mu(link(m)) = m` for every link and
every mean of its open domain -/
theorem mu_link (k : LinkKind) (levels m : ℝ) (hm : m ∈ linkDomain k levels) :
    linkInv k levels (linkFn k levels m) = m := by
  cases k
  · rfl
  · exact Real.exp_log hm
  · exact logit_mu_link levels m hm.1 hm.2
  · rw [linkFn_inverse, linkInv_inverse, one_div_one_div]
  · exact invSquared_mu_link levels m hm

/-- "and conversely for every linear-predictor value in the link's range": `link(mu(lp)) = lp`
(`0 < levels` is what makes the binomial mean space non-empty) -/
theorem link_mu (k : LinkKind) (levels lp : ℝ) (hL : 0 < levels) (hlp : lp ∈ linkRange k levels) :
    linkFn k levels (linkInv k levels lp) = lp := by
  cases k
  · rfl
  · exact Real.log_exp lp
  · exact logit_link_mu levels lp hL
  · rw [linkInv_inverse, linkFn_inverse, one_div_one_div]
  · exact invSquared_link_mu levels lp hlp

/-- the link maps its domain into its range … -/
theorem link_mem_range (k : LinkKind) (levels m : ℝ) (hm : m ∈ linkDomain k levels) :
    linkFn k levels m ∈ linkRange k levels := by
  cases k
  · trivial
  · trivial
  · trivial
  · have h : 0 < m := hm
    show 0 < 1 / m
    positivity
  · have h : 0 < m := hm
    show 0 < 1 / (m * m)
    positivity

/-- … and the inverse link maps the range back into the domain -/
theorem mu_mem_domain (k : LinkKind) (levels lp : ℝ) (hL : 0 < levels)
    (hlp : lp ∈ linkRange k levels) : linkInv k levels lp ∈ linkDomain k levels := by
  cases k
  · trivial
  · exact Real.exp_pos lp
  · exact logit_mu_mem levels lp hL
  · have h : 0 < lp := hlp
    show 0 < 1 / lp
    positivity
  · have h : 0 < lp := hlp
    show 0 < 1 / Real.sqrt lp
    have := Real.sqrt_pos.mpr h
    positivity

/-- every link is a bijection from its open domain of means onto its range of linear predictors, with
`Link.mu` as the two-sided inverse -/
theorem link_bijOn (k : LinkKind) (levels : ℝ) (hL : 0 < levels) :
    BijOn (linkFn k levels) (linkDomain k levels) (linkRange k levels) ∧
    InvOn (linkInv k levels) (linkFn k levels) (linkDomain k levels) (linkRange k levels) := by
  have hinv : InvOn (linkInv k levels) (linkFn k levels) (linkDomain k levels) (linkRange k levels) :=
    ⟨fun m hm => mu_link k levels m hm, fun lp hlp => link_mu k levels lp hL hlp⟩
  exact ⟨hinv.bijOn (fun m hm => link_mem_range k levels m hm)
    (fun lp hlp => mu_mem_domain k levels lp hL hlp), hinv⟩

/-- "the reported gradient equals the derivative of the link with respect to the mean" -/
theorem link_hasDerivAt (k : LinkKind) (levels m : ℝ) (hm : m ∈ linkDomain k levels) :
    HasDerivAt (linkFn k levels) (linkGrad k levels m) m := by
  cases k
  · exact hasDerivAt_id' m
  · exact log_hasDerivAt levels m (ne_of_gt hm)
  · exact logit_hasDerivAt levels m hm.1 hm.2
  · exact inverse_hasDerivAt levels m (ne_of_gt hm)
  · exact invSquared_hasDerivAt levels m (ne_of_gt hm)

/-- the power links are differentiable with the reported gradient at every non-zero mean, and the inverse
link round-trips there too (negative means are outside `linkDomain` but inside what `check_y` accepts) -/
theorem power_links_ne_zero (levels m : ℝ) (hm : m ≠ 0) :
    HasDerivAt (linkFn inverse levels) (linkGrad inverse levels m) m ∧
    HasDerivAt (linkFn invSquared levels) (linkGrad invSquared levels m) m ∧
    linkInv inverse levels (linkFn inverse levels m) = m :=
  ⟨inverse_hasDerivAt levels m hm, invSquared_hasDerivAt levels m hm, by
    rw [linkFn_inverse, linkInv_inverse, one_div_one_div]⟩

/-- "the link is strictly monotone": identity, log, logit are strictly increasing on their domain -/
theorem link_strictMonoOn (k : LinkKind) (levels : ℝ) (hk : k.increasing = true) :
    StrictMonoOn (linkFn k levels) (linkDomain k levels) := by
  cases k
  · intro a _ b _ h; exact h
  · exact Real.strictMonoOn_log
  · exact logit_strictMonoOn levels
  · simp [LinkKind.increasing] at hk
  · simp [LinkKind.increasing] at hk

/-- inverse and inv_squared are strictly decreasing on their domain -/
theorem link_strictAntiOn (k : LinkKind) (levels : ℝ) (hk : k.increasing = false) :
    StrictAntiOn (linkFn k levels) (linkDomain k levels) := by
  cases k
  · simp [LinkKind.increasing] at hk
  · simp [LinkKind.increasing] at hk
  · simp [LinkKind.increasing] at hk
  · exact inverse_strictAntiOn levels
  · exact invSquared_strictAntiOn levels

/-- every link is strictly monotone on its domain -/
theorem link_strictly_monotone (k : LinkKind) (levels : ℝ) :
    StrictMonoOn (linkFn k levels) (linkDomain k levels) ∨
    StrictAntiOn (linkFn k levels) (linkDomain k levels) := by
  cases h : k.increasing
  · exact Or.inr (link_strictAntiOn k levels h)
  · exact Or.inl (link_strictMonoOn k levels h)

/-- the reported gradient has the sign of the direction and never vanishes on the domain -/
theorem linkGrad_sign (k : LinkKind) (levels m : ℝ) (hm : m ∈ linkDomain k levels) :
    if k.increasing then 0 < linkGrad k levels m else linkGrad k levels m < 0 := by
  cases k
  · show (0 : ℝ) < 1
    exact one_pos
  · have h : 0 < m := hm
    show 0 < 1 / m
    positivity
  · have h1 : 0 < m := hm.1
    have h2 : 0 < levels - m := sub_pos.mpr hm.2
    have h3 : 0 < levels := lt_trans hm.1 hm.2
    show 0 < levels / (m * (levels - m))
    positivity
  · have h : 0 < m := hm
    show (-1 : ℝ) * (1 / (m * m)) < 0
    have : 0 < 1 / (m * m) := by positivity
    linarith
  · have h : 0 < m := hm
    show (-(1 + 1) : ℝ) * (1 / (m * m * m)) < 0
    have : 0 < 1 / (m * m * m) := by positivity
    linarith

/-- the inverse link (`Link.mu`) is strictly monotone on the range, in the same direction as the link
(used by the interval properties: an increasing link has an increasing mean function) -/
theorem mu_strictly_monotone (k : LinkKind) (levels : ℝ) (hL : 0 < levels) :
    if k.increasing then StrictMonoOn (linkInv k levels) (linkRange k levels)
    else StrictAntiOn (linkInv k levels) (linkRange k levels) := by
  have key : ∀ a ∈ linkRange k levels, ∀ b ∈ linkRange k levels,
      linkInv k levels a = linkInv k levels b → a = b := fun a ha b hb h => by
    rw [← link_mu k levels a hL ha, ← link_mu k levels b hL hb, h]
  cases hk : k.increasing
  · simp only [Bool.false_eq_true, if_false]
    intro a ha b hb hab
    by_contra hc
    have hle : linkInv k levels a ≤ linkInv k levels b := not_lt.mp hc
    have := (link_strictAntiOn k levels hk).antitoneOn (mu_mem_domain k levels a hL ha)
      (mu_mem_domain k levels b hL hb) hle
    rw [link_mu k levels a hL ha, link_mu k levels b hL hb] at this
    exact absurd hab (not_lt.mpr this)
  · simp only [if_true]
    intro a ha b hb hab
    by_contra hc
    have hle : linkInv k levels b ≤ linkInv k levels a := not_lt.mp hc
    have := (link_strictMonoOn k levels hk).monotoneOn (mu_mem_domain k levels b hL hb)
      (mu_mem_domain k levels a hL ha) hle
    rw [link_mu k levels a hL ha, link_mu k levels b hL hb] at this
    exact absurd hab (not_lt.mpr this)

/-- non-vacuity: the domains are inhabited for every link (binomial with 5 trials for logit) and the
statements evaluate on concrete means -/
example : (2 : ℝ) ∈ linkDomain logit 5 := ⟨by norm_num, by norm_num⟩
example : ∀ k : LinkKind, (1 / 2 : ℝ) ∈ linkDomain k 1 := by
  intro k; cases k <;> simp [linkDomain]
  norm_num
example : ∀ k : LinkKind, (3 : ℝ) ∈ linkRange k 1 := by
  intro k; cases k <;> simp [linkRange]
example : linkGrad logit (5 : ℝ) 2 = 5 / 6 := by rw [linkGrad_logit]; norm_num
example : linkFn invSquared (1 : ℝ) 2 = 1 / 4 := by rw [linkFn_invSquared]; norm_num

/-! ## B. the domain decision of `check_y` / `get_link_domain` (IEEE special values) -/
section decisions
set_option linter.unusedSectionVars false
variable {α : Type} [Field α] [LinearOrder α] [IsStrictOrderedRing α] [ExpLog α]

/-- on a finite target `link(y)` is NaN exactly when `y` lies outside the closed domain
(`[0, ∞)` for log, `[0, levels]` for logit, everything for identity / inverse / inv_squared, whose
value at `0` is `+inf`, not NaN) — whatever finite values `log` returns -/
theorem linkIsNaN_iff (k : LinkKind) (levels y : α) (hL : 0 < levels) :
    linkIsNaN k levels (fin y) = true ↔ y ∉ closedDomain k levels :=
  linkIsNaN_fin_iff k levels y hL

/-- `check_y` accepts exactly the non-empty target arrays all of whose entries are finite and inside the
closed domain of the link … -/
theorem checkY_accept_iff (k : LinkKind) (levels : α) (hL : 0 < levels) (ys : List (XR α)) :
    checkY k levels ys = Verdict.accept ↔
      ys ≠ [] ∧ ∀ y ∈ ys, ∃ z, y = fin z ∧ z ∈ closedDomain k levels :=
  checkY_accept_iff' k levels hL ys

/-- … i.e. "targets outside the domain of the model's link are rejected with a ValueError": on finite
targets `check_y` rejects iff some target is outside the closed domain -/
theorem checkY_reject_iff (k : LinkKind) (levels : α) (hL : 0 < levels) (zs : List α)
    (hne : zs ≠ []) :
    checkY k levels (zs.map fin) = Verdict.reject ↔ ∃ z ∈ zs, z ∉ closedDomain k levels := by
  have h := checkY_accept_iff k levels hL (zs.map fin)
  have hrej : checkY k levels (zs.map fin) = Verdict.reject ↔
      ¬ checkY k levels (zs.map fin) = Verdict.accept := by
    cases checkY k levels (zs.map fin) <;> simp
  rw [hrej, h]
  constructor
  · intro hn
    by_contra hc
    refine hn ⟨by simpa using hne, fun y hy => ?_⟩
    obtain ⟨z, hz, rfl⟩ := List.mem_map.mp hy
    exact ⟨z, rfl, by_contra (fun hd => hc ⟨z, hz, hd⟩)⟩
  · rintro ⟨z, hz, hd⟩ ⟨_, hall⟩
    obtain ⟨z', hz', hd'⟩ := hall (fin z) (List.mem_map.mpr ⟨z, hz, rfl⟩)
    cases hz'
    exact hd hd'

/-- NaN / ±inf anywhere in the targets, or no target at all, is rejected for every link -/
theorem checkY_rejects_nonfinite_or_empty (k : LinkKind) (levels : α) (ys : List (XR α))
    (h : ys = [] ∨ ∃ y ∈ ys, y.isFinite = false) : checkY k levels ys = Verdict.reject := by
  unfold checkY
  rcases h with h | ⟨y, hy, hf⟩
  · subst h; simp
  · have : ys.any (fun y => !y.isFinite) = true := List.any_eq_true.mpr ⟨y, hy, by simp [hf]⟩
    simp [this]

/-- what `get_link_domain` reports (it probes `[-inf, -1, 0, 1, inf]` and keeps the non-NaN ones) -/
theorem getLinkDomain_eq (k : LinkKind) (levels : α) (hL : 0 < levels) :
    getLinkDomain k levels = some (match k with
      | identity => (negInf, posInf)
      | LinkKind.log => (fin 0, posInf)
      | logit => (fin 0, if 1 ≤ levels then fin 1 else fin 0)
      | inverse => (negInf, posInf)
      | invSquared => (negInf, posInf)) := by
  cases k
  · exact getLinkDomain_identity levels
  · exact getLinkDomain_log levels
  · exact getLinkDomain_logit levels hL
  · exact getLinkDomain_inverse levels
  · exact getLinkDomain_invSquared levels

/-- the rejection rule and the reported domain are the same rule: for every link whose domain does not
depend on `levels`, and for logit with `levels = 1`, a finite target is rejected iff it lies outside the
interval `[lo, hi]` reported by `get_link_domain` (IEEE comparisons).  For logit with `levels > 1` the
decision uses `[0, levels]` (`linkIsNaN_iff`) while the probe set can only report `[0, 1]`: that affects the
text of the error message only. -/
theorem reject_iff_outside_reported_domain (k : LinkKind) (levels y : α)
    (hk : k ≠ logit ∨ levels = 1) (hL : 0 < levels) :
    ∃ lo hi, getLinkDomain k levels = some (lo, hi) ∧
      (linkIsNaN k levels (fin y) = true ↔ ¬ (XR.le lo (fin y) = true ∧ XR.le (fin y) hi = true)) := by
  cases k
  · exact ⟨_, _, getLinkDomain_identity levels, by simp [linkIsNaN_identity, XR.le]⟩
  · exact ⟨_, _, getLinkDomain_log levels, by rw [linkIsNaN_log]; simp [XR.le]⟩
  · rcases hk with hk | hk
    · exact absurd rfl hk
    · subst hk
      refine ⟨_, _, getLinkDomain_logit 1 hL, ?_⟩
      rw [linkIsNaN_logit 1 y hL]
      simp only [le_refl, if_true, XR.le, Bool.not_eq_true', decide_eq_false_iff_not, not_lt,
        not_and_or, not_le]
  · exact ⟨_, _, getLinkDomain_inverse levels, by simp [linkIsNaN_inverse, XR.le]⟩
  · exact ⟨_, _, getLinkDomain_invSquared levels, by simp [linkIsNaN_invSquared, XR.le]⟩

end decisions

/-! non-vacuity (executed over exact rationals with the class-only `ExpLog` used by the driver):
boundary targets are accepted, targets beyond them rejected, specials rejected -/
section nonvacuity
attribute [local instance] ExpLog.classOnlyRat
example : checkY (α := Rat) logit 5 [fin 0, fin 5, fin (5/2)] = Verdict.accept := by
  decide +kernel
example : checkY (α := Rat) logit 5 [fin 0, fin (11/2)] = Verdict.reject := by
  decide +kernel
example : checkY (α := Rat) LinkKind.log 1 [fin 1, fin (-1/1000)] = Verdict.reject := by
  decide +kernel
example : checkY (α := Rat) inverse 1 [fin 0, fin (-3)] = Verdict.accept := by
  decide +kernel
example : checkY (α := Rat) identity 1 [fin 1, posInf] = Verdict.reject := by
  decide +kernel
example : getLinkDomain (α := Rat) logit 5 = some (fin 0, fin 1) := by
  decide +kernel
end nonvacuity

/-! ### tie to the source by translation -/

/-- the link registry of the source is the one modelled by `LinkKind` -/
theorem gen_link_names :
    ∀ names, Gen.linkNames = some names →
      (∀ k ∈ LinkKind.all, k.name ∈ names) ∧ (∀ s ∈ names, (LinkKind.ofName? s).isSome) := by
  intro names h
  have h2 : Gen.linkNames = some ["identity", "inv_squared", "inverse", "log", "logit"] := rfl
  rw [h2] at h; cases h
  decide

/-! ### tie to the source by translation of the formulas (`gen_formula_*`)

`Gen/Formulas.lean` is regenerated on every run from the abstract syntax tree of `pygam/links.py`: one definition per
`link` / `mu` / `gradient` method of the five link classes registered in `LINKS` (`x ** -1.0, -2.0, -3.0, -0.5` written
`1/x`, `1/(x*x)`, `1/(x*x*x)`, `1/sqrt x` as documented in `Model/Links.lean`; `np.asarray(·, dtype=…)` the identity;
`getattr(dist, 'levels', 1)` the parameter `levels`).  Each theorem states that the generated definition IS the
hand-written model function of that link, for every type carrying the notation classes; all fifteen hold by `rfl`
(the model mirrors the source literally), so any change of a formula in the source — a dropped `levels`, `-2` for `-3`,
a swapped sign — breaks the corresponding theorem at `lake build`. -/
section gen_formulas
set_option linter.unusedSectionVars false
variable {α : Type} [One α] [Add α] [Sub α] [Mul α] [Div α] [Neg α] [ExpLog α]

/-- `IdentityLink.link` is `linkFn identity` -/
theorem gen_formula_link_identity : (Gen.link_identity : α → α → α) = linkFn identity := rfl
/-- `LogLink.link` is `linkFn log` -/
theorem gen_formula_link_log : (Gen.link_log : α → α → α) = linkFn LinkKind.log := rfl
/-- `LogitLink.link` is `linkFn logit` -/
theorem gen_formula_link_logit : (Gen.link_logit : α → α → α) = linkFn logit := rfl
/-- `InverseLink.link` is `linkFn inverse` -/
theorem gen_formula_link_inverse : (Gen.link_inverse : α → α → α) = linkFn inverse := rfl
/-- `InvSquaredLink.link` is `linkFn invSquared` -/
theorem gen_formula_link_invSquared : (Gen.link_invSquared : α → α → α) = linkFn invSquared := rfl

/-- `IdentityLink.mu` is `linkInv identity` -/
theorem gen_formula_linkInv_identity : (Gen.linkInv_identity : α → α → α) = linkInv identity := rfl
/-- `LogLink.mu` is `linkInv log` -/
theorem gen_formula_linkInv_log : (Gen.linkInv_log : α → α → α) = linkInv LinkKind.log := rfl
/-- `LogitLink.mu` is `linkInv logit` -/
theorem gen_formula_linkInv_logit : (Gen.linkInv_logit : α → α → α) = linkInv logit := rfl
/-- `InverseLink.mu` is `linkInv inverse` -/
theorem gen_formula_linkInv_inverse : (Gen.linkInv_inverse : α → α → α) = linkInv inverse := rfl
/-- `InvSquaredLink.mu` is `linkInv invSquared` -/
theorem gen_formula_linkInv_invSquared : (Gen.linkInv_invSquared : α → α → α) = linkInv invSquared := rfl

/-- `IdentityLink.gradient` is `linkGrad identity` -/
theorem gen_formula_linkGrad_identity : (Gen.linkGrad_identity : α → α → α) = linkGrad identity := rfl
/-- `LogLink.gradient` is `linkGrad log` -/
theorem gen_formula_linkGrad_log : (Gen.linkGrad_log : α → α → α) = linkGrad LinkKind.log := rfl
/-- `LogitLink.gradient` is `linkGrad logit` -/
theorem gen_formula_linkGrad_logit : (Gen.linkGrad_logit : α → α → α) = linkGrad logit := rfl
/-- `InverseLink.gradient` is `linkGrad inverse` -/
theorem gen_formula_linkGrad_inverse : (Gen.linkGrad_inverse : α → α → α) = linkGrad inverse := rfl
/-- `InvSquaredLink.gradient` is `linkGrad invSquared` -/
theorem gen_formula_linkGrad_invSquared : (Gen.linkGrad_invSquared : α → α → α) = linkGrad invSquared := rfl

end gen_formulas

end PyGam.C07
