import PyGam.Proofs.Dists
import PyGam.Model.DistState
import PyGam.Model.GamScale
import PyGam.Gen.Decisions
import PyGam.Gen.Tables
import PyGam.Gen.Formulas
/-!
# C06 — each family's variance function, deviance, log-density, scale and sampler agree

Property theorems only (over `ℝ`; `HasLogSqrt ℝ = (Real.log, Real.sqrt)`), for the five families
`normal | binomial (levels) | poisson | gamma | invGauss` of `Model/Dists.lean`, uniformly in the family.
`validDom fam levels y mu` is the support × mean domain:
normal: all; binomial: `0 ≤ y ≤ levels`, `0 < mu < levels`; poisson: `0 ≤ y`, `0 < mu`; gamma, inverse gaussian: `0 < y`, `0 < mu`
(so the boundary counts `y = 0` and `y = levels` are included).
-/
open Finset
namespace PyGam.C06
open PyGam

/-- "the unit deviance is non-negative" -/
theorem dev_nonneg (fam : Family) (levels y mu : ℝ) (h : validDom fam levels y mu) :
    0 ≤ unitDeviance fam levels y mu := by
  cases fam
  · exact normal_dev_nonneg levels y mu
  · obtain ⟨h1, h2, h3, h4⟩ := h; exact binomial_dev_nonneg h1 h2 h3 h4
  · obtain ⟨h1, h2⟩ := h; exact poisson_dev_nonneg levels h1 h2
  · obtain ⟨h1, h2⟩ := h; exact gamma_dev_nonneg levels h1 h2
  · obtain ⟨h1, h2⟩ := h; exact invGauss_dev_nonneg levels h1 h2

/-- "zero exactly at y = mu" -/
theorem dev_eq_zero_iff (fam : Family) (levels y mu : ℝ) (h : validDom fam levels y mu) :
    unitDeviance fam levels y mu = 0 ↔ y = mu := by
  cases fam
  · exact normal_dev_eq_zero_iff levels y mu
  · obtain ⟨h1, h2, h3, h4⟩ := h; exact binomial_dev_eq_zero_iff h1 h2 h3 h4
  · obtain ⟨h1, h2⟩ := h; exact poisson_dev_eq_zero_iff levels h1 h2
  · obtain ⟨h1, h2⟩ := h; exact gamma_dev_eq_zero_iff levels h1 h2
  · obtain ⟨h1, h2⟩ := h; exact invGauss_dev_eq_zero_iff levels h1 h2

/-- "has derivative -2 (y - mu) / V(mu) in mu" — on the whole valid domain, boundary counts included -/
theorem dev_hasDerivAt (fam : Family) (levels y mu : ℝ) (h : validDom fam levels y mu) :
    HasDerivAt (fun m => unitDeviance fam levels y m) (-2 * (y - mu) / varFn fam levels mu) mu := by
  cases fam
  · exact normal_dev_hasDerivAt levels y mu
  · obtain ⟨_, _, h3, h4⟩ := h; exact binomial_dev_hasDerivAt y h3 h4
  · obtain ⟨_, h2⟩ := h; exact poisson_dev_hasDerivAt levels y h2
  · obtain ⟨h1, h2⟩ := h; exact gamma_dev_hasDerivAt levels h1 h2
  · obtain ⟨h1, h2⟩ := h; exact invGauss_dev_hasDerivAt levels h1 h2

/-- the `y = 0` branch of `ylogydu`, Poisson: the deviance is `2 mu` there and its slope is `2 = -2 (0 - mu)/mu` -/
theorem dev_hasDerivAt_poisson_zero (levels mu : ℝ) (hmu : 0 < mu) :
    HasDerivAt (fun m => unitDeviance .poisson levels 0 m) 2 mu := by
  have h := dev_hasDerivAt .poisson levels 0 mu ⟨le_refl _, hmu⟩
  exact h.congr_deriv (by simp only [varFn]; field_simp; ring)

/-- the `y = 0` branch, binomial: slope `2 levels / (levels - mu)` -/
theorem dev_hasDerivAt_binomial_zero (levels mu : ℝ) (h0 : 0 < mu) (h1 : mu < levels) :
    HasDerivAt (fun m => unitDeviance .binomial levels 0 m) (2 * levels / (levels - mu)) mu := by
  have h := dev_hasDerivAt .binomial levels 0 mu ⟨le_refl _, by linarith, h0, h1⟩
  have hn : levels ≠ 0 := by linarith
  have hnm : levels - mu ≠ 0 := by linarith
  exact h.congr_deriv (by simp only [varFn]; field_simp; ring)

/-- the `y = levels` branch (`levels - y = 0` in the second `ylogydu`), binomial: slope `-2 levels / mu` -/
theorem dev_hasDerivAt_binomial_levels (levels mu : ℝ) (h0 : 0 < mu) (h1 : mu < levels) :
    HasDerivAt (fun m => unitDeviance .binomial levels levels m) (-2 * levels / mu) mu := by
  have h := dev_hasDerivAt .binomial levels levels mu ⟨by linarith, le_refl _, h0, h1⟩
  have hn : levels ≠ 0 := by linarith
  have hnm : levels - mu ≠ 0 := by linarith
  exact h.congr_deriv (by simp only [varFn]; field_simp)

/-- "and equals 2 x scale x [log-density at the saturated mean - log-density at mu]", for every scale `> 0`
(`famScale` = the scale the family object carries: the caller's, or 1 for binomial / poisson) and every
`mu`-free normaliser `c` (it cancels) -/
theorem dev_eq_two_scale_loglik_diff (c : ℝ) (fam : Family) (levels scale y mu : ℝ) (hs : 0 < scale)
    (h : validDom fam levels y mu) :
    unitDeviance fam levels y mu
      = 2 * famScale fam scale
          * (logDensity c fam levels (famScale fam scale) 1 y y
              - logDensity c fam levels (famScale fam scale) 1 y mu) := by
  have e : ∀ a b : ℝ, (c + a) - (c + b) = a - b := fun a b => by ring
  simp only [logDensity, e]
  cases fam
  · have := normal_kernel_identity levels hs one_pos y mu
    simpa [famScale] using this
  · obtain ⟨h1, h2, h3, h4⟩ := h
    simpa [famScale] using binomial_kernel_identity h1 h2 h3 h4 1 1
  · obtain ⟨h1, h2⟩ := h
    simpa [famScale] using poisson_kernel_identity levels h1 h2 1
  · obtain ⟨h1, h2⟩ := h
    have := gamma_kernel_identity levels hs one_pos h1 h2
    simpa [famScale] using this
  · obtain ⟨h1, h2⟩ := h
    have := invGauss_kernel_identity levels hs one_pos h1 h2
    simpa [famScale] using this

/-- the same identity with observation weights, for the three families whose `log_pdf` uses the weights as
prior weights (dispersion `scale / w`): weighted deviance = `2 scale (ℓ_w(y; y) - ℓ_w(y; mu))`.
(`BinomialDist.log_pdf` ignores its weights and `PoissonDist.log_pdf` treats them as an exposure `mu * w`;
those are different quantities and are mirrored as such in `logKernel`.) -/
theorem weighted_dev_eq_two_scale_loglik_diff (c : ℝ) (fam : Family) (levels scale w y mu : ℝ)
    (hfam : fam = .normal ∨ fam = .gamma ∨ fam = .invGauss) (hs : 0 < scale) (hw : 0 < w)
    (h : validDom fam levels y mu) :
    deviance fam levels scale false w y mu
      = 2 * scale * (logDensity c fam levels scale w y y - logDensity c fam levels scale w y mu) := by
  have e : ∀ a b : ℝ, (c + a) - (c + b) = a - b := fun a b => by ring
  simp only [logDensity, e, deviance, Bool.false_eq_true, if_false]
  rcases hfam with rfl | rfl | rfl
  · rw [mul_comm]; exact normal_kernel_identity levels hs hw y mu
  · obtain ⟨h1, h2⟩ := h; rw [mul_comm]; exact gamma_kernel_identity levels hs hw h1 h2
  · obtain ⟨h1, h2⟩ := h; rw [mul_comm]; exact invGauss_kernel_identity levels hs hw h1 h2

/-- "observation weights multiply the deviance" (`multiply_weights`), scaled or not -/
theorem weights_mul_dev (fam : Family) (levels scale : ℝ) (scaled : Bool) (w y mu : ℝ) :
    deviance fam levels scale scaled w y mu = w * deviance fam levels scale scaled 1 y mu := by
  unfold deviance; ring

/-- `weights=None` is `weights = 1`: the undecorated bodies -/
theorem deviance_unit_weight (fam : Family) (levels scale y mu : ℝ) :
    deviance fam levels scale false 1 y mu = unitDeviance fam levels y mu
    ∧ deviance fam levels scale true 1 y mu = unitDeviance fam levels y mu / scale := by
  simp [deviance]

/-- `scaled=True` divides by the scale -/
theorem deviance_scaled (fam : Family) (levels scale w y mu : ℝ) :
    deviance fam levels scale true w y mu = deviance fam levels scale false w y mu / scale := by
  simp only [deviance, if_true, Bool.false_eq_true, if_false]; ring

/-- "and divide the variance function" (`divide_weights`) -/
theorem weights_div_V (fam : Family) (levels w mu : ℝ) :
    varFnW fam levels w mu = varFn fam levels mu / w ∧ varFnW fam levels 1 mu = varFn fam levels mu := by
  simp [varFnW]

/-- the variance functions -/
theorem varFn_table (levels mu : ℝ) :
    varFn .normal levels mu = 1 ∧ varFn .binomial levels mu = mu * (1 - mu / levels)
    ∧ varFn .poisson levels mu = mu ∧ varFn .gamma levels mu = mu ^ 2 ∧ varFn .invGauss levels mu = mu ^ 3 := by
  refine ⟨rfl, rfl, rfl, ?_, ?_⟩ <;> simp only [varFn] <;> ring

/-- all of it together: the scaled, weighted deviance has slope `-2 (y - mu) / (scale · V(mu)/w)` in `mu`,
i.e. weights and scale enter the deviance and the variance `scale · V(mu) / w` consistently -/
theorem deviance_hasDerivAt (fam : Family) (levels scale w y mu : ℝ) (hs : 0 < scale) (hw : 0 < w)
    (h : validDom fam levels y mu) (hV : varFn fam levels mu ≠ 0) :
    HasDerivAt (fun m => deviance fam levels scale true w y m)
      (-2 * (y - mu) / (scale * varFnW fam levels w mu)) mu := by
  have hd := ((dev_hasDerivAt fam levels y mu h).div_const scale).mul_const w
  simp only [deviance, if_true, varFnW]
  exact hd.congr_deriv (by field_simp)

/-- "Random draws have mean mu and variance scale x V(mu)": the arguments `sample` hands to the NumPy
sampler, read through the documented moments of that sampler (`moments`), give exactly `(mu, scale · V(mu))`
— for every scale `> 0` (binomial needs `levels ≠ 0`) -/
theorem sampler_moments (fam : Family) (levels scale mu : ℝ) (hs : 0 < scale) (hl : levels ≠ 0) :
    (samplerParams fam (some (famScale fam scale)) levels mu).map moments
      = some (mu, famScale fam scale * varFn fam levels mu) := by
  cases fam
  · have hz : ¬ isZero scale := fun hz => hs.ne' ((isZero_iff scale).1 hz)
    show (samplerParams Family.normal (some scale) levels mu).map moments
      = some (mu, scale * varFn .normal levels mu)
    simp only [samplerParams, Option.map_some, moments, varFn, hsqrt_real, mul_one]
    rw [if_neg hz, Real.mul_self_sqrt hs.le]
  · simp only [samplerParams, famScale, Option.map_some, moments, varFn, one_mul]
    congr 2 <;> field_simp
  · simp only [samplerParams, famScale, Option.map_some, moments, varFn, one_mul]
  · simp only [samplerParams, famScale, Option.map_some, moments, varFn]
    congr 2 <;> field_simp
  · simp only [samplerParams, famScale, Option.map_some, moments, varFn]
    congr 2; field_simp

/-- without a scale: `NormalDist.sample` falls back to unit variance; gamma and inverse gaussian raise -/
theorem sampler_unknown_scale (levels mu : ℝ) :
    (samplerParams .normal none levels mu).map moments = some (mu, 1)
    ∧ samplerParams .gamma none levels mu = none ∧ samplerParams .invGauss none levels mu = none := by
  simp [samplerParams, moments]

/-- "or the user-supplied scale when one is given" -/
theorem phi_known (s : ℝ) (fam : Family) (levels : ℝ) (n : Nat) (edof : ℝ) (w y mu : Nat → ℝ) :
    phi (some s) fam levels n edof w y mu = s := rfl

theorem natTo_eq (n : Nat) : (natTo n : ℝ) = n := by
  induction n with
  | zero => simp [natTo]
  | succ n ih => simp [natTo, ih]

/-- "the scale estimate is the weighted Pearson statistic divided by (n - edof)": with the weighted
variance function `V(mu)/w` the estimate is `Σ (y_i - mu_i)² / (V(mu_i)/w_i)  /  (n - edof)` -/
theorem phi_estimated (fam : Family) (levels : ℝ) (n : Nat) (edof : ℝ) (w y mu : Nat → ℝ) :
    phi none fam levels n edof w y mu
      = (∑ i ∈ range n, (y i - mu i) ^ 2 / varFnW fam levels (w i) (mu i)) / ((n : ℝ) - edof) := by
  simp only [phi, pearson, sumTo_eq, natTo_eq, varFnW]
  congr 1
  apply sum_congr rfl; intro i _
  rw [div_div_eq_mul_div]; ring

/-! ### the scale estimate across histories: `phi` reads the pair (`_known_scale`, `scale`), `Model/DistState.lean`

`GAM._estimate_model_statistics` stores every estimate in `distribution.scale` and a generic `GAM` keeps its distribution
object from fit to fit, so "the scale estimate is the weighted Pearson statistic divided by (n - edof), or the
user-supplied scale when one is given" has to hold for an object whose `scale` attribute already holds an earlier
estimate: a stored value is not a user-supplied one. -/

/-- a freshly constructed object: `phiAt` is the `phi` of the statements above -/
theorem phiAt_init (known : Option ℝ) (fam : Family) (levels : ℝ) (x : PhiData ℝ) :
    phiAt (DistState.init known) fam levels x = some (phi known fam levels x.n x.edof x.w x.y x.mu) := by
  cases known <;> simp [phiAt, DistState.init, phi]

/-- "the scale estimate is the weighted Pearson statistic divided by (n - edof)" whatever the `scale` attribute
holds, as long as no scale was supplied (`_known_scale = False`): a value stored by an earlier estimate is ignored -/
theorem phiAt_stored_ignored (stored : Option ℝ) (fam : Family) (levels : ℝ) (x : PhiData ℝ) :
    phiAt ⟨false, stored⟩ fam levels x
      = some ((∑ i ∈ range x.n, (x.y i - x.mu i) ^ 2 / varFnW fam levels (x.w i) (x.mu i)) / ((x.n : ℝ) - x.edof)) := by
  simp only [phiAt, Bool.false_eq_true, if_false, ← phi_estimated]
  rfl

/-- "or the user-supplied scale when one is given": `_known_scale = True` returns the attribute -/
theorem phiAt_known (s : Option ℝ) (fam : Family) (levels : ℝ) (x : PhiData ℝ) :
    phiAt ⟨true, s⟩ fam levels x = s := by
  simp [phiAt]

/-- a sequence of fits never changes `_known_scale` … -/
theorem history_known_flag (d : DistState ℝ) (fam : Family) (levels : ℝ) (hist : List (PhiData ℝ)) :
    (estimateHistory d fam levels hist).known = d.known := by
  induction hist generalizing d with
  | nil => rfl
  | cons x xs ih =>
    simp only [estimateHistory]
    rw [ih]
    unfold estimateStep
    split <;> rfl

/-- … and leaves an object with a supplied scale untouched -/
theorem history_known_fixed (d : DistState ℝ) (hd : d.known = true) (fam : Family) (levels : ℝ)
    (hist : List (PhiData ℝ)) : estimateHistory d fam levels hist = d := by
  induction hist with
  | nil => rfl
  | cons x xs ih => simp only [estimateHistory, estimateStep, hd, if_true]; exact ih

/-- the scale estimate after ANY history of earlier fits of the same object (no scale supplied: normal, gamma,
inverse gaussian built with `scale=None`) is the Pearson estimate of the CURRENT data -/
theorem phi_after_history_estimated (fam : Family) (hfam : fam = .normal ∨ fam = .gamma ∨ fam = .invGauss)
    (levels : ℝ) (hist : List (PhiData ℝ)) (x : PhiData ℝ) :
    phiAt (estimateHistory (mkDist fam none) fam levels hist) fam levels x
      = some ((∑ i ∈ range x.n, (x.y i - x.mu i) ^ 2 / varFnW fam levels (x.w i) (x.mu i)) / ((x.n : ℝ) - x.edof)) := by
  have hk : (estimateHistory (mkDist fam none) fam levels hist).known = false := by
    rw [history_known_flag]; rcases hfam with rfl | rfl | rfl <;> rfl
  have := phiAt_stored_ignored (estimateHistory (mkDist fam none) fam levels hist).scale fam levels x
  rw [← this]
  congr 1
  cases h : estimateHistory (mkDist fam none) fam levels hist with
  | mk k s => rw [h] at hk; simp only at hk; subst hk; rfl

/-- `statistics_['scale']` (the stored attribute) after the last of a sequence of fits is the estimate of that last fit -/
theorem stat_scale_after_history (fam : Family) (hfam : fam = .normal ∨ fam = .gamma ∨ fam = .invGauss)
    (levels : ℝ) (hist : List (PhiData ℝ)) (x : PhiData ℝ) :
    (estimateHistory (mkDist fam none) fam levels (hist ++ [x])).scale
      = some (phi none fam levels x.n x.edof x.w x.y x.mu) := by
  have happ : ∀ (d : DistState ℝ) (l : List (PhiData ℝ)),
      estimateHistory d fam levels (l ++ [x]) = estimateStep (estimateHistory d fam levels l) fam levels x := by
    intro d l
    induction l generalizing d with
    | nil => rfl
    | cons a l ih => simp only [List.cons_append, estimateHistory]; exact ih _
  have hk : (estimateHistory (mkDist fam none) fam levels hist).known = false := by
    rw [history_known_flag]; rcases hfam with rfl | rfl | rfl <;> rfl
  rw [happ, estimateStep, if_neg (by simp [hk])]
  show phiAt _ fam levels x = _
  rw [phi_after_history_estimated fam hfam, phi_estimated]

/-- with a supplied scale (or binomial / poisson, whose scale is 1) every fit of every history reports that scale -/
theorem phi_after_history_supplied (fam : Family) (s : ℝ) (levels : ℝ) (hist : List (PhiData ℝ)) (x : PhiData ℝ) :
    phiAt (estimateHistory (mkDist fam (some s)) fam levels hist) fam levels x = some (famScale fam s)
    ∧ (estimateHistory (mkDist fam (some s)) fam levels hist).scale = some (famScale fam s) := by
  have hk : (mkDist fam (some s) : DistState ℝ).known = true := by cases fam <;> rfl
  rw [history_known_fixed _ hk]
  cases fam <;> simp [phiAt, mkDist, DistState.init, famScale]

/-- non-vacuity / the regression this guards against: after a first estimate stored `1/4`, data with Pearson
estimate `8` are reported as `8`, not as the stale `1/4` -/
example : phiAt (⟨false, some (1/4)⟩ : DistState ℝ) .normal 1 ⟨2, 1, fun _ => 1, fun _ => 2, fun _ => 0⟩ = some 8 := by
  rw [phiAt_stored_ignored]; norm_num [Finset.sum_range_succ, varFnW, varFn]

/-! ### the scale of a fitted model across fits AND parameter changes (`Model/GamScale.lean`)

"…, or the user-supplied scale when one is given": for a model the scale is *given* through the model-level `scale`
parameter (`LinearGAM`, `GammaGAM`, `InvGaussGAM`, `ExpectileGAM`: `_validate_params` re-applies it at every fit by
building a new distribution object) or through the distribution object handed to a generic `GAM`.  Whatever the earlier
fits stored and whatever the parameter was before, the fit that follows a `set_params` reports the value that is
supplied *now*, else the Pearson estimate of *its* data. -/

theorem scaleHistory_append (g : GamScale ℝ) (fam : Family) (levels : ℝ) (h₁ h₂ : List (ScaleEvent ℝ)) :
    scaleHistory g fam levels (h₁ ++ h₂) = scaleHistory (scaleHistory g fam levels h₁) fam levels h₂ := by
  induction h₁ generalizing g with
  | nil => rfl
  | cons e es ih => simp only [List.cons_append, scaleHistory]; exact ih _

/-- no event changes the class of the model -/
theorem scaleHistory_cls (g : GamScale ℝ) (fam : Family) (levels : ℝ) (h : List (ScaleEvent ℝ)) :
    (scaleHistory g fam levels h).cls = g.cls := by
  induction h generalizing g with
  | nil => rfl
  | cons e es ih => simp only [scaleHistory]; rw [ih]; cases e <;> rfl

/-- a class that recreates its distribution, scale parameter currently `some s`: the fit reports `s`
(`statistics_['scale']` = `distribution.scale`), whatever state `g` the earlier history left -/
theorem fit_scale_supplied (g : GamScale ℝ) (hg : g.cls.recreatesDist = true) (fam : Family) (levels s : ℝ)
    (x : PhiData ℝ) (hs : g.scaleParam = some s) :
    (scaleStep g fam levels (.fit x)).dist.scale = some (famScale fam s) := by
  simp only [scaleStep, validateDist, hg, if_true, hs]
  cases fam <;> simp [estimateStep, mkDist, DistState.init, famScale]

/-- … scale parameter currently `None`: the fit reports the Pearson estimate of its own data -/
theorem fit_scale_estimated (g : GamScale ℝ) (hg : g.cls.recreatesDist = true) (fam : Family)
    (hfam : fam = .normal ∨ fam = .gamma ∨ fam = .invGauss) (levels : ℝ) (x : PhiData ℝ) (hs : g.scaleParam = none) :
    (scaleStep g fam levels (.fit x)).dist.scale = some (phi none fam levels x.n x.edof x.w x.y x.mu) := by
  simp only [scaleStep, validateDist, hg, if_true, hs]
  rcases hfam with rfl | rfl | rfl <;> simp [estimateStep, mkDist, DistState.init, phiAt, phi]

/-- histories: after ANY sequence of fits and parameter changes, `set_params(scale=s)` followed by a fit gives the
supplied value (None → value, value → other value), resp. the Pearson estimate of that fit (value → None) -/
theorem scale_after_set_and_fit (g : GamScale ℝ) (hg : g.cls.recreatesDist = true) (fam : Family)
    (hfam : fam = .normal ∨ fam = .gamma ∨ fam = .invGauss) (levels : ℝ) (hist : List (ScaleEvent ℝ))
    (s : Option ℝ) (x : PhiData ℝ) :
    (scaleHistory g fam levels (hist ++ [.setScale s, .fit x])).dist.scale
      = some (match s with
              | some v => v
              | none => (∑ i ∈ range x.n, (x.y i - x.mu i) ^ 2 / varFnW fam levels (x.w i) (x.mu i)) / ((x.n : ℝ) - x.edof)) := by
  rw [scaleHistory_append]
  generalize hg' : scaleHistory g fam levels hist = g'
  have hc : g'.cls.recreatesDist = true := by rw [← hg', scaleHistory_cls]; exact hg
  simp only [scaleHistory]
  have hc' : (scaleStep g' fam levels (.setScale s)).cls.recreatesDist = true := hc
  cases s with
  | some v =>
    rw [fit_scale_supplied _ hc' fam levels v x rfl]
    rcases hfam with rfl | rfl | rfl <;> rfl
  | none =>
    rw [fit_scale_estimated _ hc' fam hfam levels x rfl, phi_estimated]

/-- a class that keeps its distribution object (`GAM`, `LogisticGAM`, `PoissonGAM`): a fit is one more estimate of that
object (`estimateStep`, the histories above), and the model-level `scale` attribute plays no role -/
theorem fit_keeps_dist (g : GamScale ℝ) (hg : g.cls.recreatesDist = false) (fam : Family) (levels : ℝ)
    (s : Option ℝ) (x : PhiData ℝ) :
    (scaleStep (scaleStep g fam levels (.setScale s)) fam levels (.fit x)).dist = estimateStep g.dist fam levels x := by
  simp [scaleStep, validateDist, hg]

/-- … and there the scale is given (or withdrawn) by handing the model a new distribution object: after any history,
`set_params(distribution=<Family>Dist(scale=s))` followed by a fit gives `s`, resp. the Pearson estimate of that fit -/
theorem scale_after_dist_and_fit (g : GamScale ℝ) (hg : g.cls.recreatesDist = false) (fam : Family)
    (hfam : fam = .normal ∨ fam = .gamma ∨ fam = .invGauss) (levels : ℝ) (hist : List (ScaleEvent ℝ))
    (s : Option ℝ) (x : PhiData ℝ) :
    (scaleHistory g fam levels (hist ++ [.setDist s, .fit x])).dist.scale
      = some (match s with
              | some v => v
              | none => (∑ i ∈ range x.n, (x.y i - x.mu i) ^ 2 / varFnW fam levels (x.w i) (x.mu i)) / ((x.n : ℝ) - x.edof)) := by
  rw [scaleHistory_append]
  generalize hg' : scaleHistory g fam levels hist = g'
  have hc : g'.cls.recreatesDist = false := by rw [← hg', scaleHistory_cls]; exact hg
  simp only [scaleHistory, scaleStep, validateDist, hc, Bool.false_eq_true, if_false]
  cases s with
  | some v => rcases hfam with rfl | rfl | rfl <;> simp [estimateStep, mkDist, DistState.init]
  | none =>
    rw [← phi_estimated]
    rcases hfam with rfl | rfl | rfl <;> simp [estimateStep, mkDist, DistState.init, phiAt, phi]

/-- which classes re-apply their `scale` parameter at every fit is read off the source on every run
(`Gen/Decisions.lean`, regenerated from the syntax tree of `pygam/pygam.py`) -/
theorem gen_decision_recreates_dist :
    Gen.classRecreatesDist =
      [("GAM", some Heap.Cls.generic.recreatesDist), ("LinearGAM", some Heap.Cls.linear.recreatesDist),
       ("LogisticGAM", some Heap.Cls.logistic.recreatesDist), ("PoissonGAM", some Heap.Cls.poisson.recreatesDist),
       ("GammaGAM", some Heap.Cls.gamma.recreatesDist), ("InvGaussGAM", some Heap.Cls.invGauss.recreatesDist),
       ("ExpectileGAM", some Heap.Cls.expectile.recreatesDist)] := by decide

/-- non-vacuity: a GammaGAM fitted without a scale, then `set_params(scale=1/2)`, then fitted again reports `1/2` -/
example (x₁ x₂ : PhiData ℝ) :
    (scaleHistory (GamScale.new .gamma .gamma none) .gamma 1 [.fit x₁, .setScale (some (1/2)), .fit x₂]).dist.scale
      = some (1/2) :=
  scale_after_set_and_fit (GamScale.new .gamma .gamma none) rfl .gamma (Or.inr (Or.inl rfl)) 1 [.fit x₁] (some (1/2)) x₂

/-! ### non-vacuity: the hypotheses are met by concrete non-trivial instances (incl. the boundary counts) -/
example : validDom .binomial 5 5 (3/2) := by norm_num [validDom]
example : validDom .binomial 1 0 (1/4) := by norm_num [validDom]
example : validDom .poisson 1 0 (3/2) := by norm_num [validDom]
example : validDom .gamma 1 (1/2) 3 := by norm_num [validDom]
example : validDom .invGauss 1 (1/2) 3 := by norm_num [validDom]
example : validDom .normal 1 (-1) 3 := trivial
example : varFn .binomial (5:ℝ) (3/2) ≠ 0 := by norm_num [varFn]
example : (0:ℝ) < 1/4 ∧ (5:ℝ) ≠ 0 := by norm_num

/-! ### tie to the source by translation -/

/-- the distribution registry of the source is the one modelled by `Family` -/
theorem gen_distribution_names :
    Gen.distributionNames = some ["binomial", "gamma", "inv_gauss", "normal", "poisson"] := by decide

/-! ### tie to the source by translation of the formulas (`gen_formula_*`)

`Gen/Formulas.lean` is regenerated on every run from the abstract syntax tree of `pygam/distributions.py`: the
undecorated bodies of `V` and `deviance` of the five distribution classes registered in `DISTRIBUTIONS`, the wrappers
`multiply_weights` / `divide_weights`, the decorator list of every method, and `Distribution.phi` (`np.sum` ↦ `sumTo n`,
`len(mu)` ↦ `natTo n`, `self.V` a function parameter).  `ylogydu` (masked assignment, not straight-line) is the
hand-written `PyGam.ylogydu`.  Each theorem states that the generated definition IS the model definition, for every
type carrying the notation classes; all hold by `rfl` / `decide`. -/
section gen_formulas
set_option linter.unusedSectionVars false
variable {α : Type} [Zero α] [One α] [Add α] [Sub α] [Mul α] [Div α] [Neg α] [LE α] [LT α] [DecidableLE α] [DecidableLT α]
  [HasLogSqrt α]

/-- `NormalDist.V` (body) is `varFn .normal` -/
theorem gen_formula_V_normal : (Gen.V_normal : α → α → α) = varFn .normal := rfl
/-- `BinomialDist.V` (body) is `varFn .binomial` -/
theorem gen_formula_V_binomial : (Gen.V_binomial : α → α → α) = varFn .binomial := rfl
/-- `PoissonDist.V` (body) is `varFn .poisson` -/
theorem gen_formula_V_poisson : (Gen.V_poisson : α → α → α) = varFn .poisson := rfl
/-- `GammaDist.V` (body) is `varFn .gamma` -/
theorem gen_formula_V_gamma : (Gen.V_gamma : α → α → α) = varFn .gamma := rfl
/-- `InvGaussDist.V` (body) is `varFn .invGauss` -/
theorem gen_formula_V_invGauss : (Gen.V_invGauss : α → α → α) = varFn .invGauss := rfl

/-- `NormalDist.deviance` (body): `unitDeviance .normal`, divided by the scale when `scaled` -/
theorem gen_formula_deviance_normal (levels scale y mu : α) (scaled : Bool) :
    Gen.deviance_normal levels scale y mu scaled
      = if scaled then unitDeviance .normal levels y mu / scale else unitDeviance .normal levels y mu := rfl
/-- `BinomialDist.deviance` (body): `unitDeviance .binomial`, divided by the scale when `scaled` -/
theorem gen_formula_deviance_binomial (levels scale y mu : α) (scaled : Bool) :
    Gen.deviance_binomial levels scale y mu scaled
      = if scaled then unitDeviance .binomial levels y mu / scale else unitDeviance .binomial levels y mu := rfl
/-- `PoissonDist.deviance` (body): `unitDeviance .poisson`, divided by the scale when `scaled` -/
theorem gen_formula_deviance_poisson (levels scale y mu : α) (scaled : Bool) :
    Gen.deviance_poisson levels scale y mu scaled
      = if scaled then unitDeviance .poisson levels y mu / scale else unitDeviance .poisson levels y mu := rfl
/-- `GammaDist.deviance` (body): `unitDeviance .gamma`, divided by the scale when `scaled` -/
theorem gen_formula_deviance_gamma (levels scale y mu : α) (scaled : Bool) :
    Gen.deviance_gamma levels scale y mu scaled
      = if scaled then unitDeviance .gamma levels y mu / scale else unitDeviance .gamma levels y mu := rfl
/-- `InvGaussDist.deviance` (body): `unitDeviance .invGauss`, divided by the scale when `scaled` -/
theorem gen_formula_deviance_invGauss (levels scale y mu : α) (scaled : Bool) :
    Gen.deviance_invGauss levels scale y mu scaled
      = if scaled then unitDeviance .invGauss levels y mu / scale else unitDeviance .invGauss levels y mu := rfl

/-- the model's `deviance` is the body wrapped by the source's `multiply_weights` (`… * weights`) -/
theorem gen_formula_multiply_weights (fam : Family) (levels scale w y mu : α) (scaled : Bool) :
    deviance fam levels scale scaled w y mu
      = Gen.multiply_weights (if scaled then unitDeviance fam levels y mu / scale else unitDeviance fam levels y mu) w := rfl

/-- the model's `varFnW` is the body wrapped by the source's `divide_weights` (`… / weights`) -/
theorem gen_formula_divide_weights (fam : Family) (levels w mu : α) :
    varFnW fam levels w mu = Gen.divide_weights (varFn fam levels mu) w := rfl

/-- every `V` is decorated with `divide_weights` and every `deviance` with `multiply_weights`, and with nothing else -/
theorem gen_formula_decorators :
    Gen.methodDecorators =
      [("V_normal", ["divide_weights"]), ("V_binomial", ["divide_weights"]), ("V_poisson", ["divide_weights"]),
       ("V_gamma", ["divide_weights"]), ("V_invGauss", ["divide_weights"]),
       ("deviance_normal", ["multiply_weights"]), ("deviance_binomial", ["multiply_weights"]),
       ("deviance_poisson", ["multiply_weights"]), ("deviance_gamma", ["multiply_weights"]),
       ("deviance_invGauss", ["multiply_weights"])] := by decide

/-- `Distribution.phi` with `self.V` the family's variance function is the model's `phi`: the stored scale when it is
known, the weighted Pearson statistic over `len(mu) - edof` otherwise -/
theorem gen_formula_phi (fam : Family) (levels s edof : α) (n : Nat) (w y mu : Nat → α) :
    Gen.phi (varFn fam levels) true s n y mu edof w = phi (some s) fam levels n edof w y mu
    ∧ Gen.phi (varFn fam levels) false s n y mu edof w = phi none fam levels n edof w y mu := ⟨rfl, rfl⟩

end gen_formulas

end PyGam.C06
