import PyGam.Proofs.Search
import PyGam.Gen.Decisions
/-!
# C10 — gridsearch evaluates exactly the requested candidates and keeps the minimiser

Property theorems only, about the model `PyGam.Model.Search` (which mirrors `utils.combine` and
`GAM.gridsearch`; tied to `/repo` by the correspondence streams of `harness/props/c10.py`).

* sentence 1 ("fits exactly the Cartesian product of the per-parameter grids; rows of a 2-D array are
  taken as they are, a 1-D grid is applied to all terms alike"): `combine_*`, `grid_rule_*`,
  `plan_candidates`, `mem_plan_candidates`, `fitted_count`;
* sentence 2b ("the default objective is GCV for unknown and UBRE for known scale; the mismatching
  choice is rejected"): `objective_auto`, `objective_table`, `objective_mismatch_rejected`,
  `gridsearch_rejects_objective`;
* sentence 3 ("with keep_best the model ends with … a candidate – or itself if it was already fitted –
  attaining the minimum score; with keep_best=False … unchanged"): `best_is_first_argmin`,
  `best_exists_of_finite`, `keep_best_true_self_is_best`, `keep_best_false_preserves_self`.

Sentence 2a ("each candidate's score equals the objective of an independently fitted model with those
hyper-parameters") is a statement about `fit` (uniqueness of the penalised optimum, C01) and is *not*
provable inside the search model, where the outcome of a fit is a parameter; it is checked on the
real code against independent cold fits (stream `search.real`, oracle), see `score_independent_partial`.
-/
namespace PyGam.C10
open PyGam.Search
variable {α β M : Type}

/-! ## `combine` is the Cartesian product, last grid fastest -/

/-- the number of candidates is the product of the grid lengths -/
theorem combine_length (gs : List (List β)) (h : gs ≠ []) :
    (combine gs).length = (gs.map List.length).prod := by
  unfold combine
  rw [combineRev_length _ (by simpa using h), List.map_reverse, List.prod_reverse]

/-- a row is a candidate iff it picks one element from every grid, in grid order -/
theorem mem_combine (gs : List (List β)) (h : gs ≠ []) (c : List β) :
    c ∈ combine gs ↔ List.Forall₂ (fun x g => x ∈ g) c gs := by
  unfold combine
  have := mem_combineRev gs.reverse (by simpa using h) c.reverse
  rw [List.reverse_reverse] at this
  rw [this, List.forall₂_reverse_iff]

/-- every candidate has one entry per grid -/
theorem combine_row_length (gs : List (List β)) (h : gs ≠ []) (c : List β) (hc : c ∈ combine gs) :
    c.length = gs.length :=
  ((mem_combine gs h c).mp hc).length_eq

/-- a single grid: its elements as singletons (`[[a] for a in args[0]]`) -/
theorem combine_single (g : List β) : combine [g] = g.map (fun a => [a]) :=
  PyGam.Search.combine_single g

/-- the recursion of `utils.combine`: every node of the last grid is appended to every leaf of the
product of the others, leaves outermost -/
theorem combine_last_fastest (gs : List (List β)) (h : gs ≠ []) (g : List β) :
    combine (gs ++ [g]) = (combine gs).flatMap (fun leaf => g.map (fun node => leaf ++ [node])) :=
  combine_snoc gs h g

/-- order, explicitly: candidate number `i·|g| + j` of `combine(*gs, g)` is candidate `i` of `combine(*gs)`
followed by `g[j]` -/
theorem combine_order (gs : List (List β)) (h : gs ≠ []) (g : List β) (i j : Nat)
    (hi : i < (combine gs).length) (hj : j < g.length) :
    (combine (gs ++ [g]))[i * g.length + j]? = some ((combine gs)[i] ++ [g[j]]) := by
  rw [combine_snoc gs h g, flatMap_getElem?_const _ _ g.length (by simp) i j hi hj]
  simp [hj]

/-- no candidate is produced twice when no grid lists a value twice -/
theorem combine_nodup (gs : List (List β)) (h : ∀ g ∈ gs, g.Nodup) : (combine gs).Nodup :=
  combineRev_nodup gs.reverse (fun g hg => h g (by simpa using hg))

example : combine [[1, 2], [3, 4], [5, 6]] =
    [[1, 3, 5], [1, 3, 6], [1, 4, 5], [1, 4, 6], [2, 3, 5], [2, 3, 6], [2, 4, 5], [2, 4, 6]] := by decide

/-! ## the three grid shapes -/

/-- 1-D grid (no entry is iterable, more than one value): kept as it is -/
theorem grid_rule_1d (t : Nat) (nd2 : Bool) (entries : List (GVal α)) (h1 : 1 < entries.length)
    (hs : ∀ e ∈ entries, e.isIterable = false) :
    normaliseGrid t (.seq nd2 entries) = .ok entries := by
  have hany : entries.any GVal.isIterable = false := by
    rw [List.any_eq_false]; intro e he; simp [hs e he]
  simp [normaliseGrid, Nat.not_le.mpr h1, hany]

/-- … and each of its values is applied to all `t` slots of the parameter alike -/
theorem scalar_applies_to_all (t : Nat) (a : α) (j : Nat) (hj : j < t) :
    (GVal.expand t (.scalar a))[j]? = some a := by
  simp [GVal.expand, hj]

/-- 2-D `ndarray` with `t` columns and more than one row: the rows are the candidates, as they are -/
theorem grid_rule_2d (t : Nat) (rows : List (List α)) (h1 : 1 < rows.length)
    (hc : ∀ r ∈ rows, r.length = t) :
    normaliseGrid t (.seq true (rows.map .vec)) = .ok (rows.map .vec) := by
  have hne : rows ≠ [] := by intro h; simp [h] at h1
  have hany : (rows.map GVal.vec).any GVal.isIterable = true := by
    cases rows with
    | nil => exact absurd rfl hne
    | cons r rs => simp [GVal.isIterable]
  have hmap : (rows.map GVal.vec).map GVal.atleast1d = rows := by
    simp [List.map_map, Function.comp_def, GVal.atleast1d]
  have hall : rows.all (fun sub => sub.length == t) = true := by
    rw [List.all_eq_true]; intro r hr; simp [hc r hr]
  simp only [normaliseGrid, List.length_map, Nat.not_le.mpr h1, if_false, hany, if_true, hmap,
    Bool.not_true, Bool.false_and, Bool.false_eq_true, hall]

/-- a 2-D `ndarray` with a wrong number of columns is rejected -/
theorem grid_rule_2d_reject (t : Nat) (rows : List (List α)) (h1 : 1 < rows.length)
    (hc : ∃ r ∈ rows, r.length ≠ t) :
    normaliseGrid t (.seq true (rows.map .vec)) = .error .gridColumns := by
  have hne : rows ≠ [] := by intro h; simp [h] at h1
  have hany : (rows.map GVal.vec).any GVal.isIterable = true := by
    cases rows with
    | nil => exact absurd rfl hne
    | cons r rs => simp [GVal.isIterable]
  have hmap : (rows.map GVal.vec).map GVal.atleast1d = rows := by
    simp [List.map_map, Function.comp_def, GVal.atleast1d]
  have hall : rows.all (fun sub => sub.length == t) = false := by
    rw [List.all_eq_false]; obtain ⟨r, hr, hne⟩ := hc; exact ⟨r, hr, by simp [hne]⟩
  simp only [normaliseGrid, List.length_map, Nat.not_le.mpr h1, if_false, hany, if_true, hmap,
    Bool.not_true, Bool.false_and, Bool.false_eq_true, hall]

/-- list of iterables (anything but a 2-D `ndarray`) with exactly `t` sub-grids: replaced by their
Cartesian product (scalars count as one-element sub-grids) -/
theorem grid_rule_cartesian (t : Nat) (entries : List (GVal α)) (h1 : 1 < entries.length)
    (hit : ∃ e ∈ entries, e.isIterable = true) (hlen : entries.length = t) :
    normaliseGrid t (.seq false entries) = .ok ((combine (entries.map GVal.atleast1d)).map .vec) := by
  have hany : entries.any GVal.isIterable = true := by
    rw [List.any_eq_true]; exact hit
  have hne : entries.map GVal.atleast1d ≠ [] := by
    intro h; simp at h; simp [h] at h1
  have hall : (combine (entries.map GVal.atleast1d)).all (fun sub => sub.length == t) = true := by
    rw [List.all_eq_true]; intro c hc
    have := combine_row_length _ hne c hc
    simp [this, hlen]
  have h1t : 1 < t := hlen ▸ h1
  simp [normaliseGrid, Nat.not_le.mpr h1t, hany, hlen, hall]

/-- membership in the Cartesian grid: one value from every sub-grid -/
theorem mem_cartesian_grid (t : Nat) (entries : List (GVal α)) (h1 : 1 < entries.length)
    (hit : ∃ e ∈ entries, e.isIterable = true) (hlen : entries.length = t) (g : List (GVal α))
    (hg : normaliseGrid t (.seq false entries) = .ok g) (v : GVal α) :
    v ∈ g ↔ ∃ c, v = .vec c ∧ List.Forall₂ (fun x sub => x ∈ sub) c (entries.map GVal.atleast1d) := by
  rw [grid_rule_cartesian t entries h1 hit hlen] at hg
  have hne : entries.map GVal.atleast1d ≠ [] := by
    intro h; simp at h; simp [h] at h1
  cases hg
  simp only [List.mem_map]
  constructor
  · rintro ⟨c, hc, rfl⟩; exact ⟨c, rfl, (mem_combine _ hne c).mp hc⟩
  · rintro ⟨c, rfl, hc⟩; exact ⟨c, (mem_combine _ hne c).mpr hc, rfl⟩

/-- a list of iterables whose length is not the number of values of the parameter is rejected -/
theorem grid_rule_cartesian_reject (t : Nat) (entries : List (GVal α)) (h1 : 1 < entries.length)
    (hit : ∃ e ∈ entries, e.isIterable = true) (hlen : entries.length ≠ t) :
    normaliseGrid t (.seq false entries) = .error .gridColumns := by
  have hany : entries.any GVal.isIterable = true := by
    rw [List.any_eq_true]; exact hit
  simp [normaliseGrid, Nat.not_le.mpr h1, hany, hlen]

/-- non-iterables and grids with fewer than two entries are rejected (also a list holding a single
sub-grid, and a 2-D array with a single row) -/
theorem grid_rule_short (t : Nat) (nd2 : Bool) (entries : List (GVal α)) (h : entries.length ≤ 1) :
    normaliseGrid t (.seq nd2 entries) = .error .gridTooShort ∧
    normaliseGrid t (.notIterable : GridSpec α) = .error .gridTooShort := by
  simp [normaliseGrid, h]

example : normaliseGrid 2 (.seq false [GVal.vec [1, 2], GVal.vec [5, 7, 9]]) =
    .ok ([[1, 5], [1, 7], [1, 9], [2, 5], [2, 7], [2, 9]].map GVal.vec) := by decide
example : normaliseGrid 2 (.seq true [GVal.vec [1, 2], GVal.vec [5, 7], GVal.vec [3, 3]]) =
    .ok [GVal.vec [1, 2], GVal.vec [5, 7], GVal.vec [3, 3]] := by decide
example : normaliseGrid 2 (.seq false [GVal.scalar 1, GVal.scalar 5, GVal.scalar 9]) =
    .ok [GVal.scalar 1, GVal.scalar 5, GVal.scalar 9] := by decide

/-! ## objective -/

/-- `'auto'` is GCV for unknown scale and UBRE for known scale -/
theorem objective_auto (known : Bool) :
    resolveObjective known .auto = .ok (if known then .UBRE else .GCV) := rfl

/-- the complete table: which (scale, objective) pairs are accepted, and as what -/
theorem objective_table (known : Bool) (o o' : Objective) :
    resolveObjective known o = .ok o' ↔
      (o = .auto ∧ o' = (if known then .UBRE else .GCV)) ∨ (o = .GCV ∧ known = false ∧ o' = .GCV) ∨
      (o = .UBRE ∧ known = true ∧ o' = .UBRE) ∨ (o = .AIC ∧ o' = .AIC) ∨ (o = .AICc ∧ o' = .AICc) := by
  cases known <;> cases o <;> cases o' <;> simp [resolveObjective]

/-- the mismatching choice, and anything outside the list, is rejected -/
theorem objective_mismatch_rejected :
    resolveObjective true .GCV = .error .gcvKnownScale ∧
    resolveObjective false .UBRE = .error .ubreUnknownScale ∧
    (∀ known, resolveObjective known .other = .error .badObjective) := by
  refine ⟨rfl, rfl, fun k => by cases k <;> rfl⟩

/-! ## the plan: candidates = Cartesian product of the normalised per-parameter grids -/

theorem normaliseAll_ok_iff (adm : List String) (pgs : List (ParamGrid α)) (gs : List (List (GVal α))) :
    normaliseAll adm pgs = .ok gs ↔
      List.Forall₂ (fun pg g => adm.contains pg.name = true ∧ normaliseGrid pg.targetLen pg.spec = .ok g) pgs gs := by
  induction pgs generalizing gs with
  | nil =>
    simp only [normaliseAll, List.forall₂_nil_left_iff]
    constructor
    · intro h; cases h; rfl
    · intro h; rw [h]
  | cons pg rest ih =>
    unfold normaliseAll
    by_cases hadm : adm.contains pg.name = true
    · rw [if_pos hadm]
      cases hn : normaliseGrid pg.targetLen pg.spec with
      | error e =>
        simp only [List.forall₂_cons_left_iff]
        constructor
        · intro h; cases h
        · rintro ⟨g, gs', ⟨_, hg⟩, _, _⟩; rw [hn] at hg; cases hg
      | ok g =>
        cases hr : normaliseAll adm rest with
        | error e =>
          simp only [List.forall₂_cons_left_iff]
          constructor
          · intro h; cases h
          · rintro ⟨g', gs', _, hrest, _⟩
            rw [← ih gs', hr] at hrest; cases hrest
        | ok gs' =>
          simp only [List.forall₂_cons_left_iff]
          constructor
          · intro h; cases h
            exact ⟨g, gs', ⟨hadm, hn⟩, (ih gs').mp hr, rfl⟩
          · rintro ⟨g', gs'', ⟨_, hg⟩, hrest, rfl⟩
            rw [hn] at hg; cases hg
            rw [← ih gs'', hr] at hrest; cases hrest; rfl
    · rw [if_neg hadm]
      simp only [List.forall₂_cons_left_iff]
      constructor
      · intro h; cases h
      · rintro ⟨g, gs', ⟨h, _⟩, _, _⟩; exact absurd h hadm

/-- a successful plan: the objective is the resolved one, every keyword was admissible and its grid
normalised, and the candidate list is `combine` of the normalised grids (default keyword when none given) -/
theorem plan_candidates (known : Bool) (obj : Objective) (adm : List String) (dflt : ParamGrid α)
    (pgs : List (ParamGrid α)) (p : Plan α) (h : plan known obj adm dflt pgs = .ok p) :
    resolveObjective known obj = .ok p.objective ∧
    ∃ grids, List.Forall₂ (fun pg g => adm.contains pg.name = true ∧ normaliseGrid pg.targetLen pg.spec = .ok g)
        (if pgs.isEmpty then [dflt] else pgs) grids ∧
      p.params = (if pgs.isEmpty then [dflt] else pgs).map (·.name) ∧
      p.candidates = combine grids := by
  unfold plan at h
  cases ho : resolveObjective known obj with
  | error e => rw [ho] at h; cases h
  | ok o =>
    rw [ho] at h
    simp only at h
    cases hn : normaliseAll adm (if pgs.isEmpty then [dflt] else pgs) with
    | error e => rw [hn] at h; cases h
    | ok grids =>
      rw [hn] at h
      cases h
      exact ⟨rfl, grids, (normaliseAll_ok_iff _ _ _).mp hn, rfl, rfl⟩

/-- exactly the requested candidates: a tuple of values is a candidate iff it takes, for every
parameter, one value of that parameter's normalised grid; their number is the product of the grid sizes -/
theorem mem_plan_candidates (known : Bool) (obj : Objective) (adm : List String) (dflt : ParamGrid α)
    (pgs : List (ParamGrid α)) (p : Plan α) (h : plan known obj adm dflt pgs = .ok p) :
    ∃ grids, grids.length = p.params.length ∧
      (∀ c, c ∈ p.candidates ↔ List.Forall₂ (fun v g => v ∈ g) c grids) ∧
      p.candidates.length = (grids.map List.length).prod := by
  obtain ⟨_, grids, hf, hp, hc⟩ := plan_candidates known obj adm dflt pgs p h
  have hlen : grids.length = p.params.length := by rw [hp, List.length_map]; exact hf.length_eq.symm
  have hne : grids ≠ [] := by
    intro hg
    have h0 : p.params.length = 0 := by rw [← hlen, hg]; rfl
    rw [hp, List.length_map] at h0
    cases hpg : pgs with
    | nil => simp [hpg] at h0
    | cons a b => simp [hpg] at h0
  exact ⟨grids, hlen, fun c => by rw [hc]; exact mem_combine grids hne c, by rw [hc]; exact combine_length grids hne⟩

/-! ## the candidate loop keeps the first minimiser -/

section order
variable [LinearOrder α]

/-- after the loop `best_score` is ≤ every recorded score (the candidates' and, for a fitted model,
`self`'s), the best model is the *earliest* recorded model with that score, and `best_model` is `None`
only for an unfitted start none of whose fitted candidates scored below `inf` -/
theorem best_is_first_argmin (inf : α) (selfScore : Option α) (outs : List (Option α)) :
    let st := loop inf selfScore outs
    (∀ x ∈ st.models, st.bestScore ≤ x.2) ∧
    st.bestScore ≤ selfScore.getD inf ∧
    (∀ r, st.best = some r →
      ∃ pre post, st.models = pre ++ (r, st.bestScore) :: post ∧ ∀ x ∈ pre, st.bestScore < x.2) ∧
    (st.best = none → selfScore = none ∧ st.bestScore = inf ∧ ∀ x ∈ st.models, inf ≤ x.2) := by
  intro st
  have hinv : LoopInv inf st := loopInv_loopFrom inf _ 0 outs (loopInv_init inf selfScore)
  have hle : st.bestScore ≤ (initState inf selfScore).bestScore := loopFrom_bestScore_le _ 0 outs
  obtain ⟨h1, h2⟩ := hinv
  refine ⟨h1, ?_, ?_, ?_⟩
  · cases selfScore <;> exact hle
  · intro r hr; rw [hr] at h2; exact h2
  · intro hn
    rw [hn] at h2
    simp only at h2
    refine ⟨?_, h2, fun x hx => h2 ▸ h1 x hx⟩
    cases hs : selfScore with
    | none => rfl
    | some s =>
      exfalso
      have hsome : (initState inf selfScore).best.isSome = true := by rw [hs]; rfl
      have := loopFrom_best_isSome (initState inf selfScore) 0 outs hsome
      change st.best.isSome = true at this
      rw [hn] at this; cases this

/-- the recorded models are `self` (if fitted) followed by the candidates that did not raise, in
candidate order, each with its own score -/
theorem models_eq (inf : α) (selfScore : Option α) (outs : List (Option α)) :
    (loop inf selfScore outs).models =
      (selfScore.map (fun s => (Ref.self, s))).toList ++
        outs.zipIdx.filterMap (fun p => p.1.map (fun s => (Ref.cand p.2, s))) := by
  unfold loop
  rw [loopFrom_models]
  cases selfScore <;> rfl

/-- number of fitted models = (1 if `self` was fitted) + number of candidates − number skipped -/
theorem fitted_count (inf : α) (selfScore : Option α) (outs : List (Option α)) :
    (loop inf selfScore outs).models.length + outs.count none =
      (if selfScore.isSome then 1 else 0) + outs.length := by
  unfold loop
  rw [loopFrom_models_length]
  have : (outs.filter Option.isSome).length + outs.count none = outs.length := by
    induction outs with
    | nil => rfl
    | cons o os ih => cases o <;> simp <;> omega
  cases selfScore <;> simp [initState] <;> omega

/-- when every recorded score is below `inf` (finite scores) and at least one model was recorded,
there is a best model -/
theorem best_exists_of_finite (inf : α) (selfScore : Option α) (outs : List (Option α))
    (hfin : ∀ x ∈ (loop inf selfScore outs).models, x.2 < inf)
    (hne : (loop inf selfScore outs).models ≠ []) :
    ∃ r, (loop inf selfScore outs).best = some r := by
  cases hb : (loop inf selfScore outs).best with
  | some r => exact ⟨r, rfl⟩
  | none =>
    exfalso
    obtain ⟨_, _, hall⟩ := (best_is_first_argmin inf selfScore outs).2.2.2 hb
    cases hm : (loop inf selfScore outs).models with
    | nil => exact hne hm
    | cons x xs =>
      have hx : x ∈ (loop inf selfScore outs).models := by rw [hm]; simp
      exact absurd (hfin x hx) (not_lt.mpr (hall x hx))

example : (loop (α := Int) 1000 (some 5) [some 7, none, some 3, some 3, some 4]).best = some (.cand 2) := by decide
example : (loop (α := Int) 1000 (some 3) [some 7, none, some 3]).best = some .self := by decide
example : (loop (α := Int) 1000 none [none, some 3, some 3]).best = some (.cand 1) := by decide

/-! ## what happens to `self` -/

/-- unfolding of `gridsearch`: plan, loop over the candidates' outcomes, then `finish` -/
theorem gridsearch_unfold (inf : α) (known : Bool) (obj : Objective) (adm : List String)
    (dflt : ParamGrid β) (pgs : List (ParamGrid β)) (kb rs : Bool) (selfM : M)
    (selfScore : Objective → Option α) (fit : Objective → Nat → List (GVal β) → Option (M × α))
    (p : Plan β) (o : Outcome M α)
    (h : gridsearch inf known obj adm dflt pgs kb rs selfM selfScore fit = .ok (p, o)) :
    plan known obj adm dflt pgs = .ok p ∧
    finish kb rs selfM
      (fun i => ((p.candidates.zipIdx.map (fun ci => fit p.objective ci.2 ci.1)).getD i none).map Prod.fst)
      (loop inf (selfScore p.objective)
        ((p.candidates.zipIdx.map (fun ci => fit p.objective ci.2 ci.1)).map (·.map Prod.snd))) = .ok o := by
  unfold gridsearch at h
  cases hp : plan known obj adm dflt pgs with
  | error e => rw [hp] at h; cases h
  | ok p' =>
    rw [hp] at h
    simp only at h
    split at h
    · cases h
    · rename_i o' ho'
      cases h
      exact ⟨rfl, ho'⟩

/-- `keep_best=False`: `self` contains after the call what it contained before (whatever was fitted) -/
theorem keep_best_false_preserves_self (inf : α) (known : Bool) (obj : Objective) (adm : List String)
    (dflt : ParamGrid β) (pgs : List (ParamGrid β)) (rs : Bool) (selfM : M)
    (selfScore : Objective → Option α) (fit : Objective → Nat → List (GVal β) → Option (M × α))
    (p : Plan β) (o : Outcome M α)
    (h : gridsearch inf known obj adm dflt pgs false rs selfM selfScore fit = .ok (p, o)) :
    o.selfAfter = selfM := by
  obtain ⟨_, hf⟩ := gridsearch_unfold inf known obj adm dflt pgs false rs selfM selfScore fit p o h
  unfold finish at hf
  split at hf
  · cases hf; rfl
  · simp only [Bool.false_eq_true, if_false] at hf; cases hf; rfl

/-- `keep_best=True`: either nothing was fitted, or there is no best model (no recorded score below `inf`;
excluded for finite scores by `best_exists_of_finite`) — in both cases `self` is unchanged — or `self` ends
with the content of a recorded model `r` (a candidate that did not raise, or `self` itself if it was fitted)
whose score is ≤ every recorded score, and `r` is the earliest such -/
theorem keep_best_true_self_is_best (inf : α) (known : Bool) (obj : Objective) (adm : List String)
    (dflt : ParamGrid β) (pgs : List (ParamGrid β)) (rs : Bool) (selfM : M)
    (selfScore : Objective → Option α) (fit : Objective → Nat → List (GVal β) → Option (M × α))
    (p : Plan β) (o : Outcome M α)
    (h : gridsearch inf known obj adm dflt pgs true rs selfM selfScore fit = .ok (p, o)) :
    let outs := p.candidates.zipIdx.map (fun ci => fit p.objective ci.2 ci.1)
    let st := loop inf (selfScore p.objective) (outs.map (·.map Prod.snd))
    (st.models = [] ∧ o.selfAfter = selfM) ∨
    (st.best = none ∧ o.selfAfter = selfM) ∨
    (∃ r s, o.best = some r ∧
      o.selfAfter = content selfM (fun i => (outs.getD i none).map Prod.fst) r ∧
      (∀ x ∈ st.models, s ≤ x.2) ∧
      ∃ pre post, st.models = pre ++ (r, s) :: post ∧ ∀ x ∈ pre, s < x.2) := by
  intro outs st
  obtain ⟨_, hf⟩ := gridsearch_unfold inf known obj adm dflt pgs true rs selfM selfScore fit p o h
  change finish true rs selfM (fun i => (outs.getD i none).map Prod.fst) st = .ok o at hf
  unfold finish at hf
  split at hf
  · rename_i hemp
    left
    cases hf
    exact ⟨List.isEmpty_iff.mp hemp, rfl⟩
  · right
    simp only [if_true] at hf
    cases hb : st.best with
    | none => rw [hb] at hf; cases hf; left; exact ⟨rfl, rfl⟩
    | some r =>
      right
      rw [hb] at hf
      cases hf
      obtain ⟨h1, _, h3, _⟩ := best_is_first_argmin inf (selfScore p.objective) (outs.map (·.map Prod.snd))
      exact ⟨r, st.bestScore, rfl, rfl, h1, h3 r hb⟩

omit [LinearOrder α] in
/-- what is returned: `self` when nothing was fitted or `return_scores` is off, else the recorded
(model, score) pairs; and the number of recorded models -/
theorem returned_spec (kb rs : Bool) (selfM : M) (fitM : Nat → Option M) (st : LoopState α) (o : Outcome M α)
    (h : finish kb rs selfM fitM st = .ok o) :
    o.nModels = st.models.length ∧
    (st.models = [] → o.returned = .self ∧ o.selfAfter = selfM) ∧
    (st.models ≠ [] → o.returned = if rs then .scores st.models else .self) := by
  unfold finish at h
  split at h
  · rename_i hemp
    have hnil := List.isEmpty_iff.mp hemp
    cases h
    exact ⟨by simp [hnil], fun _ => ⟨rfl, rfl⟩, fun hne => absurd hnil hne⟩
  · rename_i hemp
    have hne : st.models ≠ [] := fun hnil => hemp (List.isEmpty_iff.mpr hnil)
    cases kb
    · simp only [Bool.false_eq_true, if_false] at h; cases h
      exact ⟨rfl, fun hnil => absurd hnil hne, fun _ => rfl⟩
    · simp only [if_true] at h
      cases hb : st.best with
      | none =>
        rw [hb] at h; cases h
        exact ⟨rfl, fun hnil => absurd hnil hne, fun _ => rfl⟩
      | some r =>
        rw [hb] at h; cases h
        exact ⟨rfl, fun hnil => absurd hnil hne, fun _ => rfl⟩

/-- at the level of the whole call: recorded models + skipped candidates = (1 if fitted) + number of
candidates of the plan (= product of the normalised grid sizes, `mem_plan_candidates`) -/
theorem gridsearch_fitted_count (inf : α) (known : Bool) (obj : Objective) (adm : List String)
    (dflt : ParamGrid β) (pgs : List (ParamGrid β)) (kb rs : Bool) (selfM : M)
    (selfScore : Objective → Option α) (fit : Objective → Nat → List (GVal β) → Option (M × α))
    (p : Plan β) (o : Outcome M α)
    (h : gridsearch inf known obj adm dflt pgs kb rs selfM selfScore fit = .ok (p, o)) :
    o.nModels + ((p.candidates.zipIdx.map (fun ci => fit p.objective ci.2 ci.1)).filter Option.isNone).length =
      (if (selfScore p.objective).isSome then 1 else 0) + p.candidates.length := by
  obtain ⟨_, hf⟩ := gridsearch_unfold inf known obj adm dflt pgs kb rs selfM selfScore fit p o h
  have hn := (returned_spec kb rs selfM _ _ o hf).1
  have hc := fitted_count inf (selfScore p.objective)
    ((p.candidates.zipIdx.map (fun ci => fit p.objective ci.2 ci.1)).map (·.map Prod.snd))
  rw [hn]
  simp only [List.length_map, List.length_zipIdx] at hc
  rw [← hc]
  congr 1
  generalize (p.candidates.zipIdx.map (fun ci => fit p.objective ci.2 ci.1)) = l
  induction l with
  | nil => rfl
  | cons x xs ih => cases x <;> simp [ih]

/-- only a fitted model constrains the number of columns of `X` -/
theorem data_rule (fitted : Bool) (m n : Nat) :
    dataCheck fitted m n = .ok () ↔ (fitted = true → n = m) := by
  cases fitted <;> simp [dataCheck]

/-- a rejected objective (or any other planning error) rejects the whole call before any fit -/
theorem gridsearch_rejects_objective (inf : α) (known : Bool) (obj : Objective) (adm : List String)
    (dflt : ParamGrid β) (pgs : List (ParamGrid β)) (kb rs : Bool) (selfM : M)
    (selfScore : Objective → Option α) (fit : Objective → Nat → List (GVal β) → Option (M × α))
    (e : SearchErr) (h : resolveObjective known obj = .error e) :
    gridsearch inf known obj adm dflt pgs kb rs selfM selfScore fit = .error e := by
  unfold gridsearch plan
  rw [h]

end order

/-
Full statement of sentence 2a, not provable in the search model (fitting is a parameter there):

  theorem score_independent (cfg) (c ∈ candidates) :
      score (fit_in_gridsearch history c) = objective (fit_cold (hyper-parameters c))

It follows from uniqueness of the penalised optimum (C01) up to the convergence tolerance; here it is
checked on the real code against independent cold fits.  What the model does give is that the score
recorded for a candidate is the one its own fit produced (no mixing of scores between candidates):
-/
/-- every recorded (model, score) pair of a candidate is that candidate's own outcome -/
theorem score_independent_partial [LinearOrder α] (inf : α) (selfScore : Option α) (outs : List (Option α))
    (i : Nat) (s : α) (h : (Ref.cand i, s) ∈ (loop inf selfScore outs).models) :
    outs[i]? = some (some s) := by
  rw [models_eq] at h
  rcases List.mem_append.mp h with h | h
  · cases selfScore <;> simp at h
  · simp only [List.mem_filterMap] at h
    obtain ⟨⟨ov, k⟩, hk, hmap⟩ := h
    cases ov with
    | none => simp at hmap
    | some s' =>
      simp at hmap
      obtain ⟨rfl, rfl⟩ := hmap
      exact (List.mem_zipIdx_iff_getElem?.mp hk)

/-! ### tie to the source by translation of the decision logic (`gen_decision_*`)

`Gen/Decisions.lean` is regenerated on every run from the abstract syntax tree of `pygam/pygam.py`:
`Gen.gridsearch_objective` is the first run of `if` statements of `GAM.gridsearch` that mention `objective` ("validate
objective", "check objective"), as a function of `distribution._known_scale` and of the objective name; `raise X(…)` is
`.error "X"`. -/
section gen_decisions
/-- the objective names of the source (`other`: any string outside the admissible list) -/
def objName : Objective → String
  | .auto => "auto" | .GCV => "GCV" | .UBRE => "UBRE" | .AIC => "AIC" | .AICc => "AICc" | .other => "<any other value>"

/-- the objective logic of the source is `resolveObjective`: `'auto'` ↦ `'UBRE'` with a known scale and `'GCV'` without,
`'GCV'` with a known scale and `'UBRE'` without are rejected, `'AIC'` / `'AICc'` pass, every rejection is a `ValueError` -/
theorem gen_decision_objective (known : Bool) (o : Objective) :
    Gen.gridsearch_objective known (objName o)
      = match resolveObjective known o with
        | .ok o' => .ok (objName o')
        | .error e => .error e.pyClass := by
  cases known <;> cases o <;> rfl

/-- every name outside `['auto', 'GCV', 'UBRE', 'AIC', 'AICc']` is rejected with `ValueError` (the model's `.other`) -/
theorem gen_decision_objective_other (known : Bool) (s : String) (hs : s ∉ ["auto", "GCV", "UBRE", "AIC", "AICc"]) :
    Gen.gridsearch_objective known s = .error "ValueError"
      ∧ resolveObjective known .other = .error .badObjective := by
  refine ⟨?_, rfl⟩
  unfold Gen.gridsearch_objective
  rw [if_pos hs]

end gen_decisions

end PyGam.C10
