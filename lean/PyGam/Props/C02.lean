import PyGam.Model.Predict
import PyGam.Proofs.Vec
import PyGam.Proofs.Mesh
import Mathlib.Algebra.Order.Field.Basic
import Mathlib.Tactic.FieldSimp
import Mathlib.Tactic.Ring
import Mathlib.Tactic.Linarith
/-!
# C02 — predictions decompose additively into intercept plus per-term partial effects

Theorems about `linPred`, `partialDep`, `gridRow` of `PyGam/Model/Predict.lean` (executed by the driver against
`predict_mu`, `partial_dependence`, `generate_X_grid` on every run).  For every term list, coefficient vector
and data row.
-/
open Finset
namespace PyGam.C02
open PyGam
variable {α : Type}

section decomposition
variable [CommRing α] [Div α] [LE α] [LT α] [DecidableLE α] [DecidableLT α] [DecidableEq α] [Max α] [HasFract α]

theorem coefStart_cons_succ (t : Term α) (ts : List (Term α)) (i : Nat) :
    coefStart (t :: ts) (i+1) = t.nCoefs + coefStart ts i := by
  simp [coefStart]

theorem partialDep_cons_succ (ε : α) (t : Term α) (ts : List (Term α)) (i : Nat) (coef x : Nat → α) :
    partialDep ε (t :: ts) (i+1) coef x = partialDep ε ts i (fun k => coef (t.nCoefs + k)) x := by
  simp only [partialDep, List.getElem?_cons_succ, coefStart_cons_succ]
  cases ts[i]? with
  | none => rfl
  | some u => simp only [Nat.add_assoc]

/-- the linear predictor is the sum over *all* terms of the term's partial dependence
(`link(predict_mu(X)) = Σ_i partial_dependence(i, X)`, the intercept contributing its coefficient) -/
theorem lp_eq_sum_pdep (ε : α) (ts : List (Term α)) (coef x : Nat → α) :
    linPred ε ts coef x = ∑ i ∈ range ts.length, partialDep ε ts i coef x := by
  induction ts generalizing coef with
  | nil => simp [linPred, nCoefsAll, sumTo]
  | cons t ts ih =>
    simp only [linPred, sumTo_eq] at ih ⊢
    have hn : nCoefsAll (t :: ts) = t.nCoefs + nCoefsAll ts := by simp [nCoefsAll]
    rw [hn, sum_range_add, List.length_cons, sum_range_succ']
    have h1 : ∑ j ∈ range t.nCoefs, columnsAll ε x (t :: ts) j * coef j
        = partialDep ε (t :: ts) 0 coef x := by
      simp only [partialDep, List.getElem?_cons_zero, coefStart, List.take_zero, List.map_nil,
        List.sum_nil, Nat.zero_add, sumTo_eq]
      apply sum_congr rfl; intro j hj
      simp [columnsAll, mem_range.mp hj]
    have h2 : ∑ k ∈ range (nCoefsAll ts), columnsAll ε x (t :: ts) (t.nCoefs + k) * coef (t.nCoefs + k)
        = ∑ i ∈ range ts.length, partialDep ε (t :: ts) (i+1) coef x := by
      have hih := ih (fun k => coef (t.nCoefs + k))
      calc ∑ k ∈ range (nCoefsAll ts), columnsAll ε x (t :: ts) (t.nCoefs + k) * coef (t.nCoefs + k)
          = ∑ k ∈ range (nCoefsAll ts), columnsAll ε x ts k * coef (t.nCoefs + k) := by
            apply sum_congr rfl; intro k _
            have hnot : ¬ (t.nCoefs + k < t.nCoefs) := by omega
            simp [columnsAll, hnot]
        _ = ∑ i ∈ range ts.length, partialDep ε ts i (fun k => coef (t.nCoefs + k)) x := hih
        _ = ∑ i ∈ range ts.length, partialDep ε (t :: ts) (i+1) coef x := by
            apply sum_congr rfl; intro i _; exact (partialDep_cons_succ ε t ts i coef x).symm
    rw [h1, h2, add_comm]

/-- the partial dependence of the intercept is the intercept coefficient -/
theorem intercept_pdep (ε : α) (ts : List (Term α)) (i : Nat) (h : ts[i]? = some .intercept) (coef x : Nat → α) :
    partialDep ε ts i coef x = coef (coefStart ts i) := by
  simp [partialDep, h, Term.nCoefs, sumTo, Term.columns]

end decomposition

/-! ### locality: a term's partial dependence depends only on its own feature(s) and by-variable -/
section locality
variable [Zero α] [One α] [Add α] [Sub α] [Mul α] [Div α] [NatCast α] [LE α] [LT α]
  [DecidableLE α] [DecidableLT α] [DecidableEq α] [Max α] [HasFract α]

/-- the columns a marginal reads -/
def margReads (m : Marg α) (f : Nat) : Prop := f = m.feature ∨ m.byVar = some f

/-- the columns a term reads: its features and by-variables (the intercept reads nothing) -/
def termReads : Term α → Nat → Prop
  | .intercept, _ => False
  | .single m, f => margReads m f
  | .tensor ms b, f => (∃ m ∈ ms, margReads m f) ∨ b = some f

theorem byValue_congr (b : Option Nat) (x x' : Nat → α) (h : ∀ f, b = some f → x f = x' f) :
    byValue b x = byValue b x' := by
  cases b with
  | none => rfl
  | some k => exact h k rfl

theorem marg_columns_local (ε : α) (m : Marg α) (x x' : Nat → α) (h : ∀ f, margReads m f → x f = x' f) :
    m.columns ε x = m.columns ε x' := by
  have hf : x m.feature = x' m.feature := h _ (Or.inl rfl)
  have hb : byValue m.byVar x = byValue m.byVar x' := byValue_congr _ _ _ (fun f hf' => h f (Or.inr hf'))
  unfold Marg.columns
  cases m.kind <;> simp only [hf, hb]

theorem tensorColumns_local (ε : α) (x x' : Nat → α) (ms : List (Marg α))
    (h : ∀ m ∈ ms, ∀ f, margReads m f → x f = x' f) :
    ∀ acc : Nat → α, tensorColumns ε x acc ms = tensorColumns ε x' acc ms := by
  induction ms with
  | nil => intro acc; rfl
  | cons m ms ih =>
    intro acc
    simp only [tensorColumns]
    rw [marg_columns_local ε m x x' (h m (List.mem_cons_self ..))]
    exact ih (fun m' hm' => h m' (List.mem_cons_of_mem _ hm')) _

/-- rows that agree on the columns the term reads give the same model-matrix block … -/
theorem term_columns_local (ε : α) (t : Term α) (x x' : Nat → α) (h : ∀ f, termReads t f → x f = x' f) :
    t.columns ε x = t.columns ε x' := by
  cases t with
  | intercept => rfl
  | single m => exact marg_columns_local ε m x x' h
  | tensor ms b =>
    cases ms with
    | nil => rfl
    | cons m ms =>
      have hm : ∀ m' ∈ m :: ms, ∀ f, margReads m' f → x f = x' f :=
        fun m' hm' f hf => h f (Or.inl ⟨m', hm', hf⟩)
      have hb : byValue b x = byValue b x' := byValue_congr _ _ _ (fun f hf => h f (Or.inr hf))
      simp only [Term.columns]
      rw [marg_columns_local ε m x x' (hm m (List.mem_cons_self ..)),
          tensorColumns_local ε x x' ms (fun m' hm' => hm m' (List.mem_cons_of_mem _ hm')), hb]

/-- … hence the same partial dependence -/
theorem pdep_local (ε : α) (ts : List (Term α)) (i : Nat) (t : Term α) (ht : ts[i]? = some t)
    (coef x x' : Nat → α) (h : ∀ f, termReads t f → x f = x' f) :
    partialDep ε ts i coef x = partialDep ε ts i coef x' := by
  simp only [partialDep, ht]
  rw [term_columns_local ε t x x' h]

end locality

/-! ### default grids -/
section grids
variable [Field α] [LinearOrder α] [IsStrictOrderedRing α] [HasFract α]

/-- the grid has `n` rows for an ordinary term and `n^k` for a `k`-way tensor term -/
theorem grid_rows_single (m : Marg α) (n : Nat) : gridSize (Term.single m) n = n := rfl
theorem grid_rows_tensor (ms : List (Marg α)) (b : Option Nat) (n : Nat) :
    gridSize (Term.tensor ms b) n = n ^ ms.length := rfl

/-- the grid is uniform and spans the edge knots: first point `e0`, last point `e1`, constant step -/
theorem linspace_first (a b : α) (n : Nat) : linspacePt a b n 0 = a := by
  simp [linspacePt]

theorem linspace_last (a b : α) (n : Nat) (hn : 2 ≤ n) : linspacePt a b n (n-1) = b := by
  have h1 : n ≠ 1 := by omega
  have hc : ((n - 1 : Nat) : α) = (n : α) - 1 := by
    rw [Nat.cast_sub (by omega)]; simp
  have hne : (n : α) - 1 ≠ 0 := by
    have : (2:α) ≤ (n:α) := by exact_mod_cast hn
    intro h; linarith
  simp only [linspacePt, h1, if_false, hc]
  field_simp; ring

theorem linspace_step (a b : α) (n i : Nat) (hn : n ≠ 1) :
    linspacePt a b n (i+1) - linspacePt a b n i = (b - a) / ((n : α) - 1) := by
  simp only [linspacePt, hn, if_false]; push_cast; ring

/-- ordinary term: the term's feature runs over the uniform grid, its by-variable is one, every other
column is zero -/
theorem grid_single_feature (m : Marg α) (n r : Nat) (hby : m.byVar ≠ some m.feature) :
    gridRow (Term.single m) n r m.feature = linspacePt m.e0 m.e1 n r := by
  simp [gridRow, gridRowMarg, hby]

theorem grid_single_by (m : Marg α) (n r b : Nat) (hb : m.byVar = some b) :
    gridRow (Term.single m) n r b = 1 := by
  simp [gridRow, gridRowMarg, hb]

theorem grid_single_other (m : Marg α) (n r f : Nat) (hf : f ≠ m.feature) (hb : m.byVar ≠ some f) :
    gridRow (Term.single m) n r f = 0 := by
  simp [gridRow, gridRowMarg, hf, hb]

/-- tensor term: by-variable one -/
theorem grid_tensor_by (ms : List (Marg α)) (n r b : Nat) :
    gridRow (Term.tensor ms (some b)) n r b = 1 := by
  simp [gridRow, gridRowTensor]

/-- two-way tensor term: row `r` of the `n × n` mesh (`indexing='ij'`, flattened row-major) holds the
`(r / n)`-th grid point of the first marginal and the `(r % n)`-th of the second -/
theorem grid_tensor_two (a b : Marg α) (by_ : Option Nat) (n r : Nat) (hr : r < n * n)
    (hab : a.feature ≠ b.feature) (hba : by_ ≠ some a.feature) (hbb : by_ ≠ some b.feature) :
    gridRow (Term.tensor [a, b] by_) n r a.feature = linspacePt a.e0 a.e1 n (r / n)
    ∧ gridRow (Term.tensor [a, b] by_) n r b.feature = linspacePt b.e0 b.e1 n (r % n) := by
  have hn : 0 < n := by
    rcases Nat.eq_zero_or_pos n with h | h
    · subst h; simp at hr
    · exact h
  have hdiv : r / n < n := Nat.div_lt_of_lt_mul hr
  constructor
  · simp [gridRow, gridRowTensor, gridRowTensor.go, hba, hab, Nat.mod_eq_of_lt hdiv]
  · simp [gridRow, gridRowTensor, gridRowTensor.go, hbb, Ne.symm hab]

/-- **general k-way tensor term**: with pairwise different marginal features (and a by-variable that is not one of
them), row `r` of the `n^k` mesh (`indexing='ij'`, flattened row-major) holds, in the column of marginal `j`, grid point
number `(r / n^(k-1-j)) % n` of that marginal's `linspace(e0, e1, n)` -/
theorem grid_tensor_general (ms : List (Marg α)) (by_ : Option Nat) (n r j : Nat) (hj : j < ms.length)
    (hnd : (ms.map (·.feature)).Nodup) (hby : by_ ≠ some ms[j].feature) :
    gridRow (Term.tensor ms by_) n r ms[j].feature
      = linspacePt ms[j].e0 ms[j].e1 n (meshDigit n ms.length j r) := by
  have hsplit : ms.take j ++ ms[j] :: ms.drop (j+1) = ms := by
    rw [List.getElem_cons_drop, List.take_append_drop]
  have h := grid_tensor_split (ms.take j) ms[j] (ms.drop (j+1)) by_ n r (by rw [hsplit]; exact hnd) hby
  rw [hsplit] at h
  rw [h, List.length_take, Nat.min_eq_left (Nat.le_of_lt hj)]
  rfl

/-- the mesh is the full Cartesian product, each combination of grid points exactly once: the `k` digits of a row
are below `n`, two rows below `n^k` with the same digits are the same row, and every digit combination occurs -/
theorem mesh_digit_lt (n k j r : Nat) (hn : 0 < n) : meshDigit n k j r < n := meshDigit_lt n k j r hn
theorem mesh_rows_distinct (n k r r' : Nat) (hn : 0 < n) (hr : r < n ^ k) (hr' : r' < n ^ k)
    (h : ∀ j, j < k → meshDigit n k j r = meshDigit n k j r') : r = r' := mesh_digits_inj n k r r' hn hr hr' h
theorem mesh_covers (n k : Nat) (hn : 0 < n) (d : Nat → Nat) (hd : ∀ j, j < k → d j < n) :
    ∃ r, r < n ^ k ∧ ∀ j, j < k → meshDigit n k j r = d j := mesh_digits_surj n k hn d hd

end grids

/-! ### non-vacuity -/
example : linspacePt (0:ℚ) 1 5 2 = 1/2 := by decide +kernel
example : linspacePt (3:ℚ) 7 1 0 = 3 := by decide +kernel
-- 3-way mesh of 4 points per axis: row 27 = (1, 2, 3)
example : (meshDigit 4 3 0 27, meshDigit 4 3 1 27, meshDigit 4 3 2 27) = (1, 2, 3) := by decide

end PyGam.C02
