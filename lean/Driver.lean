import PyGam.Drv.Common
import PyGam.Drv.C04
/-!
Line protocol driver: one operation per line on stdin, one canonical line on stdout.
First token selects the property driver.  Unknown / malformed operations print `bad-op`.
-/
open PyGam.Drv

def dispatch (line : String) : String :=
  let toks := (line.trimAscii.toString.splitOn " ").filter (· ≠ "")
  match toks with
  | "C04" :: rest => (C04.handle rest).getD "bad-op"
  | _ => "bad-op"

partial def loop (h : IO.FS.Stream) (out : IO.FS.Stream) : IO Unit := do
  let line ← h.getLine
  if line.isEmpty then return ()
  out.putStrLn (dispatch line)
  loop h out

def main : IO Unit := do
  let out ← IO.getStdout
  loop (← IO.getStdin) out
  out.flush
