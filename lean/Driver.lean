import PyGam.Drv.Loop
import PyGam.Drv.C01
import PyGam.Drv.C02
import PyGam.Drv.C03
import PyGam.Drv.C04
import PyGam.Drv.C05
import PyGam.Drv.C06
import PyGam.Drv.C07
import PyGam.Drv.C08
import PyGam.Drv.C09
import PyGam.Drv.C10
import PyGam.Drv.C11
import PyGam.Drv.C12
import PyGam.Drv.C13
import PyGam.Drv.C14
import PyGam.Drv.C15
import PyGam.Drv.C16
import PyGam.Drv.C17
import PyGam.Drv.C18
import PyGam.Drv.C19
import PyGam.Drv.C20
/-!
Line protocol driver: one operation per line on stdin, one canonical line on stdout.
First token selects the property driver.  Unknown / malformed operations print `bad-op`.
-/
open PyGam.Drv

def dispatch : List String → String
  | "C01" :: rest => (C01.handle rest).getD "bad-op"
  | "C02" :: rest => (C02.handle rest).getD "bad-op"
  | "C03" :: rest => (C03.handle rest).getD "bad-op"
  | "C04" :: rest => (C04.handle rest).getD "bad-op"
  | "C05" :: rest => (C05.handle rest).getD "bad-op"
  | "C06" :: rest => (C06.handle rest).getD "bad-op"
  | "C07" :: rest => (C07.handle rest).getD "bad-op"
  | "C08" :: rest => (C08.handle rest).getD "bad-op"
  | "C09" :: rest => (C09.handle rest).getD "bad-op"
  | "C10" :: rest => (C10.handle rest).getD "bad-op"
  | "C11" :: rest => (C11.handle rest).getD "bad-op"
  | "C12" :: rest => (C12.handle rest).getD "bad-op"
  | "C13" :: rest => (C13.handle rest).getD "bad-op"
  | "C14" :: rest => (C14.handle rest).getD "bad-op"
  | "C15" :: rest => (C15.handle rest).getD "bad-op"
  | "C16" :: rest => (C16.handle rest).getD "bad-op"
  | "C17" :: rest => (C17.handle rest).getD "bad-op"
  | "C18" :: rest => (C18.handle rest).getD "bad-op"
  | "C19" :: rest => (C19.handle rest).getD "bad-op"
  | "C20" :: rest => (C20.handle rest).getD "bad-op"
  | _ => "bad-op"

def main : IO Unit := runLoop dispatch
