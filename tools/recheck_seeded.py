"""Re-run the checks against every seeded change (seeded/<id>/patch.diff): apply to /repo, run the first check of
meta.json's caught_by (quick tier, --no-build), expect a VIOLATION, undo.  Usage: tools/recheck_seeded.py [id ...]
/repo must be clean; it is restored with `git checkout -- .` after every patch."""
import json, os, subprocess, sys
HERE = os.path.dirname(os.path.dirname(os.path.abspath(__file__)))
REPO = os.environ.get('PYGAM_REPO', '/repo')


def sh(cmd, **kw):
    return subprocess.run(cmd, shell=True, capture_output=True, text=True, **kw)


def main():
    global REPO
    args = sys.argv[1:]
    copy = '--copy' in args          # work on a scratch copy of /repo (when other jobs are using /repo); removed afterwards
    args = [a for a in args if a != '--copy']
    env = dict(os.environ)
    if copy:
        REPO = '/tmp/priv_recheck_%d' % os.getpid()
        sh('rm -rf %s && cp -r /repo %s' % (REPO, REPO))
        env.update(PYGAM_REPO=REPO, PYTHONPATH='%s:%s' % (HERE, REPO), OMP_NUM_THREADS='1', OPENBLAS_NUM_THREADS='1', MKL_NUM_THREADS='1')
    ids = args or sorted(os.listdir(os.path.join(HERE, 'seeded')))
    if sh('git -C %s status --porcelain --untracked-files=no' % REPO).stdout.strip():
        print('refusing: %s is not clean' % REPO)
        return 2
    missed = []
    for i in ids:
        d = os.path.join(HERE, 'seeded', i)
        if not os.path.exists(os.path.join(d, 'patch.diff')):
            continue
        meta = json.load(open(os.path.join(d, 'meta.json'))) if os.path.exists(os.path.join(d, 'meta.json')) else {}
        checks = meta.get('caught_by') or [i.split('-')[0]]
        a = sh('git -C %s apply %s' % (REPO, os.path.join(d, 'patch.diff')))
        if a.returncode != 0:
            a = sh('git -C %s apply --3way %s' % (REPO, os.path.join(d, 'patch.diff')))
            if a.returncode != 0:
                print('%-10s patch no longer applies (%s)' % (i, a.stderr.strip().splitlines()[-1] if a.stderr.strip() else ''))
                sh('git -C %s checkout -- . ; git -C %s reset -q' % (REPO, REPO))
                continue
        try:
            got = []
            for c in checks[:1]:
                r = sh(('/venv/bin/python -m harness.main %s --tier quick --no-build' if copy else './check %s --tier quick --no-build') % c, cwd=HERE, env=env)
                v = [l for l in r.stdout.splitlines() if l.startswith('VIOLATION')]
                got.append((c, r.returncode, v[0] if v else ''))
        finally:
            sh('git -C %s reset -q; git -C %s checkout -- .' % (REPO, REPO))
        ok = all(rc == 1 and v for (_, rc, v) in got)
        print('%-10s %s %s' % (i, 'caught' if ok else 'MISSED', ' '.join('%s(rc=%d%s)' % (c, rc, ', no-failing-input' if 'no-failing-input-found' in v else '') for c, rc, v in got)))
        # record the latest re-run next to the original confirmation (seeded/<id>/run.json: key `recheck`)
        try:
            rj = os.path.join(d, 'run.json')
            rec = json.load(open(rj)) if os.path.exists(rj) else {}
            rec['recheck'] = dict(seed=os.environ.get('VERIF_SEED', '0'), result='caught' if ok else 'not caught',
                                  checks=' '.join('%s(rc=%d%s)' % (c, rc, ', no-failing-input' if 'no-failing-input-found' in v else '') for c, rc, v in got))
            json.dump(rec, open(rj, 'w'))
        except Exception:  # noqa
            pass
        if not ok:
            missed.append(i)
    print('missed:', missed)
    if copy:
        sh('rm -rf %s' % REPO)
    return 1 if missed else 0


if __name__ == '__main__':
    sys.exit(main())
