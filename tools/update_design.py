"""Refreshes the generated parts of DESIGN.md: the list of `fix:` commits (section 12.2) and the seeded-change table (12.4)."""
import glob, json, subprocess
p = '/verif/DESIGN.md'
s = open(p).read()
fix = subprocess.check_output(['git', '-C', '/repo', 'log', '--format=- `%h` %s', '945644c..HEAD']).decode().strip()
a = s.index('<!-- FIXLIST-BEGIN'); a = s.index('\n', a) + 1
b = s.index('<!-- FIXLIST-END -->')
s = s[:a] + fix + '\n' + s[b:]
rows = []
for d in sorted(glob.glob('/verif/seeded/*/meta.json')):
    m = json.load(open(d))
    rows.append('| %s | %s | %s | %s | %s |' % (m['id'], m['change'].replace('|', '/'), m['needs_to_manifest'].replace('|', '/'),
                                               ', '.join(m['caught_by']) or '—', (m.get('strengthened') or '').replace('|', '/')))
tab = '| id | change | needs | caught by | strengthening it caused |\n|---|---|---|---|---|\n' + '\n'.join(rows)
a = s.index('| id | change | needs | caught by |')
b = s.index('\n\n', a)
s = s[:a] + tab + s[b:]
open(p, 'w').write(s)
print(len(rows), 'seeded rows;', fix.count('\n') + 1, 'fix commits')
