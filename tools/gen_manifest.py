"""Writes MANIFEST.json from the table below (one place to edit)."""
import json, os
HERE = os.path.dirname(os.path.dirname(os.path.abspath(__file__)))

NOTE_COMMON = ('Trusted: Lean 4.33 kernel + Mathlib v4.33 (axioms propext, Classical.choice, Quot.sound only; audited per theorem each run), '
               'the hand-written model lean/PyGam/Model, and the correspondence harness that ties it to /repo on every run. ')

CHECKS = {
 'C04': dict(
   text='Theorems for all n, d, c over any commutative (ordered) ring: quadratic form of derivative / periodic / l2 penalties = sum of squared (cyclic) differences; symmetric, PSD, constants and polynomials of degree < d unpenalised; lam-weighted sums. Tied to /repo by exact integer comparison of the model matrices with pygam.penalties.* and an exact quadratic-form oracle.',
   note=NOTE_COMMON + 'Exact integer arithmetic; no floating-point assumptions. penalties.periodic is a recorded known finding (known_findings.json).',
   technique='Lean 4 theorems (induction / big-operator algebra) + differential correspondence of the executable model with pygam.penalties',
   ref='7/C04'),
}
PENDING = ['C01','C02','C03','C05','C06','C07','C08','C09','C10','C11','C12','C13','C14','C15','C16','C17','C18','C19','C20']

def main():
    checks = []
    for pid in sorted(CHECKS):
        c = CHECKS[pid]
        checks.append(dict(
            property_id=pid,
            quick_cmd='./check %s --tier quick' % pid,
            thorough_cmd='./check %s --tier thorough' % pid,
            evidence_file='evidence/%s.json' % pid,
            replay_cmd_template='./check %s --replay {path}' % pid,
            engine='lean4-proof+correspondence',
            level_claimed=dict(category='proof', text=c['text'], design_ref='DESIGN.md section ' + c['ref']),
            level_note=c['note'],
            technique=c['technique'],
        ))
    m = dict(
        version=1,
        setup_cmd='cd lean && lake build PyGam pgdriver',
        hooks=dict(guard='PYGAM_VERIF', enable='no source hooks: checks import /repo in-process (PYTHONPATH=/repo) and observe through the public API, user callbacks and numpy.random patching inside the harness process',
                   baseline_off_cmd='cd /repo && /venv/bin/python -m pytest -ra -q -p no:cacheprovider --timeout=900 --continue-on-collection-errors',
                   source_commits=[], add_only=True),
        engines=[dict(name='lean4-proof+correspondence', path='lean/ + harness/', serves_properties=sorted(CHECKS),
                      kind_free_text='Lean 4 model + theorems (lake build, #print axioms audit) and a Python differential harness driving the compiled Lean model through a line protocol')],
        checks=checks,
        notes='See DESIGN.md. known_findings.json lists recorded (known) findings and repaired (fixed) defects.',
        not_applicable=[dict(property_id=p, reason='check not yet built at this commit (construction in progress, see DESIGN.md section 8.1); not claimed') for p in PENDING if p not in CHECKS],
    )
    json.dump(m, open(os.path.join(HERE, 'MANIFEST.json'), 'w'), indent=1)
    print('checks:', len(checks), 'pending:', len(m['not_applicable']))

if __name__ == '__main__':
    main()
