"""Writes MANIFEST.json from the table below (one place to edit)."""
import json, os
HERE = os.path.dirname(os.path.dirname(os.path.abspath(__file__)))

NOTE_COMMON = ('Trusted: Lean 4.33 kernel + Mathlib v4.33 (axioms propext, Classical.choice, Quot.sound only; audited per theorem each run), '
               'the hand-written model lean/PyGam/Model, and the correspondence harness that ties it to /repo on every run. ')

CHECKS = {
 'C03': dict(
   text='Theorems for every order, number of functions, pair of distinct edge knots and x over any linear ordered field: inside the knot range (both edges) rows of the modelled basis are non-negative, sum to one and have at most order+1 consecutive non-zeros; outside, rows of order >= 1 are affine in x with the boundary value as intercept and still sum to one; the basis is invariant under positive affine maps of (x, knots); periodic rows are non-negative, sum to one and repeat with the knot range; default knots = (min, max). Tied to /repo by comparing exact rational rows of the model with b_spline_basis (dense, sparse) and SplineTerm.build_columns over the full product of orders x sizes x periodic x knot pairs at knots, boundaries, cell interiors, far outside and literal-seeded points.',
   note=NOTE_COMMON + 'IEEE rounding is not modelled (model rows are exact rationals of the float inputs; agreement to 1e-9); order-0 rows are not sampled on interior knots (float rescaling may flip a half-open cell); the slope of the continuation is tied to the derivative only through the correspondence and a finite-difference oracle, not by a theorem.',
   technique='Lean 4 theorems (induction on the Cox-de Boor recursion, telescoping sums) + exact-rational differential correspondence with b_spline_basis',
   ref='7/C03'),
 'C04': dict(
   text='Theorems for all n, d, c over any commutative (ordered) ring: quadratic form of derivative / periodic / l2 penalties = sum of squared (cyclic) differences; symmetric, PSD, constants and polynomials of degree < d unpenalised; lam-weighted sums. Tied to /repo by exact integer comparison of the model matrices with pygam.penalties.* and an exact quadratic-form oracle.',
   note=NOTE_COMMON + 'Exact integer arithmetic; no floating-point assumptions. penalties.periodic is a recorded known finding (known_findings.json).',
   technique='Lean 4 theorems (induction / big-operator algebra) + differential correspondence of the executable model with pygam.penalties',
   ref='7/C04'),
}
PENDING = ['C01','C02','C05','C06','C07','C08','C09','C10','C11','C12','C13','C14','C15','C16','C17','C18','C19','C20']

def main():
    checks = []
    for pid in sorted(CHECKS):
        c = CHECKS[pid]
        checks.append(dict(
            property_id=pid,
            quick_cmd='./check %s --tier quick' % pid,
            thorough_cmd='./check %s --tier thorough' % pid,
            evidence_file='evidence/%s.json' % pid,
            replay_cmd_template='./check %s --replay {path}' % pid,
            engine='lean4-proof+correspondence',
            level_claimed=dict(category='proof', text=c['text'], design_ref='DESIGN.md section ' + c['ref']),
            level_note=c['note'],
            technique=c['technique'],
        ))
    m = dict(
        version=1,
        setup_cmd='cd lean && lake build PyGam pgdriver',
        hooks=dict(guard='PYGAM_VERIF', enable='no source hooks: checks import /repo in-process (PYTHONPATH=/repo) and observe through the public API, user callbacks and numpy.random patching inside the harness process',
                   baseline_off_cmd='cd /repo && /venv/bin/python -m pytest -ra -q -p no:cacheprovider --timeout=900 --continue-on-collection-errors',
                   source_commits=[], add_only=True),
        engines=[dict(name='lean4-proof+correspondence', path='lean/ + harness/', serves_properties=sorted(CHECKS),
                      kind_free_text='Lean 4 model + theorems (lake build, #print axioms audit) and a Python differential harness driving the compiled Lean model through a line protocol')],
        checks=checks,
        notes='See DESIGN.md. known_findings.json lists recorded (known) findings and repaired (fixed) defects.',
        not_applicable=[dict(property_id=p, reason='check not yet built at this commit (construction in progress, see DESIGN.md section 8.1); not claimed') for p in PENDING if p not in CHECKS],
    )
    json.dump(m, open(os.path.join(HERE, 'MANIFEST.json'), 'w'), indent=1)
    print('checks:', len(checks), 'pending:', len(m['not_applicable']))

if __name__ == '__main__':
    main()
