"""Writes MANIFEST.json from the table below (one place to edit)."""
import json, os
HERE = os.path.dirname(os.path.dirname(os.path.abspath(__file__)))

NOTE_COMMON = ('Trusted: Lean 4.33 kernel + Mathlib v4.33 (axioms propext, Classical.choice, Quot.sound only; audited per theorem each run), '
               'the hand-written model lean/PyGam/Model, and the correspondence harness that ties it to /repo on every run. ')

CHECKS = {
 'C01': dict(
   text='Theorems: the coded QR/SVD solve formula satisfies (and uniquely solves) the penalised normal equations under the LAPACK/Cholesky contracts for every number of rows k <, =, > m; a solution of the normal equations is the global minimiser of the penalised weighted least-squares criterion (exact excess formula); a fixed point of the model PIRLS step is exactly a zero of the score residual, whose summand is w asym (y - mu)/(V g\') (with C06/C07: -1/2 the gradient of the penalised deviance); ExpectileGAM likewise with asymmetric weights; over R, along every coordinate the penalised deviance has derivative -2 x the score residual (chain rule through the inverse link and C06 dev_hasDerivAt), so a zero score residual is a stationary point. Tied to /repo by evaluating the model PIRLS step (Float driver) at the coef_ of real converged fits (13 class / family x link pairs, n vs m, weights, lam, constraints) on the exported model matrix, penalties, weights and mask, by validating the LAPACK contracts on captured loop locals, and by a NumPy backward-error / Newton-step stationarity oracle and closed-form check.',
   note=NOTE_COMMON + 'PARTIAL: LAPACK qr/svd and the Cholesky factor are contracts (hypotheses), validated numerically per fit; IEEE rounding and the sqrt(eps) ridge are not modelled (stationarity is judged as normwise backward error <= 1e-6 and Newton step <= max(1e-6, 10 eps cond), problems with cond > 4.5e11 are judged on backward error only); the ExpectileGAM criterion is non-smooth where a residual is zero, so its stationarity is stated as the algebraic score equation only.',
   technique='Lean 4 theorems (Matrix algebra over a field, big-operator algebra) + Float-model correspondence at real fits + contract validation',
   ref='7/C01'),
 'C02': dict(
   text='Theorems for every term list, coefficient vector and row: the linear predictor is the sum over all terms of the partial dependence (the intercept contributing its coefficient); partial dependence depends only on the columns the term reads (own feature(s), by-variables); default grids have n (n^k) rows, are uniform between the edge knots with the by-variable one and other columns zero, row-major ij mesh for tensors. Tied to /repo by exact rational evaluation of linPred / partialDep / gridRow on exported coef_ and compiled terms of fitted models of 7 classes vs link(predict_mu), partial_dependence, generate_X_grid.',
   note=NOTE_COMMON + 'The inverse-link step mu = g^-1(lp) is C07; rows with |lp| > 30 are not compared through link(mu) (saturation). The k-way tensor grid is proved for every k (grid_tensor_general: column of marginal j = grid point number (r / n^(k-1-j)) % n; mesh_rows_distinct / mesh_covers: the n^k rows are the full Cartesian product, each combination once) under pairwise different marginal features.',
   technique='Lean 4 theorems (list induction, sum splitting) + exact-rational correspondence on fitted models',
   ref='7/C02'),
 'C08': dict(
   text='Theorems from the solve contracts (Matrix algebra over a field): edof = tr(U1 U1^T) = tr(WB Bmat) = trace of the influence matrix of the final weighted penalised regression for any solution of N X = WB^T; 0 <= edof, edof > 0 when WB != 0, edof <= m, edof <= k (rows) under row-orthonormality of U; cov = scale Bmat Bmat^T = scale N^-1 (WB^T WB) N^-1 (inverse-free and with the proved inverse V D^-2 V^T), symmetric with non-negative diagonal, se^2 = diag; scale = supplied or Pearson / (n - edof); the formula table: AIC (+2 iff the scale is estimated), AICc - AIC, GCV, UBRE (gamma = 7/5, add_scale), explained deviance <= 1 and scale-free, McFadden and adjusted, deviance residuals (sign, square), accuracy in [0,1], centred Wald statistic and p-value forms. Tied to /repo by recomputing every entry of statistics_ and the outputs of deviance_residuals / score / accuracy / loglikelihood in the Float driver from exported (B, A, y, mu, w, coef_, mask) of real fits (known / unknown scale, weights, n < m), validating the contracts on loop locals, and a NumPy/SciPy oracle (dense influence trace, sandwich, closed-form log-densities, own pseudo-inverse for Wald).',
   note=NOTE_COMMON + 'LAPACK / Cholesky factors are contracts; SciPy pinv, chi2.cdf, f.cdf and lgamma are trusted; IEEE rounding not modelled (solve-dependent entries judged with the conditioning-aware threshold of C01); fits with an exactly zero estimated scale are not judged on scaled deviances (0/0).',
   technique='Lean 4 theorems (Matrix trace / sandwich algebra, ordered-field formula identities) + Float-model correspondence at real fits',
   ref='7/C08'),
 'C09': dict(
   text='Theorems over R with the quantile functions as parameters under the contract (strictly increasing, antisymmetric): width w = quantiles [(1-w)/2,(1+w)/2]; levels outside (0,1) (incl. NaN, through width too) rejected exactly; bound formula g^-1(lp + z_q sqrt(row cov row [+ scale])) with normal / t(n - edof) quantiles; ordered in q, bracket the prediction, nested in the width, prediction intervals contain confidence intervals; partial-dependence intervals use only the term block. Tied to /repo by recomputing every bound in the Float driver from exported cov, edof, scale, rows and SciPy quantiles for 13 model variants incl. extrapolation.',
   note=NOTE_COMMON + 'SciPy norm.ppf / t.ppf are trusted parameters (contract validated on a grid each run: monotone exactly, antisymmetric to 1e-7).',
   technique='Lean 4 theorems over R + Float-model correspondence + SciPy contract validation',
   ref='7/C09'),
 'C10': dict(
   text='Theorems about the search logic: combine = Cartesian product (length, membership, order last-fastest, no duplicates), the three grid-shape rules and their rejections, objective selection table, best = earliest argmin over evaluated candidates (and self if fitted), keep_best semantics, candidate accounting. Tied to /repo by scripted-fit runs of the real gridsearch (candidates, order, winner, self afterwards, exceptions) and by real searches compared with independent cold fits of every candidate.',
   note=NOTE_COMMON + 'PARTIAL: "score of a candidate = score of an independent fit" is about fitting (C01) and is checked on the real code against cold fits, not proved. Three recorded known findings (fit_intercept grid ignored; sequential validation drops joint candidates; plural setter AttributeError).',
   technique='Lean 4 theorems (list / fold induction) + differential correspondence incl. scripted fits',
   ref='7/C10'),
 'C17': dict(
   text='Theorems about the deterministic pipeline around the random generators (generators as oracle arguments): argument rejection, output shapes, exactly (coef_, cov + sqrt(eps) I, n_draws) reach the multivariate-normal generator with one bootstrap, draw d comes from bootstrap idx[d], mean draws = inverse link of the model matrix times the draws, response draws use the family sampler parameters of C06. Tied to /repo by patching numpy.random.* to record arguments and return supplied draws and comparing with the driver exactly.',
   note=NOTE_COMMON + 'PARTIAL: the distributional claim rests on NumPy generators (trusted); seeded statistical checks of real draws are supporting evidence (thorough tier). n_bootstraps > 1: only grouping / order / sizes are checked.',
   technique='Lean 4 theorems about the sampling pipeline + argument-capture correspondence',
   ref='7/C17'),
 'C18': dict(
   text='Theorems: asymmetric weight table; expectile balance tau sum_{r>0} w r = (1-tau) sum_{r<=0} w |r| + A00 b0 at a fixed point with an intercept; expectile 0.5 = LinearGAM with doubled penalty (normal equations coincide); fit_quantile: argument rejection, bisection invariant 0 <= min < e < max <= 1, each step moves toward the target, expectiles strictly inside (0,1), at most max_iter refits, postcondition within tol or budget exhausted. Tied to /repo by real ExpectileGAM fits (balance, half = linear), traced fit_quantile runs compared bitwise (Float) and exactly (Rat) with the model bisection.',
   note=NOTE_COMMON + 'PARTIAL: IEEE midpoint rounding beyond ~52 halvings is outside the theorems (max_iter <= 40 in the harness); the balance holds up to the sqrt(eps) ridge term, not exactly.',
   technique='Lean 4 theorems (ordered-field algebra, state-machine invariant) + traced differential correspondence',
   ref='7/C18'),
 'C19': dict(
   text='Theorems: exposure conversion = (y/e, w e) incl. float32 casts, omitted exposure = exposure one, e dev(y/e, r) = dev(y, e r), PIRLS weights / pseudo-data of the rate fit equal those of the count model with offset log e, predict = e x rate, rounding recovers counts, log-likelihood = Poisson log-pmf at rate x exposure. Tied to /repo by PoissonGAM.fit / gridsearch / predict / loglikelihood vs GAM fits on rates with weights, an independent NumPy offset-GLM solve and SciPy logpmf.',
   note=NOTE_COMMON + 'fit = base fit o conversion is definitional in the model; its content is carried by the fit.rates / gridsearch / offset-glm streams. Non-float32-representable exposures are compared at 1e-6 (the code casts to float32).',
   technique='Lean 4 theorems (field algebra, log identities over R) + differential correspondence',
   ref='7/C19'),
 'C20': dict(
   text='Theorems about the optimiser loop model (fuel = max_iter, abstract step / diff): 1 <= iterations <= max_iter, stops at the first recorded diff below tol, not-converged iff no diff below tol, statistics always populated, one log entry per callback hook per iteration (logs appended across refits), logged deviance / coef / accuracy are those of the coefficients entering the iteration, final coef = last step, every model class forwards callbacks and optimiser arguments, hooks bind argument names only. Tied to /repo by fits of 14 class variants with every subset of built-in and user callbacks, max_iter 1..30 and tol placed on / around recorded diffs, replaying the model on the recorded diffs and recomputing logged quantities with NumPy.',
   note=NOTE_COMMON + 'The PIRLS step itself is abstract here (C01). Observed quirks mirrored by the model: the first recorded diff of non-Linear models is a broadcast norm; the Deviance callback logs the unweighted deviance.',
   technique='Lean 4 theorems (induction over fuel, list lemmas) + trace correspondence',
   ref='7/C20'),
 'C03': dict(
   text='Theorems for every order, number of functions, pair of distinct edge knots and x over any linear ordered field: inside the knot range (both edges) rows of the modelled basis are non-negative, sum to one and have at most order+1 consecutive non-zeros; outside, rows of order >= 1 are affine in x with the boundary value as intercept and still sum to one; the basis is invariant under positive affine maps of (x, knots); periodic rows are non-negative, sum to one and repeat with the knot range; default knots = (min, max). Tied to /repo by comparing exact rational rows of the model with b_spline_basis (dense, sparse) and SplineTerm.build_columns over the full product of orders x sizes x periodic x knot pairs at knots, boundaries, cell interiors, far outside and literal-seeded points.',
   note=NOTE_COMMON + 'IEEE rounding is not modelled (model rows are exact rationals of the float inputs; agreement to 1e-9); order-0 rows are not sampled on interior knots (float rescaling may flip a half-open cell); the slope of the continuation is tied to the derivative only through the correspondence and a finite-difference oracle, not by a theorem.',
   technique='Lean 4 theorems (induction on the Cox-de Boor recursion, telescoping sums) + exact-rational differential correspondence with b_spline_basis',
   ref='7/C03'),
 'C05': dict(
   text='Theorems for all n and all coefficient vectors over any linear ordered commutative ring: each constraint matrix is symmetric PSD, its quadratic form at the coefficients is the sum of squared violating first (monotone) / second (convex, concave) differences, and it is zero iff the coefficients satisfy the constraint; function level: non-decreasing (non-increasing) coefficients give a spline of order >= 1 that is non-decreasing (non-increasing) on the whole real line, inside the knot range and on both linear continuations (head-sum recursion + summation by parts), any order inside the range. Tied to /repo by exact comparison with pygam.penalties.monotonic_*/convex/concave and Term/TensorTerm/TermList.build_constraints (per-fibre matrices, x1e9, conditioning ridge), and at fit level by shape checks of partial_dependence on sorted grids (domain and linear continuation) for converged constrained fits of five model classes on contradicting data.',
   note=NOTE_COMMON + 'PARTIAL: the convex / concave function-level implication (order >= 2) and the bound on the residual violation of a converged fit are validated by the fit-level stream (violation <= 1e-6 (1 + range) on 401-point grids), not proved; rounding of the 1e9-weighted solve is not modelled.',
   technique='Lean 4 theorems (sum-of-squares algebra) + exact differential correspondence of constraint matrices + fit-level shape oracle',
   ref='7/C05'),
 'C06': dict(
   text='Theorems over R for all five families, every scale > 0, levels, valid (y, mu): unit deviance >= 0, = 0 iff y = mu, HasDerivAt = -2 (y - mu) / V(mu) including the y = 0 and y = levels branches, deviance = 2 scale (loglik at saturated mean - loglik at mu) for the modelled log-density kernel, weights multiply the deviance and divide V, sampler parameterisation has mean mu and variance scale V(mu) w.r.t. the documented moments of the NumPy samplers, phi = weighted Pearson / (n - edof) or the supplied scale. Tied to /repo by comparing the Float model with Distribution.V / deviance / log_pdf differences / phi on log-uniform grids incl. boundaries and by capturing the exact arguments handed to numpy.random.*.',
   note=NOTE_COMMON + 'Trusted: lgamma normalisers of SciPy log-densities (cancel in differences), the documented first two moments of numpy.random.{normal,binomial,poisson,gamma,wald} (moment checks of real draws are supporting evidence only), libm exp/log vs Lean Float to 1e-11.',
   technique='Lean 4 theorems over R (Mathlib calculus) + Float-model differential correspondence + sampler-argument capture',
   ref='7/C06'),
 'C07': dict(
   text='Theorems over R for identity, log, logit(levels), inverse, inverse-squared on their open domains: inverse link after link and link after inverse link are identities (bijection), HasDerivAt(link) = gradient, strict monotonicity (direction per link), gradient never zero; and over an IEEE special-value model: check_y rejects exactly the targets outside the closed domain (and every non-finite / empty target), with the table reported by get_link_domain. Tied to /repo by Float-model comparison with Link.link/mu/gradient, exact special-value comparison, check_y verdicts and fit exception classes for every link x distribution.',
   note=NOTE_COMMON + 'IEEE special-value behaviour of NumPy is modelled (XR), not verified; libm vs Lean Float agreement to 1e-11; logit with a non-binomial distribution (no `levels`) is outside the quantifier and not modelled.',
   technique='Lean 4 theorems over R (Mathlib calculus, order) + IEEE special-value model + Float differential correspondence',
   ref='7/C07'),
 'C04': dict(
   text='Theorems for all n, d, c over any commutative (ordered) ring: quadratic form of derivative / periodic / l2 penalties = sum of squared (cyclic) differences; symmetric, PSD, constants and polynomials of degree < d unpenalised; a term penalty = lam-weighted sum with the auto-resolution table; Kronecker lifts = fibre roughness in the row-major coefficient order of the columns; block-diagonal assembly with a zero intercept block. Tied to /repo by exact comparison of the model matrices with pygam.penalties.* and Term/TensorTerm/TermList.build_penalties() on random term programs, plus exact quadratic-form / fibre oracles.',
   note=NOTE_COMMON + 'Exact integer arithmetic; no floating-point assumptions. penalties.periodic is a recorded known finding (known_findings.json).',
   technique='Lean 4 theorems (induction / big-operator algebra) + differential correspondence of the executable model with pygam.penalties',
   ref='7/C04'),
 'C11': dict(
   text='Theorems about the validation model: check_array rejects any non-finite value at any position of an array of any length, wrong width, too few samples; check_lengths / check_X_y pass exactly on equal lengths; weights / exposure stay non-finite through the float32 cast (and overflow is rejected); check_y rejects out-of-domain targets; for every one of 19 public entry points (table of validation steps in call order) and every data argument, a corrupted argument yields ValueError on a fitted model, and every entry that needs a fit yields AttributeError before fit; validation raises only ValueError / AttributeError. Tied to /repo by an exhaustive (class x entry point x argument x 20 corruption kinds x position x container x fitted state) comparison of exception classes, signature inspection, and a hostile-data stream (fits end in ValueError-family or finite results).',
   note=NOTE_COMMON + 'PARTIAL: "a successful fit is finite" is floating point and checked only by the hostile.fits stream; partial_dependence deliberately checks only the requested term\'s own categories (entry_rejects_category_partial with witness).',
   technique='Lean 4 theorems (list induction, finite case split over the entry-point table) + exhaustive exception-class correspondence',
   ref='7/C11'),
 'C15': dict(
   text='Theorems about a heap model of models, term / distribution / log objects and caller-held expressions (step : World -> Op -> World x Out for construct, fit, queries, sample, gridsearch, set_params, deepcopy): after every finite history no two models share a mutable object (nor with an expression); queries, sample and gridsearch(keep_best=False) leave every model unchanged; fit is history-free (the fit binding after any history equals that of a fresh model with the same settings on the same data; compile overwrites all data-dependent term state); calls on one model leave every other model unchanged; keep_best copies by value and a later fit of self leaves the winner unchanged; predictions are row-wise. Tied to /repo by random histories over 2-3 models built from shared expressions and 2-3 data sets run on real objects and on the model (per-op summaries exact), bit-identical state digests of every other model around every call, a fresh-fit oracle for every fit and grid-search candidate, caller-array immutability over dtypes / layouts, and row-subset / permutation checks.',
   note=NOTE_COMMON + 'NumPy aliasing of caller arrays and the row-wise evaluation of the numerical code are outside the model (harness-only streams); failed calls other than AttributeError-before-fit, tensor terms and constructor plurals are outside the heap model.',
   technique='Lean 4 theorems (invariant over operation histories, frame rules) + history-based differential correspondence',
   ref='7/C15'),
 'C16': dict(
   text='Theorems for every data row, term configuration and term list: intercept = 1, linear = raw feature, spline = basis row x by-variable, factor = indicator of the category under the knots compile derives (dummy coding drops the first), tensor = row-wise Kronecker product with the last marginal fastest (row-major index), model matrix = concatenation in term order, coefficient index blocks contiguous, ordered (disjoint) and covering. Tied to /repo by exact rational comparison of model rows with TermList.build_columns / term.build_columns / get_coef_indices on random term programs with query data different from the training data, plus a NumPy oracle of the documented rule.',
   note=NOTE_COMMON + 'Spline columns are those of C03 (same model function); order-0 / cyclic spline features are not sampled within 1e-6 of a jump.',
   technique='Lean 4 theorems (list induction, Nat div/mod index algebra, C03 basis lemmas) + exact-rational differential correspondence on random term programs',
   ref='7/C16'),
 'C12': dict(
   text='Theorems (Field / ordered field): B^T W^2 B + A and B^T W^2 z are sums over rows, so any permutation of the rows (model matrix, working weights and mask together) leaves the normal equations, every PIRLS step and the criterion unchanged; edge knots are affine-equivariant and the model matrix, predictions and penalties of every term list whose rescaled features enter only through spline bases are unchanged under x -> a x + b (a > 0) with knots and query points mapped likewise; integer weights equal row replication for the normal matrix, right-hand side and deviance (working weights are linear in the sample weight); for fixed (B, w, A) solutions of the normal equations add and scale with y, are unique when B^T W B + A is definite, hence fitted values are linear in y; RSS scales by c^2, scale / GCV / covariance by c^2, centred Wald statistics (p-values) and the pseudo-inverse scale-free. Correspondence: the Float / exact model normal matrices, right-hand sides, columns and knots vs the real code on transformed data, plus real fits compared before / after each transformation with a conditioning-aware tolerance.',
   note=NOTE_COMMON + 'PARTIAL: invariance of the *computed* fit to numerical precision rests on the conditioning of the solve (floating point, not modelled): real fits are compared with a tolerance from the accuracy model eps x cond; ill-conditioned pairs are not judged (counted in the evidence).',
   technique='Lean 4 theorems (Finset sums, permutations, Matrix algebra over a field) + exact / Float differential correspondence on transformed data and metamorphic real fits',
   ref='12.3/C12'),
 'C14': dict(
   text='Theorems about the structural model of terms.py / core.py (Model/TermAlgebra.lean): TermList(...) and + flatten nested lists and keep the first term of each info key (associative, order-preserving, duplicate-free, complete, idempotent); plural assignments are distributed over the non-intercept terms in order and read back flattened, scalars broadcast, wrong lengths rejected, validity preserved; every constructed term, tensor term (with by and verbose) and term list is rebuilt identically from its info, also after compile on the same data; get_params / set_params filter, ignore, force and read back exactly as documented and set_params(**get_params()) is the identity; GAM plural keywords are stored, handed to the term list at fit, and superseded by later assignments. Correspondence: the executable model against pygam on random expressions, assignments, info round trips (incl. pickle / deepcopy), parameter dictionaries and GAM keyword histories; behavioural oracle: identical columns / penalties / constraints from original, rebuilt, deep-copied and pickled terms.',
   note=NOTE_COMMON + 'Two recorded known findings (plural setter AttributeError when a term lacks the attribute; duplicate keys after a plural assignment are de-duplicated on rebuild) are reported as KNOWN-FINDING. The equality of matrices is an oracle on the real code; the theorems reduce it to equality of the state the matrices are computed from.',
   technique='Lean 4 theorems (list induction over a structural model of the term classes) + differential correspondence on random term programs and assignment histories',
   ref='12.3/C14'),
 'C13': dict(
   text='Theorems (ordered field, from the minimiser property of the penalised normal equations, C01): along increasing lam of one penalty P with everything else R held fixed, the penalty value b^T P b never increases and RSS + b^T R b never decreases; the weighted RSS itself never decreases when nothing else is penalised (rss_monotone) and is NOT monotone in general when another penalty is held fixed (rss_not_monotone_in_general, exact 2 x 2 witness, replayed on the real code every run: known finding); squeeze inequalities J(b_lam) <= F(b0)/lam, F(b_lam) <= F(b0) and weighted distance of the fitted values from any null-space fit <= F(b0) - F(b_lam) (lam -> infinity limit; straight lines are unpenalised by the second-difference penalty, zero by a ridge); lam = 0 gives the normal equations of weighted least squares with the fixed part alone; edof(lam) = sum_j a_j / (1 + lam gamma_j) under a simultaneous diagonalisation, non-increasing (edof_*_partial). Correspondence: real fits along lam paths (each penalty separately and jointly, 0 and 1e-6..1e9) against the exact model normal equations / penalty values at the real coefficients and against NumPy closed forms (augmented least squares, hat-matrix trace, null-space fit).',
   note=NOTE_COMMON + 'PARTIAL: edof monotonicity is proved under the hypothesis of a simultaneous diagonalisation (existence = generalised symmetric eigenproblem, not proved) and checked on the real code; the RSS clause holds and is proved only in the restricted form above (KNOWN-FINDING C13-rss-decreases-with-other-penalties-fixed). Path points whose accuracy model (eps x cond of the stacked system) exceeds 1e-3 are not judged.',
   technique='Lean 4 theorems (ordered-field inequalities from the minimiser property; Matrix trace algebra) + correspondence on lam paths of real fits + NumPy closed forms',
   ref='12.3/C13'),
}
PENDING = []

def main():
    checks = []
    for pid in sorted(CHECKS):
        c = CHECKS[pid]
        checks.append(dict(
            property_id=pid,
            quick_cmd='./check %s --tier quick' % pid,
            thorough_cmd='./check %s --tier thorough' % pid,
            evidence_file='evidence/%s.json' % pid,
            replay_cmd_template='./check %s --replay {path}' % pid,
            engine='lean4-proof+correspondence',
            level_claimed=dict(category='proof', text=c['text'], design_ref='DESIGN.md section ' + c['ref']),
            level_note=c['note'],
            technique=c['technique'],
        ))
    m = dict(
        version=1,
        setup_cmd='sh tools/setup.sh',
        hooks=dict(guard='PYGAM_VERIF', enable='no source hooks: checks import /repo in-process (PYTHONPATH=/repo) and observe through the public API, user callbacks and numpy.random patching inside the harness process',
                   baseline_off_cmd='cd /repo && /venv/bin/python -m pytest -ra -q -p no:cacheprovider --timeout=900 --continue-on-collection-errors',
                   source_commits=[], add_only=True),
        engines=[dict(name='lean4-proof+correspondence', path='lean/ + harness/', serves_properties=sorted(CHECKS),
                      kind_free_text='Lean 4 model + theorems (lake build, #print axioms audit) and a Python differential harness driving the compiled Lean model through a line protocol')],
        checks=checks,
        notes='See DESIGN.md. known_findings.json lists recorded (known) findings and repaired (fixed) defects.',
        not_applicable=[dict(property_id=p, reason='check not yet built at this commit (construction in progress, see DESIGN.md section 8.1); not claimed') for p in PENDING if p not in CHECKS],
    )
    json.dump(m, open(os.path.join(HERE, 'MANIFEST.json'), 'w'), indent=1)
    print('checks:', len(checks), 'pending:', len(m['not_applicable']))

if __name__ == '__main__':
    main()
