"""Writes /verif/known_findings.json (run by hand when a finding is recorded; never at check time)."""
import json, subprocess, sys
tab = json.loads(subprocess.check_output(['/venv/bin/python', 'tools/gen_known_c04.py']))
fixed=[
("C06","69956eb","NormalDist.log_pdf passed the variance `scale` as a standard deviation: deviance != 2*scale*(ll_sat - ll) for scale != 1"),
("C06","fc87fb7","InvGaussDist.log_pdf mis-parameterised scipy invgauss for scale != 1"),
("C06","dc8fee8","InvGaussDist.sample passed the dispersion as numpy wald's shape: variance mu^3/scale instead of scale*mu^3"),
("C08","0cb1818","UBRE used ~add_scale (= -2): spurious + 2*scale"),
("C08","056caeb","McFadden R^2 = ll/ll0 without the `1 -`"),
("C20","3365568","LinearGAM.__init__ dropped `callbacks`"),
("C11","2ea8f2c","binomial levels > 1 and y == levels: AssertionError in _initial_estimate instead of a fit / ValueError"),
("C02","ad1afe6","default grid of a tensor term left the by-variable at 0: partial dependence identically 0"),
("C01","cb887f3","n < m: SVD factor truncated (U[:k,:k], Dinv m x k): coefficients not a stationary point, fitted values != closed form"),
("C08","cb887f3","n < m: edof != trace of the influence matrix, covariance != sandwich formula (same truncation)"),
("C03","53da556","periodic basis wrapped with period (1+1e-9) x knot range; ValueError for x within 1e-9 left of the first edge knot"),
("C15","64f7716","spline edge knots kept once set: refit on other data / second model from the same expression != fresh fit"),
("C14","64f7716","custom edge_knots not part of a spline term's info: lost by build_from_info, and s(0) vs s(0, edge_knots=...) treated as duplicates"),
("C14","9fc7f74","TensorTerm.build_from_info dropped `by`"),
("C15","9abed56","models built from one term expression shared term objects: fitting one changed the other's predictions"),
("C11","23747ff","GAM.score did not validate y / weights (NaN in, NaN out)"),
("C11","49f6635","PoissonGAM.predict did not validate exposure"),
("C11","4995b55","sample() with n_bootstraps=1 ignored NaN / wrong-length y and weights"),
("C11","1f61752","PoissonGAM.fit(list y): AttributeError"),
("C11","293fa99","gridsearch on an unfitted model with list X: AttributeError; X used before validation"),
("C16","8d98a70","te(f(a), f(b), by=k) (all marginals of order 0): build_columns raised UFuncTypeError (int basis *= float by) instead of multiplying the rows by the by-variable"),
("C02","c103169","partial_dependence(term) on the default grid raised ValueError (categorical domain of *other* factor terms checked on the zero-filled grid) whenever the model has a factor term whose codes do not include 0"),
("C15","8a235dd","two unfitted models built from one term expression shared the term objects: a.set_params(lam=...) changed b (and the expression), b.fit differed from a fresh model"),
("C15","fde4848","after gridsearch(keep_best=True) self and the returned winner shared terms / distribution / logs: changing self changed the winner's predictions"),
("C20","0a01318","user callback hook with a local variable rejected (co_varnames includes locals): AssertionError 'CallBack cannot reference'"),
("C15","3531369","refit on other data warm-started from the old coef_ could raise OptimizationError although a fresh model fits the same data (LogisticGAM s(0, n_splines=20, lam=0.01))"),
("C10","3531369","a gridsearch candidate warm-started from the previous candidate's coef_ could diverge and be skipped although a cold fit succeeds: the set of fitted candidates depended on grid order"),
("C15","b32bdf3","a refit warm-started from the previous coef_ could run to max_iter without converging (deviance 3e115) where a fresh model converges: fit was not history-free"),
("C11","bb91cd4","loglikelihood(X[:1], y) / loglikelihood(X, y[:1]) returned a number (no X/y length check)"),
("C11","44955df","fit_quantile on a fitted model within tol returned without validating NaN / wrong-length weights"),
("C11","1b062ba","tiny valid targets / huge features made fit raise AssertionError instead of a ValueError"),
("C11","7357099","fitted.gridsearch(X with too few columns, y) swallowed every candidate's ValueError and returned the old model"),
("C11","4c0952c","gridsearch with only NaN scores raised AttributeError ('NoneType' has no get_params) on valid data"),
("C11","836f28f","a diverged (non-converged) fit returned finite coef_ but NaN / Inf predictions on its training data"),
("C09","ef1c7f7","NaN quantile levels / widths were accepted and produced NaN bounds"),
("C08","3b6288b","weighted log-likelihood (hence AIC, AICc, McFadden) evaluated partly in float32: 1e-7..1e-6 relative error whenever sample weights were passed"),
("C11","40fb32b","PoissonGAM.fit / gridsearch with numeric-string or None-containing y: TypeError instead of a cast / ValueError"),
("C19","6a443b0","PoissonGAM.gridsearch with exposure/weights != 1: GAM.gridsearch passed weights positionally, PoissonGAM.fit took them as exposure (rates divided twice, candidates unweighted)"),
("C10","6a443b0","gridsearch candidate scores of a PoissonGAM with weights differed from an independent fit with those hyper-parameters (same positional-argument defect)"),
("C11","c2e8abf","fit_quantile on a fitted model returned without validating y when already within tol"),
]
kf={"comment":"known findings (status=known: reported as KNOWN-FINDING, exit 0) and repaired defects (status=fixed: suppress nothing). Never written at run time.",
"findings":[{"id":"C04-periodic-penalty","property":"C04","status":"known",
 "selector":{"penalty":"periodic","nd_digest":tab},
 "what":"penalties.periodic(n, coef, derivative=d) is not the cyclic difference penalty: e.g. periodic(2, None, derivative=1) = [[4,4],[4,4]] gives c'Pc = 16 for the constant c = (1,1) (and ValueError 'inconsistent shapes' for 1 < n < d+... small n). Selector = the exact wrong matrix / exception per (n,d) of the check grids. Not repaired: the cyclic form changes fitted values under the default lam, and pygam/tests/test_terms.py::test_cyclic_p_spline_custom_period asserts allclose(predict, square wave) for 4 cyclic order-0 functions, which only the accidental matrix (penalising just c0-c1+c2-c3) satisfies."}]
+[
 {"id":"C10-fit-intercept-grid-ignored","property":"C10","status":"known","selector":{"known":"C10-fit-intercept-grid-ignored"},
  "what":"gridsearch over fit_intercept is ignored once the intercept term is in the term list: LinearGAM(s(0, n_splines=6)).gridsearch(X, y, fit_intercept=[True, False]) fits two identical 7-coefficient models (same GCV), an independent LinearGAM(..., fit_intercept=False) has 6 coefficients and another GCV. Not repaired: the auto-added intercept cannot be told from a user-specified one without a design change."},
 {"id":"C10-joint-grid-sequential-validation","property":"C10","status":"known","selector":{"known":"C10-joint-grid-sequential-validation"},
  "what":"joint grid over n_splines x spline_order: candidates whose hyper-parameters are valid together but invalid half-way through the sequential set_params (e.g. n_splines=3 with the old spline_order=3) raise ValueError and are skipped, depending on keyword order: LinearGAM(s(0, n_splines=6, spline_order=3)).gridsearch(X, y, n_splines=[3, 6], spline_order=[1, 3]) fits only (6,1), (6,3). Not repaired: needs deferred validation across a multi-parameter assignment."},
 {"id":"C10-plural-setter-attributeerror","property":"C10","status":"known","selector":{"known":"C10-plural-setter-attributeerror"},
  "what":"a grid over a plural parameter that some term does not have (LinearGAM(s(0) + l(1)).gridsearch(X, y, n_splines=[5, 7])) raises AttributeError from MetaTermMixin.__setattr__ (getattr(term, name) without default) instead of distributing the values to the terms that have the parameter. Not repaired: which terms should receive values is a design decision."}]
+[{"property":p,"status":"fixed","commit":c,"what":w} for p,c,w in fixed]}
json.dump(kf,open('known_findings.json','w'),indent=1)
print(len(tab), 'digests;', len(fixed), 'fixed entries')
