#!/usr/bin/env python3
"""
Translator: regenerates lean/PyGam/Gen/Tables.lean from /repo's CURRENT source on every run.

Only the part of pyGAM that is a *table* is translatable mechanically: registries (PENALTIES, CONSTRAINTS, LINKS,
DISTRIBUTIONS, CALLBACKS), default values of keyword arguments, internal constants (constraint strength, GCV gamma)
and the local-variable names a callback hook may bind.  The generated file is plain data (strings, naturals,
rationals); the property files prove that the hand-written model uses exactly these values
(`PyGam/Props/*.lean`, theorems named `gen_*`).  A change of a default or of a registry in the source therefore changes
the generated table and breaks one of those proof obligations at `lake build`.

The translator reads the source with `ast` only (nothing is imported or executed).
"""
import ast
import os
import sys
from fractions import Fraction

REPO = os.environ.get('PYGAM_REPO', '/repo')
HERE = os.path.dirname(os.path.dirname(os.path.abspath(__file__)))
OUT = os.path.join(HERE, 'lean', 'PyGam', 'Gen', 'Tables.lean')


def parse(name):
    return ast.parse(open(os.path.join(REPO, 'pygam', name)).read())


def find_class(tree, name):
    for n in tree.body:
        if isinstance(n, ast.ClassDef) and n.name == name:
            return n
    return None


def find_func(scope, name):
    for n in scope.body:
        if isinstance(n, ast.FunctionDef) and n.name == name:
            return n
    return None


def defaults_of(fn):
    """{arg name: ast node of its default}"""
    if fn is None:
        return {}
    args = fn.args
    pos = args.args
    d = {}
    for a, v in zip(pos[len(pos) - len(args.defaults):], args.defaults):
        d[a.arg] = v
    for a, v in zip(args.kwonlyargs, args.kw_defaults):
        if v is not None:
            d[a.arg] = v
    return d


def lit(node):
    try:
        return ast.literal_eval(node)
    except Exception:
        return None


def dict_keys(tree, name):
    for n in tree.body:
        if isinstance(n, ast.Assign) and len(n.targets) == 1 and isinstance(n.targets[0], ast.Name) and n.targets[0].id == name:
            if isinstance(n.value, ast.Dict):
                return sorted(lit(k) for k in n.value.keys)
    return None


def self_assign(fn, attr):
    """value node of `self.<attr> = <literal>` inside fn"""
    if fn is None:
        return None
    for n in ast.walk(fn):
        if isinstance(n, ast.Assign) and len(n.targets) == 1:
            t = n.targets[0]
            if isinstance(t, ast.Attribute) and isinstance(t.value, ast.Name) and t.value.id == 'self' and t.attr == attr:
                return n.value
    return None


def class_attr(cls, attr):
    if cls is None:
        return None
    for n in cls.body:
        if isinstance(n, ast.Assign) and len(n.targets) == 1 and isinstance(n.targets[0], ast.Name) and n.targets[0].id == attr:
            return n.value
    return None


# ---------------------------------------------------------------------------------------------------------
# Lean rendering
# ---------------------------------------------------------------------------------------------------------
def lstr(s):
    return '"' + str(s).replace('\\', '\\\\').replace('"', '\\"') + '"'


def lstrs(xs):
    return 'none' if xs is None else 'some [' + ', '.join(lstr(x) for x in xs) + ']'


def lnat(v):
    return 'none' if not isinstance(v, int) or isinstance(v, bool) or v < 0 else 'some %d' % v


def lrat(v):
    if isinstance(v, bool) or not isinstance(v, (int, float)):
        return 'none'
    q = Fraction(repr(v)) if isinstance(v, float) else Fraction(v)
    return 'some (mkRat %d %d)' % (q.numerator, q.denominator)


def lbool(v):
    return 'none' if not isinstance(v, bool) else ('some true' if v else 'some false')


def pirls_locals(fn):
    """(names bound before the first self._on_loop_start(vars()) call, names bound between it and _on_loop_end)
    in the loop body of _pirls; function arguments included, `self` renamed to `gam` as validate_callback_data does"""
    if fn is None:
        return None, None
    start, end = [], []
    names = ['gam'] + [a.arg for a in fn.args.args if a.arg != 'self']
    state = {'phase': 0}

    def add(n, into):
        if n not in names and n not in start and n not in end:
            into.append(n)

    def targets(node, into):
        for t in ast.walk(node):
            if isinstance(t, ast.Name) and isinstance(t.ctx, ast.Store):
                add(t.id, into)

    def visit(stmts):
        for s in stmts:
            if state['phase'] == 2:
                return
            is_call = lambda s, nm: (isinstance(s, ast.Expr) and isinstance(s.value, ast.Call) and isinstance(s.value.func, ast.Attribute)
                                     and s.value.func.attr == nm)
            if is_call(s, '_on_loop_start'):
                state['phase'] = 1
                continue
            if is_call(s, '_on_loop_end'):
                state['phase'] = 2
                return
            into = start if state['phase'] == 0 else end
            if isinstance(s, ast.For):
                targets(s.target, into)
                visit(s.body)
            elif isinstance(s, (ast.If, ast.While, ast.With, ast.Try)):
                # conditionally bound names (C only exists with constraints) are reported separately
                for sub in getattr(s, 'body', []):
                    pass
                cond = []
                for sub in ast.walk(s):
                    if isinstance(sub, ast.Name) and isinstance(sub.ctx, ast.Store):
                        cond.append(sub.id)
                for c in cond:
                    if state['phase'] == 0:
                        add(c, start)
                    else:
                        add(c, end)
                # calls nested in conditionals do not switch the phase
            else:
                targets(s, into)
    visit(fn.body)
    return sorted(set(names + start)), sorted(set(end))


def main():
    pen = parse('penalties.py')
    links = parse('links.py')
    dists = parse('distributions.py')
    cbs = parse('callbacks.py')
    terms = parse('terms.py')
    pg = parse('pygam.py')

    gam = find_class(pg, 'GAM')
    g_init = find_func(gam, '__init__') if gam else None
    gd = defaults_of(g_init)
    gcv = defaults_of(find_func(gam, '_estimate_GCV_UBRE') if gam else None)
    smp = defaults_of(find_func(gam, 'sample') if gam else None)
    egam = find_class(pg, 'ExpectileGAM')
    fq = defaults_of(find_func(egam, 'fit_quantile') if egam else None)
    egd = defaults_of(find_func(egam, '__init__') if egam else None)

    spl = defaults_of(find_func(find_class(terms, 'SplineTerm'), '__init__') if find_class(terms, 'SplineTerm') else None)
    lin = defaults_of(find_func(find_class(terms, 'LinearTerm'), '__init__') if find_class(terms, 'LinearTerm') else None)
    fac = defaults_of(find_func(find_class(terms, 'FactorTerm'), '__init__') if find_class(terms, 'FactorTerm') else None)
    trm = defaults_of(find_func(find_class(terms, 'Term'), '__init__') if find_class(terms, 'Term') else None)
    tens = find_class(terms, 'TensorTerm')

    der = defaults_of(find_func(pen, 'derivative'))
    per = defaults_of(find_func(pen, 'periodic'))

    classes = ['GAM', 'LinearGAM', 'LogisticGAM', 'PoissonGAM', 'GammaGAM', 'InvGaussGAM', 'ExpectileGAM']
    cls_cb = {}
    cls_args = {}
    for c in classes:
        node = find_class(pg, c)
        fn = find_func(node, '__init__') if node else None
        d = defaults_of(fn)
        cls_cb[c] = lit(d.get('callbacks')) if 'callbacks' in d else None
        cls_args[c] = sorted(a.arg for a in fn.args.args if a.arg != 'self') if fn else None
    start_vars, end_vars = pirls_locals(find_func(gam, '_pirls') if gam else None)

    L = []
    L.append('/-! GENERATED by tools/translate.py from %s — do not edit.  Regenerated on every check run. -/' % os.path.join(REPO, 'pygam'))
    L.append('namespace PyGam.Gen')
    L.append('')
    L.append('/-- sorted keys of the registries -/')
    L.append('def penaltyNames : Option (List String) := %s' % lstrs(dict_keys(pen, 'PENALTIES')))
    L.append('def constraintNames : Option (List String) := %s' % lstrs(dict_keys(pen, 'CONSTRAINTS')))
    L.append('def linkNames : Option (List String) := %s' % lstrs(dict_keys(links, 'LINKS')))
    L.append('def distributionNames : Option (List String) := %s' % lstrs(dict_keys(dists, 'DISTRIBUTIONS')))
    L.append('def callbackNames : Option (List String) := %s' % lstrs(dict_keys(cbs, 'CALLBACKS')))
    L.append('')
    L.append('/-- `penalties.derivative(n, coef, derivative=?)`, `penalties.periodic(n, coef, derivative=?)` -/')
    L.append('def derivativeOrderDefault : Option Nat := %s' % lnat(lit(der.get('derivative'))))
    L.append('def periodicOrderDefault : Option Nat := %s' % lnat(lit(per.get('derivative'))))
    L.append('')
    L.append('/-- term defaults -/')
    L.append('def termLamDefault : Option Rat := %s' % lrat(lit(trm.get('lam'))))
    L.append('def splineLamDefault : Option Rat := %s' % lrat(lit(spl.get('lam'))))
    L.append('def linearLamDefault : Option Rat := %s' % lrat(lit(lin.get('lam'))))
    L.append('def factorLamDefault : Option Rat := %s' % lrat(lit(fac.get('lam'))))
    L.append('def splineNSplinesDefault : Option Nat := %s' % lnat(lit(spl.get('n_splines'))))
    L.append('def splineOrderDefault : Option Nat := %s' % lnat(lit(spl.get('spline_order'))))
    L.append('def splinePenaltiesDefault : Option String := %s' % ('some ' + lstr(lit(spl.get('penalties'))) if isinstance(lit(spl.get('penalties')), str) else 'none'))
    L.append('def splineBasisDefault : Option String := %s' % ('some ' + lstr(lit(spl.get('basis'))) if isinstance(lit(spl.get('basis')), str) else 'none'))
    L.append('def factorCodingDefault : Option String := %s' % ('some ' + lstr(lit(fac.get('coding'))) if isinstance(lit(fac.get('coding')), str) else 'none'))
    L.append('def tensorNSplinesDefault : Option Nat := %s' % lnat(lit(class_attr(tens, '_N_SPLINES'))))
    L.append('')
    L.append('/-- `GAM.__init__` defaults and internal constants -/')
    L.append('def maxIterDefault : Option Nat := %s' % lnat(lit(gd.get('max_iter'))))
    L.append('def tolDefault : Option Rat := %s' % lrat(lit(gd.get('tol'))))
    L.append('def fitInterceptDefault : Option Bool := %s' % lbool(lit(gd.get('fit_intercept'))))
    L.append('def constraintLam : Option Rat := %s' % lrat(lit(self_assign(g_init, '_constraint_lam'))))
    L.append('def constraintL2 : Option Rat := %s' % lrat(lit(self_assign(g_init, '_constraint_l2'))))
    L.append('def constraintL2Max : Option Rat := %s' % lrat(lit(self_assign(g_init, '_constraint_l2_max'))))
    L.append('')
    L.append('/-- `_estimate_GCV_UBRE(gamma=?, add_scale=?)` -/')
    L.append('def gcvGamma : Option Rat := %s' % lrat(lit(gcv.get('gamma'))))
    L.append('def ubreAddScale : Option Bool := %s' % lbool(lit(gcv.get('add_scale'))))
    L.append('')
    L.append('/-- `sample(n_draws=?, n_bootstraps=?)`, `fit_quantile(max_iter=?, tol=?)`, `ExpectileGAM(expectile=?)` -/')
    L.append('def sampleNDraws : Option Nat := %s' % lnat(lit(smp.get('n_draws'))))
    L.append('def sampleNBootstraps : Option Nat := %s' % lnat(lit(smp.get('n_bootstraps'))))
    L.append('def sampleQuantityDefault : Option String := %s' % ('some ' + lstr(lit(smp.get('quantity'))) if isinstance(lit(smp.get('quantity')), str) else 'none'))
    L.append('def fitQuantileMaxIter : Option Nat := %s' % lnat(lit(fq.get('max_iter'))))
    L.append('def fitQuantileTol : Option Rat := %s' % lrat(lit(fq.get('tol'))))
    L.append('def expectileDefault : Option Rat := %s' % lrat(lit(egd.get('expectile'))))
    L.append('')
    L.append('/-- default `callbacks=` of every model class constructor, and the constructor argument names -/')
    L.append('def classCallbacks : List (String × Option (List String)) :=')
    L.append('  [' + ',\n   '.join('(%s, %s)' % (lstr(c), lstrs(cls_cb[c]) if isinstance(cls_cb[c], list) else 'none') for c in classes) + ']')
    L.append('def classCtorArgs : List (String × Option (List String)) :=')
    L.append('  [' + ',\n   '.join('(%s, %s)' % (lstr(c), lstrs(cls_args[c])) for c in classes) + ']')
    L.append('')
    L.append('/-- names a callback hook can bind: locals of `_pirls` (sorted) before `_on_loop_start`, and the ones added before `_on_loop_end` -/')
    L.append('def pirlsStartVars : Option (List String) := %s' % lstrs(start_vars))
    L.append('def pirlsEndOnlyVars : Option (List String) := %s' % lstrs(end_vars))
    L.append('')
    L.append('end PyGam.Gen')
    text = '\n'.join(L) + '\n'
    os.makedirs(os.path.dirname(OUT), exist_ok=True)
    old = open(OUT).read() if os.path.exists(OUT) else None
    if old != text:
        with open(OUT, 'w') as fh:
            fh.write(text)
        print('translate: wrote', os.path.relpath(OUT, HERE))
    return 0


if __name__ == '__main__':
    sys.exit(main())
