#!/usr/bin/env python3
"""
Translator: regenerates lean/PyGam/Gen/Tables.lean from /repo's CURRENT source on every run.

Only the part of pyGAM that is a *table* is translatable mechanically: registries (PENALTIES, CONSTRAINTS, LINKS,
DISTRIBUTIONS, CALLBACKS), default values of keyword arguments, internal constants (constraint strength, GCV gamma)
and the local-variable names a callback hook may bind.  The generated file is plain data (strings, naturals,
rationals); the property files prove that the hand-written model uses exactly these values
(`PyGam/Props/*.lean`, theorems named `gen_*`).  A change of a default or of a registry in the source therefore changes
the generated table and breaks one of those proof obligations at `lake build`.

The translator reads the source with `ast` only (nothing is imported or executed).

Second output (same run): lean/PyGam/Gen/Formulas.lean — the STRAIGHT-LINE ARITHMETIC functions of pyGAM (link /
inverse link / link gradient, variance functions, deviances, `Distribution.phi`, the PIRLS weight and pseudo data, the
closed-form model statistics) translated into Lean definitions over the same notation classes as the hand-written
models; the property files prove (`gen_formula_*` theorems) that each generated definition IS the model definition.
See the section "Formulas" below for the supported Python subset and the translation rules.
"""
import ast
import os
import re
import sys
from fractions import Fraction

REPO = os.environ.get('PYGAM_REPO', '/repo')
HERE = os.path.dirname(os.path.dirname(os.path.abspath(__file__)))
OUT = os.path.join(HERE, 'lean', 'PyGam', 'Gen', 'Tables.lean')
OUT_FORMULAS = os.path.join(HERE, 'lean', 'PyGam', 'Gen', 'Formulas.lean')
OUT_DECISIONS = os.path.join(HERE, 'lean', 'PyGam', 'Gen', 'Decisions.lean')


def parse(name):
    return ast.parse(open(os.path.join(REPO, 'pygam', name)).read())


def find_class(tree, name):
    for n in tree.body:
        if isinstance(n, ast.ClassDef) and n.name == name:
            return n
    return None


def find_func(scope, name):
    for n in scope.body:
        if isinstance(n, ast.FunctionDef) and n.name == name:
            return n
    return None


def defaults_of(fn):
    """{arg name: ast node of its default}"""
    if fn is None:
        return {}
    args = fn.args
    pos = args.args
    d = {}
    for a, v in zip(pos[len(pos) - len(args.defaults):], args.defaults):
        d[a.arg] = v
    for a, v in zip(args.kwonlyargs, args.kw_defaults):
        if v is not None:
            d[a.arg] = v
    return d


def lit(node):
    try:
        return ast.literal_eval(node)
    except Exception:
        return None


def dict_keys(tree, name):
    for n in tree.body:
        if isinstance(n, ast.Assign) and len(n.targets) == 1 and isinstance(n.targets[0], ast.Name) and n.targets[0].id == name:
            if isinstance(n.value, ast.Dict):
                return sorted(lit(k) for k in n.value.keys)
    return None


def self_assign(fn, attr):
    """value node of `self.<attr> = <literal>` inside fn"""
    if fn is None:
        return None
    for n in ast.walk(fn):
        if isinstance(n, ast.Assign) and len(n.targets) == 1:
            t = n.targets[0]
            if isinstance(t, ast.Attribute) and isinstance(t.value, ast.Name) and t.value.id == 'self' and t.attr == attr:
                return n.value
    return None


def class_attr(cls, attr):
    if cls is None:
        return None
    for n in cls.body:
        if isinstance(n, ast.Assign) and len(n.targets) == 1 and isinstance(n.targets[0], ast.Name) and n.targets[0].id == attr:
            return n.value
    return None


# ---------------------------------------------------------------------------------------------------------
# Lean rendering
# ---------------------------------------------------------------------------------------------------------
def lstr(s):
    return '"' + str(s).replace('\\', '\\\\').replace('"', '\\"') + '"'


def lstrs(xs):
    return 'none' if xs is None else 'some [' + ', '.join(lstr(x) for x in xs) + ']'


def lnat(v):
    return 'none' if not isinstance(v, int) or isinstance(v, bool) or v < 0 else 'some %d' % v


def lrat(v):
    if isinstance(v, bool) or not isinstance(v, (int, float)):
        return 'none'
    q = Fraction(repr(v)) if isinstance(v, float) else Fraction(v)
    return 'some (mkRat %d %d)' % (q.numerator, q.denominator)


def lbool(v):
    return 'none' if not isinstance(v, bool) else ('some true' if v else 'some false')


def pirls_locals(fn):
    """(names bound before the first self._on_loop_start(vars()) call, names bound between it and _on_loop_end)
    in the loop body of _pirls; function arguments included, `self` renamed to `gam` as validate_callback_data does"""
    if fn is None:
        return None, None
    start, end = [], []
    names = ['gam'] + [a.arg for a in fn.args.args if a.arg != 'self']
    state = {'phase': 0}

    def add(n, into):
        if n not in names and n not in start and n not in end:
            into.append(n)

    def targets(node, into):
        for t in ast.walk(node):
            if isinstance(t, ast.Name) and isinstance(t.ctx, ast.Store):
                add(t.id, into)

    def visit(stmts):
        for s in stmts:
            if state['phase'] == 2:
                return
            is_call = lambda s, nm: (isinstance(s, ast.Expr) and isinstance(s.value, ast.Call) and isinstance(s.value.func, ast.Attribute)
                                     and s.value.func.attr == nm)
            if is_call(s, '_on_loop_start'):
                state['phase'] = 1
                continue
            if is_call(s, '_on_loop_end'):
                state['phase'] = 2
                return
            into = start if state['phase'] == 0 else end
            if isinstance(s, ast.For):
                targets(s.target, into)
                visit(s.body)
            elif isinstance(s, (ast.If, ast.While, ast.With, ast.Try)):
                # conditionally bound names (C only exists with constraints) are reported separately
                for sub in getattr(s, 'body', []):
                    pass
                cond = []
                for sub in ast.walk(s):
                    if isinstance(sub, ast.Name) and isinstance(sub.ctx, ast.Store):
                        cond.append(sub.id)
                for c in cond:
                    if state['phase'] == 0:
                        add(c, start)
                    else:
                        add(c, end)
                # calls nested in conditionals do not switch the phase
            else:
                targets(s, into)
    visit(fn.body)
    return sorted(set(names + start)), sorted(set(end))


def tables_main():
    pen = parse('penalties.py')
    links = parse('links.py')
    dists = parse('distributions.py')
    cbs = parse('callbacks.py')
    terms = parse('terms.py')
    pg = parse('pygam.py')

    gam = find_class(pg, 'GAM')
    g_init = find_func(gam, '__init__') if gam else None
    gd = defaults_of(g_init)
    gcv = defaults_of(find_func(gam, '_estimate_GCV_UBRE') if gam else None)
    smp = defaults_of(find_func(gam, 'sample') if gam else None)
    egam = find_class(pg, 'ExpectileGAM')
    fq = defaults_of(find_func(egam, 'fit_quantile') if egam else None)
    egd = defaults_of(find_func(egam, '__init__') if egam else None)

    spl = defaults_of(find_func(find_class(terms, 'SplineTerm'), '__init__') if find_class(terms, 'SplineTerm') else None)
    lin = defaults_of(find_func(find_class(terms, 'LinearTerm'), '__init__') if find_class(terms, 'LinearTerm') else None)
    fac = defaults_of(find_func(find_class(terms, 'FactorTerm'), '__init__') if find_class(terms, 'FactorTerm') else None)
    trm = defaults_of(find_func(find_class(terms, 'Term'), '__init__') if find_class(terms, 'Term') else None)
    tens = find_class(terms, 'TensorTerm')

    der = defaults_of(find_func(pen, 'derivative'))
    per = defaults_of(find_func(pen, 'periodic'))

    classes = ['GAM', 'LinearGAM', 'LogisticGAM', 'PoissonGAM', 'GammaGAM', 'InvGaussGAM', 'ExpectileGAM']
    cls_cb = {}
    cls_args = {}
    for c in classes:
        node = find_class(pg, c)
        fn = find_func(node, '__init__') if node else None
        d = defaults_of(fn)
        cls_cb[c] = lit(d.get('callbacks')) if 'callbacks' in d else None
        cls_args[c] = sorted(a.arg for a in fn.args.args if a.arg != 'self') if fn else None
    start_vars, end_vars = pirls_locals(find_func(gam, '_pirls') if gam else None)

    L = []
    L.append('/-! GENERATED by tools/translate.py from %s — do not edit.  Regenerated on every check run. -/' % os.path.join(REPO, 'pygam'))
    L.append('namespace PyGam.Gen')
    L.append('')
    L.append('/-- sorted keys of the registries -/')
    L.append('def penaltyNames : Option (List String) := %s' % lstrs(dict_keys(pen, 'PENALTIES')))
    L.append('def constraintNames : Option (List String) := %s' % lstrs(dict_keys(pen, 'CONSTRAINTS')))
    L.append('def linkNames : Option (List String) := %s' % lstrs(dict_keys(links, 'LINKS')))
    L.append('def distributionNames : Option (List String) := %s' % lstrs(dict_keys(dists, 'DISTRIBUTIONS')))
    L.append('def callbackNames : Option (List String) := %s' % lstrs(dict_keys(cbs, 'CALLBACKS')))
    L.append('')
    L.append('/-- `penalties.derivative(n, coef, derivative=?)`, `penalties.periodic(n, coef, derivative=?)` -/')
    L.append('def derivativeOrderDefault : Option Nat := %s' % lnat(lit(der.get('derivative'))))
    L.append('def periodicOrderDefault : Option Nat := %s' % lnat(lit(per.get('derivative'))))
    L.append('')
    L.append('/-- term defaults -/')
    L.append('def termLamDefault : Option Rat := %s' % lrat(lit(trm.get('lam'))))
    L.append('def splineLamDefault : Option Rat := %s' % lrat(lit(spl.get('lam'))))
    L.append('def linearLamDefault : Option Rat := %s' % lrat(lit(lin.get('lam'))))
    L.append('def factorLamDefault : Option Rat := %s' % lrat(lit(fac.get('lam'))))
    L.append('def splineNSplinesDefault : Option Nat := %s' % lnat(lit(spl.get('n_splines'))))
    L.append('def splineOrderDefault : Option Nat := %s' % lnat(lit(spl.get('spline_order'))))
    L.append('def splinePenaltiesDefault : Option String := %s' % ('some ' + lstr(lit(spl.get('penalties'))) if isinstance(lit(spl.get('penalties')), str) else 'none'))
    L.append('def splineBasisDefault : Option String := %s' % ('some ' + lstr(lit(spl.get('basis'))) if isinstance(lit(spl.get('basis')), str) else 'none'))
    L.append('def factorCodingDefault : Option String := %s' % ('some ' + lstr(lit(fac.get('coding'))) if isinstance(lit(fac.get('coding')), str) else 'none'))
    L.append('def tensorNSplinesDefault : Option Nat := %s' % lnat(lit(class_attr(tens, '_N_SPLINES'))))
    L.append('')
    L.append('/-- `GAM.__init__` defaults and internal constants -/')
    L.append('def maxIterDefault : Option Nat := %s' % lnat(lit(gd.get('max_iter'))))
    L.append('def tolDefault : Option Rat := %s' % lrat(lit(gd.get('tol'))))
    L.append('def fitInterceptDefault : Option Bool := %s' % lbool(lit(gd.get('fit_intercept'))))
    L.append('def constraintLam : Option Rat := %s' % lrat(lit(self_assign(g_init, '_constraint_lam'))))
    L.append('def constraintL2 : Option Rat := %s' % lrat(lit(self_assign(g_init, '_constraint_l2'))))
    L.append('def constraintL2Max : Option Rat := %s' % lrat(lit(self_assign(g_init, '_constraint_l2_max'))))
    L.append('')
    L.append('/-- `_estimate_GCV_UBRE(gamma=?, add_scale=?)` -/')
    L.append('def gcvGamma : Option Rat := %s' % lrat(lit(gcv.get('gamma'))))
    L.append('def ubreAddScale : Option Bool := %s' % lbool(lit(gcv.get('add_scale'))))
    L.append('')
    L.append('/-- `sample(n_draws=?, n_bootstraps=?)`, `fit_quantile(max_iter=?, tol=?)`, `ExpectileGAM(expectile=?)` -/')
    L.append('def sampleNDraws : Option Nat := %s' % lnat(lit(smp.get('n_draws'))))
    L.append('def sampleNBootstraps : Option Nat := %s' % lnat(lit(smp.get('n_bootstraps'))))
    L.append('def sampleQuantityDefault : Option String := %s' % ('some ' + lstr(lit(smp.get('quantity'))) if isinstance(lit(smp.get('quantity')), str) else 'none'))
    L.append('def fitQuantileMaxIter : Option Nat := %s' % lnat(lit(fq.get('max_iter'))))
    L.append('def fitQuantileTol : Option Rat := %s' % lrat(lit(fq.get('tol'))))
    L.append('def expectileDefault : Option Rat := %s' % lrat(lit(egd.get('expectile'))))
    L.append('')
    L.append('/-- default `callbacks=` of every model class constructor, and the constructor argument names -/')
    L.append('def classCallbacks : List (String × Option (List String)) :=')
    L.append('  [' + ',\n   '.join('(%s, %s)' % (lstr(c), lstrs(cls_cb[c]) if isinstance(cls_cb[c], list) else 'none') for c in classes) + ']')
    L.append('def classCtorArgs : List (String × Option (List String)) :=')
    L.append('  [' + ',\n   '.join('(%s, %s)' % (lstr(c), lstrs(cls_args[c])) for c in classes) + ']')
    L.append('')
    L.append('/-- names a callback hook can bind: locals of `_pirls` (sorted) before `_on_loop_start`, and the ones added before `_on_loop_end` -/')
    L.append('def pirlsStartVars : Option (List String) := %s' % lstrs(start_vars))
    L.append('def pirlsEndOnlyVars : Option (List String) := %s' % lstrs(end_vars))
    L.append('')
    L.append('end PyGam.Gen')
    text = '\n'.join(L) + '\n'
    os.makedirs(os.path.dirname(OUT), exist_ok=True)
    old = open(OUT).read() if os.path.exists(OUT) else None
    if old != text:
        with open(OUT, 'w') as fh:
            fh.write(text)
        print('translate: wrote', os.path.relpath(OUT, HERE))
    return 0


# ---------------------------------------------------------------------------------------------------------
# Formulas: translation of straight-line arithmetic functions into lean/PyGam/Gen/Formulas.lean
# ---------------------------------------------------------------------------------------------------------
# Supported Python subset (anything else makes the function "untranslatable": a placeholder of type
# `Gen.Untranslatable "<reason>"` is emitted, so that the tie theorem of that function fails to build with a
# readable message; the translator itself never fails on a source it can parse):
#   * names (parameters, locals), numeric literals, `True` / `False` / `None`
#   * unary minus, `not`, `+ - * /`, comparisons `< <= > >=` (a Bool used as a number is `if c then 1 else 0`)
#   * `x ** c` with a literal exponent c in {-3, -2, -1, -0.5, 0.5, 1, 2, 3}:
#         1/(x*x*x), 1/(x*x), 1/x, 1/sqrt x, sqrt x, x, x*x, x*x*x   (as documented in Model/Links.lean)
#   * `np.log`, `np.exp`, `np.sqrt`; `np.ones_like(x)` = 1
#   * identities: `np.asarray(x, …)`, `x.astype(…)`, `sp.sparse.diags(x)` (a diagonal matrix is its diagonal)
#   * attribute reads that the function's spec maps to a parameter (`dist.levels`, `getattr(dist, 'levels', 1)`,
#     `self.scale`, `self._known_scale`, `self.statistics_['edof']`, …)
#   * calls that the spec maps to a function parameter (`self.link.gradient(mu, self.distribution)` ↦ `linkGrad mu`, …)
#     and the helper `ylogydu` (↦ the hand-written `PyGam.ylogydu`: its masked assignment is not straight-line)
#   * reductions over the one vector length `n` of a function whose spec declares vector parameters:
#     `np.sum(v)`, `v.sum()` ↦ `sumTo n (fun i => …)`, `len(v)`, `v.shape[0]` ↦ `natTo n`, `v.mean()`
#   * statements: docstring, `x = e`, `x op= e`, `d = OrderedDict()` / `d[<str>] = e` (returned as a tuple in
#     insertion order), `if <Bool expression>: … else: …` (the rest of the body is continued in both branches),
#     `return e`, `return (e1, e2)`
#   * skipped, and listed in the doc comment of the definition: argument guards `if …: raise …` and argument
#     defaulting `if p is None: p = …` (the definition is for supplied arguments)
# Vectorised NumPy code is elementwise: functions whose spec declares scalar parameters are translated as ONE scalar
# expression.  Locals are inlined (the models are written that way).

FORMULA_LEAN_KEYWORDS = {
    'fun', 'at', 'from', 'end', 'do', 'then', 'else', 'if', 'let', 'have', 'show', 'in', 'with', 'match', 'def', 'theorem',
    'by', 'where', 'structure', 'class', 'instance', 'open', 'namespace', 'section', 'variable', 'universe', 'import',
    'Type', 'Prop', 'Sort', 'true', 'false', 'none', 'some', 'i', 'n', 'α', 'sumTo', 'natTo', 'ylogydu', 'forall', 'exists',
    'mut', 'for', 'return', 'try', 'catch', 'finally', 'unless', 'using', 'calc', 'set_option', 'deriving', 'extends',
    'macro', 'syntax', 'notation', 'infix', 'infixl', 'infixr', 'prefix', 'postfix', 'abbrev', 'axiom', 'example',
    'inductive', 'mutual', 'private', 'protected', 'noncomputable', 'partial', 'unsafe', 'attribute', 'local', 'scoped',
    'nomatch', 'nofun', 'fun', 'suffices', 'obtain', 'Nat', 'Bool', 'Option', 'List', 'String', 'PyGam', 'ExpLog', 'HasLogSqrt',
    'Gen', 'Untranslatable', 'decide', 'ite', 'dite', 'id', 'Decidable',
}


class Unsupported(Exception):
    pass


class Val(object):
    """a translated value: type tag + expression tree
    S scalar, V vector entry (expression in the bound index `i`), B Bool, VB Bool vector entry, O optional scalar,
    T tuple, R record (ordered dict under construction), D the distribution object, X an argument the translation ignores"""
    __slots__ = ('t', 'e')

    def __init__(self, t, e):
        self.t, self.e = t, e


def _num(k):
    return ('num', int(k))


def _lit(v):
    """numeric literal -> expression (non-negative part; the sign is a separate `neg`)"""
    if isinstance(v, bool):
        raise Unsupported('boolean used as a numeric literal')
    if isinstance(v, int):
        if v < 0:
            return ('neg', _lit(-v))
        return _num(v)
    if isinstance(v, float):
        if v != v or v in (float('inf'), float('-inf')):
            raise Unsupported('non-finite literal %r' % v)
        if v < 0:
            return ('neg', _lit(-v))
        if v == int(v) and abs(v) < 2 ** 53:
            return _num(int(v))
        from decimal import Decimal
        sign, digits, exp = Decimal(repr(v)).as_tuple()
        numer = int(''.join(str(d) for d in digits))
        if exp >= 0:
            return _num(numer * 10 ** exp)
        return ('div', ('nat', numer), ('nat', 10 ** (-exp)))      # 1.4 ↦ natTo 14 / natTo 10 (decimal digits as written)
    raise Unsupported('literal %r' % (v,))


def _static_number(node):
    """value of a literal exponent: Constant or -Constant"""
    if isinstance(node, ast.Constant) and isinstance(node.value, (int, float)) and not isinstance(node.value, bool):
        return node.value
    if isinstance(node, ast.UnaryOp) and isinstance(node.op, ast.USub):
        v = _static_number(node.operand)
        return None if v is None else -v
    if isinstance(node, ast.UnaryOp) and isinstance(node.op, ast.UAdd):
        return _static_number(node.operand)
    return None


class FormulaSpec(object):
    """what to translate and how its free attribute reads / opaque calls become Lean parameters

    name    : Lean name of the generated definition
    ctx     : 'links' (ExpLog: exp, log, sqrt) | 'dists' | 'gam' (HasLogSqrt: log, sqrt)
    locate  : (file, class or None, function, inner function or None)
    pre     : Lean binders placed before the Python parameters: list of (name, Lean type)
    params  : roles of the Python parameters after `self`, by position: 'S' 'V' 'B' 'X' (ignored) 'D' (distribution object)
              'Str' (string) 'OS' (string or None)
    attrs   : canonical path -> (type tag, Lean binder name)        e.g. 'dist.levels' -> ('S', 'levels')
    callees : canonical path -> dict(kind='fn', lean=…, sig=[…], use=[…], defaults={…}, vec=bool, ret='S')
                              | dict(kind='value', t='V', lean=…)     (the whole call is a parameter)
    self_param : True when the first Python parameter is `self`
    """

    def __init__(self, name, ctx, locate, pre, params, attrs=None, callees=None, self_param=True, what=None,
                 scalar='α', raises=False, fragment=None, frag_vars=None, frag_return=None):
        self.name, self.ctx, self.locate, self.pre, self.params = name, ctx, locate, pre, params
        self.attrs = attrs or {}
        self.callees = callees or {}
        self.self_param = self_param
        self.what = what
        # decision logic (Gen/Decisions.lean)
        self.scalar = scalar            # Lean type of numbers: 'α' or 'Nat'
        self.raises = raises            # True: `raise X(…)` is a result (`Except String _`), not a skipped guard
        self.fragment = fragment        # function: FunctionDef -> list of statements (a part of the body), or None
        self.frag_vars = frag_vars or {}    # local names that are inputs of the fragment: name -> (role, Lean binder)
        self.frag_return = frag_return  # the local whose value after the fragment is the result


class FormulaTranslator(object):
    def __init__(self, spec, fn):
        self.spec = spec
        self.fn = fn
        self.notes = []
        self.has_vec = any(r == 'V' for r in spec.params) or any(t.startswith('Nat →') or '(Nat →' in t for _, t in spec.pre)
        self.optional_vars = set()
        self.roots = {}
        self.binders = []       # Lean binders of the Python parameters: (name, type)
        self.env0 = {}

    # -- set-up -----------------------------------------------------------------------------------------
    def setup(self):
        fn, spec = self.fn, self.spec
        a = fn.args
        if a.vararg or a.kwonlyargs or a.posonlyargs:
            raise Unsupported('parameter list uses * / keyword-only / positional-only arguments')
        names = [x.arg for x in a.args]
        if spec.self_param:
            if not names:
                raise Unsupported('no `self` parameter')
            self.roots[names[0]] = 'self'
            names = names[1:]
        # **kwargs of decorator wrappers is allowed and ignored (role list says so)
        if len(names) != len(spec.params):
            raise Unsupported('signature changed: parameters %s, expected %d of them (roles %s)' % (names, len(spec.params), spec.params))
        taken = set(p for p, _ in spec.pre) | FORMULA_LEAN_KEYWORDS
        for nm, role in zip(names, spec.params):
            if role == 'D':
                self.roots[nm] = 'dist'
                self.env0[nm] = Val('D', None)
                continue
            if role == 'X':
                self.env0[nm] = Val('X', None)
                continue
            ln = re.sub(r'[^A-Za-z0-9_]', '_', nm)          # Python identifiers may be non-ASCII
            if not re.match(r'^[A-Za-z_]', ln):
                ln = 'x_' + ln
            while ln in taken:                              # Lean keyword / clash with a binder of the spec
                ln = ln + '_'
            taken.add(ln)
            self.bind(nm, role, ln)
        for nm, (role, ln) in sorted(spec.frag_vars.items()):
            self.bind(nm, role, ln)
        # names assigned the constant None somewhere are Option-valued
        for n in ast.walk(fn):
            if isinstance(n, ast.Assign) and isinstance(n.value, ast.Constant) and n.value.value is None:
                for t in n.targets:
                    if isinstance(t, ast.Name):
                        self.optional_vars.add(t.id)

    def bind(self, nm, role, ln):
        sc = self.spec.scalar
        if role == 'S':
            self.binders.append((ln, sc))
            self.env0[nm] = Val('S', ('var', ln))
        elif role == 'V':
            self.binders.append((ln, 'Nat → ' + sc))
            self.env0[nm] = Val('V', ('idx', ln))
        elif role == 'B':
            self.binders.append((ln, 'Bool'))
            self.env0[nm] = Val('B', ('bvar', ln))
        elif role == 'Str':
            self.binders.append((ln, 'String'))
            self.env0[nm] = Val('Str', ('svar', ln))
        elif role == 'OS':
            self.binders.append((ln, 'Option String'))
            self.env0[nm] = Val('OS', ('osvar', ln))
        else:
            raise Unsupported('bad role %r' % role)

    # -- canonical dotted path of an expression --------------------------------------------------------------
    def path(self, node, env):
        if isinstance(node, ast.Name):
            if node.id in self.roots:
                return self.roots[node.id]
            if node.id in env:
                return None
            return node.id
        if isinstance(node, ast.Attribute):
            p = self.path(node.value, env)
            return None if p is None else p + '.' + node.attr
        if isinstance(node, ast.Subscript):
            p = self.path(node.value, env)
            k = node.slice
            if p is not None and isinstance(k, ast.Constant) and isinstance(k.value, str):
                return "%s['%s']" % (p, k.value)
            return None
        if isinstance(node, ast.Call) and isinstance(node.func, ast.Name) and node.func.id == 'getattr' and len(node.args) in (2, 3) \
                and isinstance(node.args[1], ast.Constant) and isinstance(node.args[1].value, str) and not node.keywords:
            p = self.path(node.args[0], env)
            return None if p is None else p + '.' + node.args[1].value
        return None

    def src(self, node):
        try:
            s = ast.unparse(node)
        except Exception:
            s = '<%s>' % type(node).__name__
        s = ' '.join(s.split())
        return (s[:90] + '…') if len(s) > 91 else s

    # -- numbers -------------------------------------------------------------------------------------------
    def as_number(self, v, node):
        """S or V value; Bool (vector) is coerced like NumPy does: True = 1, False = 0"""
        if v.t in ('S', 'V'):
            return v
        if v.t == 'B':
            return Val('S', ('ite', v.e, _num(1), _num(0)))
        if v.t == 'VB':
            return Val('V', ('ite', v.e, _num(1), _num(0)))
        raise Unsupported('`%s` (line %d) is not a number (%s)' % (self.src(node), node.lineno, v.t))

    def math(self, op):
        cls = 'ExpLog' if self.spec.ctx == 'links' else 'HasLogSqrt'
        if op == 'exp' and cls != 'ExpLog':
            raise Unsupported('np.exp is not available to this group of functions (class HasLogSqrt has log and sqrt only)')
        return cls + '.' + op

    def power(self, base, c, node):
        x = base.e
        one = _num(1)
        table = {
            -1: lambda: ('div', one, x),
            -2: lambda: ('div', one, ('mul', x, x)),
            -3: lambda: ('div', one, ('mul', ('mul', x, x), x)),
            -0.5: lambda: ('div', one, ('call', self.math('sqrt'), [x])),
            0.5: lambda: ('call', self.math('sqrt'), [x]),
            1: lambda: x,
            2: lambda: ('mul', x, x),
            3: lambda: ('mul', ('mul', x, x), x),
        }
        for k, f in table.items():
            if c == k:
                return Val(base.t, f())
        raise Unsupported('`%s` (line %d): exponent %r is not one of -3, -2, -1, -0.5, 0.5, 1, 2, 3' % (self.src(node), node.lineno, c))

    # -- expressions ---------------------------------------------------------------------------------------
    def expr(self, node, env):
        spec = self.spec
        if isinstance(node, ast.Constant):
            v = node.value
            if v is None:
                return Val('O', ('none',))
            if isinstance(v, bool):
                return Val('B', ('btrue',) if v else ('bfalse',))
            if isinstance(v, (int, float)):
                if spec.scalar == 'Nat' and not (isinstance(v, int) and v >= 0):
                    raise Unsupported('literal `%s` (line %d) is not a natural number' % (self.src(node), node.lineno))
                return Val('S', _lit(v))
            if isinstance(v, str):
                return Val('Str', ('strlit', v))
            raise Unsupported('literal `%s` (line %d)' % (self.src(node), node.lineno))
        if isinstance(node, ast.Name):
            if node.id in env:
                v = env[node.id]
                if v is None:
                    raise Unsupported('`%s` (line %d) may be unbound' % (node.id, node.lineno))
                return v
            raise Unsupported('unknown name `%s` (line %d)' % (node.id, node.lineno))
        if isinstance(node, ast.Tuple):
            return Val('T', [self.expr(e, env) for e in node.elts])
        if isinstance(node, ast.UnaryOp):
            if isinstance(node.op, ast.USub):
                if spec.scalar == 'Nat':
                    raise Unsupported('`%s` (line %d): negation of a natural number' % (self.src(node), node.lineno))
                v = self.as_number(self.expr(node.operand, env), node.operand)
                return Val(v.t, ('neg', v.e))
            if isinstance(node.op, ast.UAdd):
                return self.as_number(self.expr(node.operand, env), node.operand)
            if isinstance(node.op, ast.Not):
                v = self.expr(node.operand, env)
                if v.t not in ('B', 'VB'):
                    raise Unsupported('`not` of a non-Boolean `%s` (line %d)' % (self.src(node.operand), node.lineno))
                return Val(v.t, ('not', v.e))
            raise Unsupported('operator in `%s` (line %d)' % (self.src(node), node.lineno))
        if isinstance(node, ast.BinOp):
            if isinstance(node.op, ast.Pow):
                c = _static_number(node.right)
                if c is None:
                    raise Unsupported('`%s` (line %d): the exponent is not a literal' % (self.src(node), node.lineno))
                return self.power(self.as_number(self.expr(node.left, env), node.left), c, node)
            ops = {ast.Add: 'add', ast.Sub: 'sub', ast.Mult: 'mul', ast.Div: 'div'}
            for k, nm in ops.items():
                if isinstance(node.op, k):
                    if spec.scalar == 'Nat' and nm == 'div':
                        raise Unsupported('`%s` (line %d): true division of natural numbers' % (self.src(node), node.lineno))
                    l = self.as_number(self.expr(node.left, env), node.left)
                    r = self.as_number(self.expr(node.right, env), node.right)
                    return Val('V' if 'V' in (l.t, r.t) else 'S', (nm, l.e, r.e))
            raise Unsupported('operator in `%s` (line %d)' % (self.src(node), node.lineno))
        if isinstance(node, ast.BoolOp):
            vs = [self.expr(x, env) for x in node.values]
            if any(v.t != 'B' for v in vs):
                raise Unsupported('`%s` (line %d): and / or of non-Boolean operands' % (self.src(node), node.lineno))
            out = vs[0].e
            for v in vs[1:]:
                out = ('and' if isinstance(node.op, ast.And) else 'or', out, v.e)
            return Val('B', out)
        if isinstance(node, ast.Compare):
            if len(node.ops) != 1:
                # a < b < c  is  (a < b) and (b < c): operands here are side-effect free, so evaluating `b` twice is harmless
                if not all(isinstance(o, (ast.Lt, ast.Gt, ast.LtE, ast.GtE)) for o in node.ops):
                    raise Unsupported('chained comparison `%s` (line %d)' % (self.src(node), node.lineno))
                operands = [node.left] + list(node.comparators)
                out = None
                for a, o, b in zip(operands, node.ops, operands[1:]):
                    v = self.expr(ast.copy_location(ast.Compare(left=a, ops=[o], comparators=[b]), node), env)
                    if v.t != 'B':
                        raise Unsupported('chained comparison of non-scalars `%s` (line %d)' % (self.src(node), node.lineno))
                    out = v.e if out is None else ('and', out, v.e)
                return Val('B', out)
            op = node.ops[0]
            if isinstance(op, (ast.Eq, ast.NotEq, ast.In, ast.NotIn, ast.Is, ast.IsNot)):
                return self.compare_symbolic(node, env)
            l = self.as_number(self.expr(node.left, env), node.left)
            r = self.as_number(self.expr(node.comparators[0], env), node.comparators[0])
            t = 'VB' if 'V' in (l.t, r.t) else 'B'
            op = node.ops[0]
            if isinstance(op, ast.Lt):
                return Val(t, ('lt', l.e, r.e))
            if isinstance(op, ast.Gt):
                return Val(t, ('lt', r.e, l.e))      # a > b  is  b < a
            if isinstance(op, ast.LtE):
                return Val(t, ('le', l.e, r.e))
            if isinstance(op, ast.GtE):
                return Val(t, ('le', r.e, l.e))
            raise Unsupported('comparison `%s` (line %d)' % (self.src(node), node.lineno))
        if isinstance(node, (ast.Attribute, ast.Subscript)) or (isinstance(node, ast.Call) and isinstance(node.func, ast.Name) and node.func.id == 'getattr'):
            # v.shape[0]
            if isinstance(node, ast.Subscript) and isinstance(node.value, ast.Attribute) and node.value.attr == 'shape' \
                    and isinstance(node.slice, ast.Constant) and node.slice.value == 0:
                v = self.expr(node.value.value, env)
                if v.t not in ('V', 'VB'):
                    raise Unsupported('`%s` (line %d): shape of a non-vector' % (self.src(node), node.lineno))
                return Val('S', ('natTo',))
            if isinstance(node, ast.Subscript) and self.path(node.value, env) in ('np.r_', 'numpy.r_') and isinstance(node.slice, ast.Tuple):
                return Val('T', [self.as_number(self.expr(x, env), x) for x in node.slice.elts])      # np.r_[a, b] is the pair
            p = self.path(node, env)
            if p is not None and p in spec.attrs and (spec.attrs[p][0] == 'D' or spec.attrs[p][1] in [b for b, _ in spec.pre]):
                t, ln = spec.attrs[p]
                if t == 'Str':
                    return Val('Str', ('svar', ln))
                if t == 'OS':
                    return Val('OS', ('osvar', ln))
                if t == 'S':
                    return Val('S', ('var', ln))
                if t == 'B':
                    return Val('B', ('bvar', ln))
                if t == 'D':
                    return Val('D', None)
                if t == 'V':
                    return Val('V', ('idx', ln))
            raise Unsupported('`%s` (line %d) is not a read this translation knows' % (self.src(node), node.lineno))
        if isinstance(node, ast.Call):
            return self.call(node, env)
        raise Unsupported('expression `%s` (line %d)' % (self.src(node), getattr(node, 'lineno', 0)))

    def compare_symbolic(self, node, env):
        """== != in not-in is is-not on strings / optional strings"""
        op, rhs = node.ops[0], node.comparators[0]
        l = self.expr(node.left, env)
        neg = isinstance(op, (ast.NotEq, ast.NotIn, ast.IsNot))
        if isinstance(op, (ast.Is, ast.IsNot)):
            if not (isinstance(rhs, ast.Constant) and rhs.value is None):
                raise Unsupported('`%s` (line %d): `is` with something else than None' % (self.src(node), node.lineno))
            if l.t in ('Str', 'S', 'B'):
                c = ('cfalse',)             # a string / number / Boolean is not None
            elif l.t in ('OS', 'O'):
                c = ('isnone', l.e)
            else:
                raise Unsupported('`%s` (line %d): None test of a %s' % (self.src(node), node.lineno, l.t))
        elif isinstance(op, (ast.In, ast.NotIn)):
            if not (isinstance(rhs, (ast.List, ast.Tuple)) and all(isinstance(x, ast.Constant) and isinstance(x.value, str) for x in rhs.elts)):
                raise Unsupported('`%s` (line %d): membership in something else than a literal list of strings' % (self.src(node), node.lineno))
            if l.t != 'Str':
                raise Unsupported('`%s` (line %d): membership test of a %s' % (self.src(node), node.lineno, l.t))
            c = ('smem', l.e, [x.value for x in rhs.elts])
        else:
            r = self.expr(rhs, env)
            if l.t == 'Str' and r.t == 'Str':
                c = ('seq', l.e, r.e)
            elif l.t == 'OS' and r.t == 'Str':
                c = ('seq', l.e, ('osome', r.e))
            elif l.t == 'Str' and r.t == 'OS':
                c = ('seq', ('osome', l.e), r.e)
            elif l.t == 'OS' and r.t == 'OS':
                c = ('seq', l.e, r.e)
            else:
                raise Unsupported('`%s` (line %d): equality of %s and %s' % (self.src(node), node.lineno, l.t, r.t))
        if neg:
            c = ('not', c)
        return Val('B', c)

    def fold(self, c):
        """truth value of a condition on literals, None when it depends on a parameter"""
        k = c[0]
        if k == 'ctrue':
            return True
        if k == 'cfalse':
            return False
        if k == 'btrue':
            return True
        if k == 'bfalse':
            return False
        if k == 'not':
            f = self.fold(c[1])
            return None if f is None else (not f)
        if k in ('and', 'or'):
            a, b = self.fold(c[1]), self.fold(c[2])
            if k == 'and':
                return False if (a is False or b is False) else (True if (a and b) else None)
            return True if (a is True or b is True) else (False if (a is False and b is False) else None)
        lit = lambda e: e[0] == 'strlit' or e[0] == 'none' or (e[0] == 'osome' and e[1][0] == 'strlit')
        if k == 'seq' and lit(c[1]) and lit(c[2]):
            return c[1] == c[2]
        if k == 'isnone' and lit(c[1]):
            return c[1][0] == 'none'
        if k == 'smem' and c[1][0] == 'strlit':
            return c[1][1] in c[2]
        return None

    def call(self, node, env):
        spec = self.spec
        f = node.func
        p = self.path(f, env)
        nargs, kws = node.args, node.keywords
        if any(isinstance(a, ast.Starred) for a in nargs):
            raise Unsupported('`%s` (line %d): starred argument' % (self.src(node), node.lineno))
        # method calls on translated values:  v.sum()  v.mean()  v.astype(…)
        if p is None and isinstance(f, ast.Attribute):
            recv = self.expr(f.value, env)
            if f.attr == 'astype' and recv.t in ('S', 'V'):
                return recv
            if f.attr == 'sum' and not nargs and not kws:
                return self.reduce_sum(recv, node)
            if f.attr == 'mean' and not nargs and not kws:
                s = self.reduce_sum(recv, node)
                return Val('S', ('div', s.e, ('natTo',)))
            raise Unsupported('method call `%s` (line %d)' % (self.src(node), node.lineno))
        if p is None:
            raise Unsupported('call `%s` (line %d)' % (self.src(node), node.lineno))
        # spec-declared callees first
        if p in spec.callees:
            return self.spec_call(p, spec.callees[p], node, env)
        star_kw = [k for k in kws if k.arg is None]
        if star_kw:
            raise Unsupported('`%s` (line %d): ** argument' % (self.src(node), node.lineno))
        if p in ('np.log', 'np.exp', 'np.sqrt', 'numpy.log', 'numpy.exp', 'numpy.sqrt'):
            if len(nargs) != 1 or kws:
                raise Unsupported('`%s` (line %d): expected one argument' % (self.src(node), node.lineno))
            v = self.as_number(self.expr(nargs[0], env), nargs[0])
            return Val(v.t, ('call', self.math(p.split('.')[1]), [v.e]))
        if p in ('np.abs', 'numpy.abs', 'abs'):
            if len(nargs) != 1 or kws:
                raise Unsupported('`%s` (line %d): expected one argument' % (self.src(node), node.lineno))
            if spec.scalar == 'Nat':
                raise Unsupported('`%s` (line %d): abs of a natural number' % (self.src(node), node.lineno))
            v = self.as_number(self.expr(nargs[0], env), nargs[0])
            return Val(v.t, ('ite', ('lt', v.e, _num(0)), ('neg', v.e), v.e))
        if p in ('np.sign', 'numpy.sign'):
            # np.sign(x) of a non-NaN number: 1, -1 or 0
            if len(nargs) != 1 or kws:
                raise Unsupported('`%s` (line %d): expected one argument' % (self.src(node), node.lineno))
            if spec.scalar == 'Nat':
                raise Unsupported('`%s` (line %d): sign of a natural number' % (self.src(node), node.lineno))
            v = self.as_number(self.expr(nargs[0], env), nargs[0])
            return Val(v.t, ('ite', ('lt', _num(0), v.e), _num(1), ('ite', ('lt', v.e, _num(0)), ('neg', _num(1)), _num(0))))
        if p in ('np.prod', 'numpy.prod'):
            # np.prod([t.attr for t in <list the spec knows>])  ↦  prodList <list parameter>
            a = nargs[0] if len(nargs) == 1 and not kws else None
            if isinstance(a, ast.ListComp) and len(a.generators) == 1 and not a.generators[0].ifs and not a.generators[0].is_async \
                    and isinstance(a.generators[0].target, ast.Name) and isinstance(a.elt, ast.Attribute) \
                    and isinstance(a.elt.value, ast.Name) and a.elt.value.id == a.generators[0].target.id:
                ip = self.path(a.generators[0].iter, env)
                key = None if ip is None else '%s[*].%s' % (ip, a.elt.attr)
                if key in spec.attrs and spec.attrs[key][0] == 'LS' and spec.attrs[key][1] in [b for b, _ in spec.pre]:
                    return Val('S', ('call', 'prodList', [('var', spec.attrs[key][1])]))
            raise Unsupported('`%s` (line %d): product of something else than the known list' % (self.src(node), node.lineno))
        if p in ('np.ones_like', 'numpy.ones_like'):
            if len(nargs) != 1 or kws:
                raise Unsupported('`%s` (line %d): expected one argument' % (self.src(node), node.lineno))
            self.as_number(self.expr(nargs[0], env), nargs[0])
            return Val('S', _num(1))
        if p in ('np.asarray', 'numpy.asarray'):
            if len(nargs) != 1 or any(k.arg != 'dtype' for k in kws):
                raise Unsupported('`%s` (line %d): expected np.asarray(x, dtype=…)' % (self.src(node), node.lineno))
            return self.expr(nargs[0], env)
        if p in ('sp.sparse.diags', 'scipy.sparse.diags'):
            if len(nargs) != 1 or kws:
                raise Unsupported('`%s` (line %d): expected one argument' % (self.src(node), node.lineno))
            return self.as_number(self.expr(nargs[0], env), nargs[0])
        if p in ('np.sum', 'numpy.sum'):
            if len(nargs) != 1 or kws:
                raise Unsupported('`%s` (line %d): expected one argument' % (self.src(node), node.lineno))
            return self.reduce_sum(self.expr(nargs[0], env), node)
        if p == 'len':
            if len(nargs) != 1 or kws:
                raise Unsupported('`%s` (line %d)' % (self.src(node), node.lineno))
            v = self.expr(nargs[0], env)
            if v.t not in ('V', 'VB'):
                raise Unsupported('`%s` (line %d): len of a non-vector' % (self.src(node), node.lineno))
            return Val('S', ('natTo',))
        if p in ('ylogydu', 'utils.ylogydu', 'pygam.utils.ylogydu'):
            if len(nargs) != 2 or kws:
                raise Unsupported('`%s` (line %d): expected two arguments' % (self.src(node), node.lineno))
            if spec.ctx == 'links':
                raise Unsupported('ylogydu is not available to the link functions')
            a = self.as_number(self.expr(nargs[0], env), nargs[0])
            b = self.as_number(self.expr(nargs[1], env), nargs[1])
            return Val('V' if 'V' in (a.t, b.t) else 'S', ('call', 'PyGam.ylogydu', [a.e, b.e]))
        if p in ('OrderedDict', 'dict', 'collections.OrderedDict') and not nargs and not kws:
            return Val('R', [])
        raise Unsupported('call of `%s` (line %d) is outside the translated subset' % (self.src(f), node.lineno))

    def reduce_sum(self, v, node):
        v = self.as_number(v, node) if v.t in ('B', 'VB') else v
        if v.t != 'V':
            raise Unsupported('`%s` (line %d): sum of a non-vector' % (self.src(node), node.lineno))
        return Val('S', ('sum', v.e))

    def spec_call(self, p, cs, node, env):
        if cs['kind'] == 'value':
            t = cs['t']
            if cs.get('args_ignored_only'):
                # every argument must be a parameter the translation ignores (e.g. np.min(data) ↦ dmin)
                if node.keywords or len(node.args) != 1 or self.expr(node.args[0], env).t != 'X':
                    raise Unsupported('`%s` (line %d): unexpected arguments' % (self.src(node), node.lineno))
            return Val(t, ('idx', cs['lean']) if t == 'V' else ('var', cs['lean']))
        sig = cs['sig']
        bound = {}
        if len(node.args) > len(sig):
            raise Unsupported('`%s` (line %d): too many arguments' % (self.src(node), node.lineno))
        for nm, a in zip(sig, node.args):
            bound[nm] = a
        for k in node.keywords:
            if k.arg is None:
                if cs.get('ignore_star_kwargs'):
                    continue
                raise Unsupported('`%s` (line %d): ** argument' % (self.src(node), node.lineno))
            if k.arg not in sig or k.arg in bound:
                raise Unsupported('`%s` (line %d): unexpected argument %s' % (self.src(node), node.lineno, k.arg))
            bound[k.arg] = k.value
        args = []
        anyvec = False
        for nm in sig:
            want = cs['use'].get(nm)          # None: ignored argument (must be the dist object / self / an ignored parameter)
            if nm not in bound:
                if nm in cs.get('defaults', {}):
                    if want is not None:
                        args.append((want, cs['defaults'][nm]))
                    continue
                raise Unsupported('`%s` (line %d): argument %s missing' % (self.src(node), node.lineno, nm))
            if want is None:
                a = bound[nm]
                ok = False
                if isinstance(a, ast.Name) and self.roots.get(a.id) == 'self':
                    ok = True
                else:
                    v = self.expr(a, env)
                    ok = v.t in ('D', 'X')
                if not ok:
                    raise Unsupported('`%s` (line %d): argument %s is not the expected object' % (self.src(node), node.lineno, nm))
                continue
            v = self.expr(bound[nm], env)
            if want == 'B':
                if v.t != 'B':
                    raise Unsupported('`%s` (line %d): argument %s must be a Bool' % (self.src(node), node.lineno, nm))
                args.append(('B', v.e))
            elif want == 'E':                  # elementwise numeric argument
                v = self.as_number(v, bound[nm])
                anyvec = anyvec or v.t == 'V'
                args.append(('E', v.e))
            elif want == 'W':                  # whole vector (a scalar is broadcast: the constant vector)
                v = self.as_number(v, bound[nm])
                args.append(('W', v.e) if v.t == 'V' else ('WC', v.e))
            else:
                raise Unsupported('bad callee spec')
        rendered = []
        for kind, e in args:
            if kind == 'W':
                rendered.append(('lam', e))
            elif kind == 'WC':
                rendered.append(('lamc', e))
            elif kind == 'B':
                rendered.append(('boolterm', e))
            else:
                rendered.append(e)
        ret = cs.get('ret', 'E')
        if ret == 'E':
            return Val('V' if anyvec else 'S', ('call', cs['lean'], rendered))
        return Val(ret, ('call', cs['lean'], rendered))

    # -- statements (continuation style: the rest of the body is run in both branches of an `if`) ------------------
    def block(self, stmts, env, depth=0):
        if depth > 12:
            raise Unsupported('branches nested too deeply')
        env = dict(env)
        for k, s in enumerate(stmts):
            if isinstance(s, ast.Expr) and isinstance(s.value, ast.Constant) and isinstance(s.value.value, str):
                continue                                  # docstring / string statement
            if isinstance(s, ast.Pass):
                continue
            if isinstance(s, ast.Return):
                if s.value is None:
                    raise Unsupported('bare return (line %d)' % s.lineno)
                return self.expr(s.value, env)
            if isinstance(s, ast.Raise) and self.spec.raises:
                exc = s.exc.func if isinstance(s.exc, ast.Call) else s.exc
                if not isinstance(exc, ast.Name):
                    raise Unsupported('`%s` (line %d): exception class not a plain name' % (self.src(s), s.lineno))
                return Val('ERR', exc.id)
            if isinstance(s, ast.Assign):
                if len(s.targets) != 1:
                    raise Unsupported('chained assignment (line %d)' % s.lineno)
                t = s.targets[0]
                if isinstance(t, ast.Name):
                    if t.id in self.roots:
                        raise Unsupported('assignment to `%s` (line %d)' % (t.id, s.lineno))
                    v = self.expr(s.value, env)
                    old = env.get(t.id)
                    if old is not None and old.t == 'OS':       # a string-or-None variable stays one
                        if v.t == 'Str':
                            v = Val('OS', ('osome', v.e))
                        elif v.t == 'O' and v.e == ('none',):
                            v = Val('OS', ('none',))
                    if t.id in self.optional_vars and v.t == 'S':
                        v = Val('O', ('some', v.e))
                    env[t.id] = v
                    continue
                if isinstance(t, ast.Subscript) and isinstance(t.value, ast.Name) and t.value.id in env \
                        and env[t.value.id] is not None and env[t.value.id].t == 'R' \
                        and isinstance(t.slice, ast.Constant) and isinstance(t.slice.value, str):
                    v = self.expr(s.value, env)
                    if v.t != 'S':
                        raise Unsupported('record entry `%s` (line %d) is not a scalar' % (self.src(t), s.lineno))
                    rec = [kv for kv in env[t.value.id].e if kv[0] != t.slice.value] + [(t.slice.value, v)]
                    env[t.value.id] = Val('R', rec)
                    continue
                raise Unsupported('assignment target `%s` (line %d)' % (self.src(t), s.lineno))
            if isinstance(s, ast.AugAssign):
                if not isinstance(s.target, ast.Name) or s.target.id not in env:
                    raise Unsupported('augmented assignment to `%s` (line %d)' % (self.src(s.target), s.lineno))
                fake = ast.BinOp(left=ast.Name(id=s.target.id, ctx=ast.Load(), lineno=s.lineno, col_offset=0), op=s.op, right=s.value,
                                 lineno=s.lineno, col_offset=0)
                env[s.target.id] = self.expr(fake, env)
                continue
            if isinstance(s, ast.If):
                # guard:  if …: raise …
                if not self.spec.raises and not s.orelse and len(s.body) == 1 and isinstance(s.body[0], ast.Raise):
                    self.notes.append('guard `if %s: raise …` (line %d) not translated' % (self.src(s.test), s.lineno))
                    continue
                # defaulting:  if p is None: p = …
                tst = s.test
                if not s.orelse and isinstance(tst, ast.Compare) and len(tst.ops) == 1 and isinstance(tst.ops[0], ast.Is) \
                        and isinstance(tst.comparators[0], ast.Constant) and tst.comparators[0].value is None \
                        and len(s.body) == 1 and isinstance(s.body[0], ast.Assign) and len(s.body[0].targets) == 1 \
                        and ast.dump(s.body[0].targets[0]).replace('Store()', 'Load()') == ast.dump(tst.left).replace('Store()', 'Load()'):
                    subj = tst.left
                    is_param = isinstance(subj, ast.Name) and subj.id in self.env0 and subj.id not in self.spec.frag_vars
                    is_read = self.path(subj, env) in self.spec.attrs
                    if is_param or is_read:
                        self.notes.append('defaulting `if %s is None: …` (line %d) not translated' % (self.src(subj), s.lineno))
                        continue
                # warning only:  if …: warnings.warn(…)
                if not s.orelse and s.body and all(isinstance(b, ast.Expr) and isinstance(b.value, ast.Call)
                                                  and self.path(b.value.func, env) == 'warnings.warn' for b in s.body):
                    self.notes.append('warning `if %s: warnings.warn(…)` (line %d) not translated' % (self.src(s.test), s.lineno))
                    continue
                c = self.expr(s.test, env)
                if c.t != 'B':
                    raise Unsupported('`if %s:` (line %d): the condition is not a Boolean parameter / expression' % (self.src(s.test), s.lineno))
                rest = stmts[k + 1:]
                known = self.fold(c.e)
                if known is not None:                           # condition on literals: only one branch exists
                    return self.block((list(s.body) if known else list(s.orelse)) + rest, env, depth + 1)
                r1 = self.block(list(s.body) + rest, env, depth + 1)
                r2 = self.block(list(s.orelse) + rest, env, depth + 1)
                return self.merge(c, r1, r2, s)
            raise Unsupported('statement `%s` (line %d)' % (self.src(s).split(':')[0], s.lineno))
        raise Unsupported('a path through the function does not end in `return <expression>`')

    # results that may be exceptions: Val('EX', tree), tree = ('ok', Val) | ('err', class name) | ('ite', cond, tree, tree)
    def ex_lift(self, v):
        if v.t == 'ERR':
            return Val('EX', ('err', v.e))
        if v.t == 'EX':
            return v
        return Val('EX', ('ok', v))

    def ex_types(self, tree):
        if tree[0] == 'ok':
            return set([tree[1].t])
        if tree[0] == 'err':
            return set()
        return self.ex_types(tree[2]) | self.ex_types(tree[3])

    def ex_map(self, tree, f):
        if tree[0] == 'ok':
            return ('ok', f(tree[1]))
        if tree[0] == 'err':
            return tree
        return ('ite', tree[1], self.ex_map(tree[2], f), self.ex_map(tree[3], f))

    def ex_dump(self, tree):
        if tree[0] == 'ok':
            return ('ok', self.dump(tree[1]))
        if tree[0] == 'err':
            return tree
        return ('ite', tree[1], self.ex_dump(tree[2]), self.ex_dump(tree[3]))

    def merge(self, c, a, b, s):
        if a.t == 'R' and b.t == 'R':
            a, b = self.finish(a), self.finish(b)
        if a.t in ('ERR', 'EX') or b.t in ('ERR', 'EX'):
            a, b = self.ex_lift(self.finish(a)), self.ex_lift(self.finish(b))
            ts = self.ex_types(a.e) | self.ex_types(b.e)
            if ts == set(('Str', 'OS')):
                up = lambda v: Val('OS', ('osome', v.e)) if v.t == 'Str' else v
                a, b = Val('EX', self.ex_map(a.e, up)), Val('EX', self.ex_map(b.e, up))
            elif len(ts) > 1:
                raise Unsupported('`if` (line %d): branch results of different kinds (%s)' % (s.lineno, ', '.join(sorted(ts))))
            if self.ex_dump(a.e) == self.ex_dump(b.e):
                return a
            return Val('EX', ('ite', c.e, a.e, b.e))
        if set((a.t, b.t)) == set(('Str', 'OS')):
            a = Val('OS', ('osome', a.e)) if a.t == 'Str' else a
            b = Val('OS', ('osome', b.e)) if b.t == 'Str' else b
        if a.t == 'T' and b.t == 'T' and len(a.e) == len(b.e):
            # keep the tuple inside the branches (as the models do): if c then (a1, a2) else (b1, b2)
            ts = []
            for x, y in zip(a.e, b.e):
                if x.t == y.t:
                    ts.append(x.t)
                elif set((x.t, y.t)) == set(('S', 'O')):
                    ts.append('O')
                else:
                    raise Unsupported('`if` (line %d): branch results of different kinds' % s.lineno)
            lift = lambda v, t: Val('O', ('some', v.e)) if (t == 'O' and v.t == 'S') else v
            a = Val('T', [lift(x, t) for x, t in zip(a.e, ts)])
            b = Val('T', [lift(x, t) for x, t in zip(b.e, ts)])
            if self.dump(a) == self.dump(b):
                return a
            return Val('TI', (c.e, a, b))
        if set((a.t, b.t)) == set(('S', 'O')):
            a = Val('O', ('some', a.e)) if a.t == 'S' else a
            b = Val('O', ('some', b.e)) if b.t == 'S' else b
        if a.t != b.t or a.t not in ('S', 'V', 'O', 'B', 'Str', 'OS'):
            raise Unsupported('`if` (line %d): branch results of different kinds (%s, %s)' % (s.lineno, a.t, b.t))
        if a.e == b.e:
            return a
        if a.t == 'B':
            raise Unsupported('`if` (line %d): Boolean-valued branches' % s.lineno)
        return Val(a.t, ('ite', c.e, a.e, b.e))

    def dump(self, v):
        if v.t == 'EX':
            return ('EX', self.ex_dump(v.e))
        if v.t in ('T',):
            return ('T', [self.dump(x) for x in v.e])
        if v.t == 'TI':
            return ('TI', v.e[0], self.dump(v.e[1]), self.dump(v.e[2]))
        return (v.t, v.e)

    def finish(self, v):
        """a returned record becomes the tuple of its values in insertion order"""
        if v.t == 'R':
            if not v.e:
                raise Unsupported('empty record returned')
            self.record_keys = [k for k, _ in v.e]
            return Val('T', [x for _, x in v.e])
        return v

    # -- rendering ------------------------------------------------------------------------------------------
    def R(self, e, prec=0):
        """Lean text of an expression tree; prec: 0 top, 65 additive operand, 70 multiplicative operand, 1024 argument"""
        k = e[0]
        def par(s, p):
            return '(' + s + ')' if prec > p else s
        if k == 'var':
            return e[1]
        if k == 'idx':
            return par('%s i' % e[1], 1023)
        if k == 'strlit':
            return lstr(e[1])
        if k in ('svar', 'osvar'):
            return e[1]
        if k == 'osome':
            return par('some ' + self.R(e[1], 1024), 1023)
        if k == 'num' and self.spec.scalar == 'Nat':
            return str(e[1])
        if k == 'num':
            n = e[1]
            if n == 0:
                return '0'
            if n == 1:
                return '1'
            if n <= 16:
                return '(' + ' + '.join(['1'] * n) + ')'
            return par('natTo %d' % n, 1023)
        if k == 'nat':
            return par('natTo %d' % e[1], 1023)
        if k == 'natTo':
            return par('natTo n', 1023)
        if k == 'neg':
            return '(-' + self.R(e[1], 75) + ')'
        if k in ('add', 'sub'):
            return par(self.R(e[1], 65) + (' + ' if k == 'add' else ' - ') + self.R(e[2], 66), 65)
        if k in ('mul', 'div'):
            return par(self.R(e[1], 70) + (' * ' if k == 'mul' else ' / ') + self.R(e[2], 71), 70)
        if k == 'call':
            return par(e[1] + ''.join(' ' + self.R(a, 1024) for a in e[2]), 1023)
        if k == 'lam':
            return '(fun i => ' + self.R(e[1], 0) + ')'
        if k == 'lamc':
            return '(fun _ => ' + self.R(e[1], 0) + ')'
        if k == 'boolterm':
            return self.Bterm(e[1], 1024)
        if k == 'sum':
            return par('sumTo n (fun i => ' + self.R(e[1], 0) + ')', 1023)
        if k == 'ite':
            return '(if ' + self.C(e[1]) + ' then ' + self.R(e[2], 0) + ' else ' + self.R(e[3], 0) + ')' if prec > 0 else \
                   'if ' + self.C(e[1]) + ' then ' + self.R(e[2], 0) + ' else ' + self.R(e[3], 0)
        if k == 'none':
            return 'none'
        if k == 'some':
            return par('some ' + self.R(e[1], 1024), 1023)
        raise Unsupported('internal: cannot render %r' % (k,))

    def is_boolterm(self, c):
        return c[0] in ('bvar', 'btrue', 'bfalse') or (c[0] == 'not' and self.is_boolterm(c[1]))

    def Bterm(self, c, prec=0):
        """a Bool-valued Lean term"""
        if c[0] == 'bvar':
            return c[1]
        if c[0] == 'btrue':
            return 'true'
        if c[0] == 'bfalse':
            return 'false'
        if c[0] == 'not' and self.is_boolterm(c[1]):
            return '(!' + self.Bterm(c[1], 1024) + ')'
        return '(decide (' + self.C(c) + '))'

    def C(self, c):
        """a condition after `if`"""
        if self.is_boolterm(c):
            return self.Bterm(c)
        if c[0] == 'lt':
            return self.R(c[1], 51) + ' < ' + self.R(c[2], 51)
        if c[0] == 'le':
            return self.R(c[1], 51) + ' ≤ ' + self.R(c[2], 51)
        if c[0] == 'not':
            return '¬ (' + self.C(c[1]) + ')'
        if c[0] == 'seq':
            return self.R(c[1], 51) + ' = ' + self.R(c[2], 51)
        if c[0] == 'smem':
            return self.R(c[1], 51) + ' ∈ [' + ', '.join(lstr(x) for x in c[2]) + ']'
        if c[0] == 'isnone':
            return self.R(c[1], 51) + ' = none'
        if c[0] in ('and', 'or'):
            return '(' + self.C(c[1]) + (') ∧ (' if c[0] == 'and' else ') ∨ (') + self.C(c[2]) + ')'
        if c[0] == 'ctrue':
            return 'True'
        if c[0] == 'cfalse':
            return 'False'
        raise Unsupported('internal: cannot render condition %r' % (c[0],))

    def RV(self, v, ind='  '):
        """Lean text of a returned value; top-level branches and tuple components go on lines of their own"""
        if v.t == 'T':
            return '(' + (',\n' + ind + ' ').join(self.RV(x, ind + ' ') for x in v.e) + ')'
        if v.t == 'TI':
            return 'if ' + self.C(v.e[0]) + ' then\n' + ind + '  ' + self.RV(v.e[1], ind + '  ') + '\n' + ind + 'else\n' + ind + '  ' + self.RV(v.e[2], ind + '  ')
        if v.t == 'B':
            return self.Bterm(v.e)
        if v.t == 'EX':
            return self.RX(v.e, ind)
        if v.e[0] == 'ite':
            return 'if ' + self.C(v.e[1]) + ' then\n' + ind + '  ' + self.RV(Val(v.t, v.e[2]), ind + '  ') + '\n' + ind + 'else\n' + ind + '  ' \
                   + self.RV(Val(v.t, v.e[3]), ind + '  ')
        return self.R(v.e, 0)

    def RX(self, tree, ind):
        if tree[0] == 'ok':
            v = tree[1]
            if v.t in ('S', 'O', 'Str', 'OS'):
                return '.ok ' + self.R(v.e, 1024)
            x = self.RV(v, ind + '  ')
            return '.ok ' + (x if re.match(r'^[A-Za-z0-9_"]+$', x) else '(' + x + ')')
        if tree[0] == 'err':
            return '.error ' + lstr(tree[1])
        return 'if ' + self.C(tree[1]) + ' then\n' + ind + '  ' + self.RX(tree[2], ind + '  ') + '\n' + ind + 'else\n' + ind + '  ' \
               + self.RX(tree[3], ind + '  ')

    def ltype(self, v):
        if v.t == 'S':
            return self.spec.scalar
        if v.t == 'O':
            return 'Option ' + self.spec.scalar
        if v.t == 'Str':
            return 'String'
        if v.t == 'OS':
            return 'Option String'
        if v.t == 'EX':
            ts = self.ex_types(v.e)
            if len(ts) != 1:
                raise Unsupported('every path raises' if not ts else 'results of different kinds')
            t = list(ts)[0]
            inner = self.ltype(Val(t, None)) if t in ('S', 'O', 'Str', 'OS', 'B') else None
            if inner is None:
                raise Unsupported('the result is a %s or an exception' % t)
            return 'Except String ' + ('(' + inner + ')' if ' ' in inner else inner)
        if v.t == 'B':
            return 'Bool'
        if v.t == 'T':
            return ' × '.join(('(' + self.ltype(x) + ')') if x.t in ('T', 'TI') else self.ltype(x) for x in v.e)
        if v.t == 'TI':
            return self.ltype(v.e[1])
        raise Unsupported('the function returns a %s' % {'V': 'vector where one scalar expression per entry was expected',
                                                         'VB': 'Boolean vector', 'D': 'distribution object',
                                                         'X': 'value outside the translation', 'R': 'record'}.get(v.t, v.t))

    def translate(self):
        self.setup()
        stmts = self.fn.body
        if self.spec.fragment is not None:
            stmts = self.spec.fragment(self.fn)
        if self.spec.frag_return is not None:
            ln = stmts[-1].end_lineno if stmts else self.fn.lineno
            stmts = list(stmts) + [ast.Return(value=ast.Name(id=self.spec.frag_return, ctx=ast.Load(), lineno=ln, col_offset=0),
                                              lineno=ln, col_offset=0)]
        v = self.block(stmts, self.env0)
        v = self.ex_lift(v) if v.t == 'ERR' else self.finish(v)
        if v.t == 'V':
            if self.has_vec:
                raise Unsupported('the function returns a vector')
        ty = self.ltype(v)          # first: rejects results that are not numbers / options / tuples of them
        body = self.RV(v)
        binders = list(self.spec.pre)
        if self.has_vec and not any(nm == 'n' for nm, _ in binders):
            binders.append(('n', 'Nat'))
        binders += self.binders
        return binders, ty, body


def _group_binders(binders):
    out, i = [], 0
    while i < len(binders):
        j = i
        while j + 1 < len(binders) and binders[j + 1][1] == binders[i][1]:
            j += 1
        out.append('(%s : %s)' % (' '.join(b[0] for b in binders[i:j + 1]), binders[i][1]))
        i = j + 1
    return ' '.join(out)


def _doc(s):
    return s.replace('-/', '- /').replace('/-', '/ -')


def locate_function(trees, loc):
    """-> (FunctionDef or None, description, decorator names)"""
    fname, cls, func, inner = loc
    tree = trees.get(fname)
    if tree is None:
        return None, 'pygam/%s cannot be parsed' % fname, []
    scope = tree
    label = func
    if cls is not None:
        scope = find_class(tree, cls)
        label = '%s.%s' % (cls, func)
        if scope is None:
            return None, 'class %s not found in pygam/%s' % (cls, fname), []
    fn = find_func(scope, func)
    if fn is None:
        return None, '%s not found in pygam/%s' % (label, fname), []
    decos = []
    for d in fn.decorator_list:
        try:
            decos.append(ast.unparse(d))
        except Exception:
            decos.append('?')
    if inner is not None and inner != 'inner':
        # a nested helper function, by name
        cands = [x for x in ast.walk(fn) if isinstance(x, ast.FunctionDef) and x is not fn and x.name == inner]
        if len(cands) != 1:
            return None, 'nested function %s not found in %s (pygam/%s)' % (inner, label, fname), decos
        return cands[0], '%s.%s' % (label, inner), decos
    if inner is not None:
        # decorator: the nested function that the outer one returns
        ret = [s for s in fn.body if isinstance(s, ast.Return)]
        inner_fn = None
        if len(ret) == 1 and isinstance(ret[0].value, ast.Name):
            inner_fn = find_func(fn, ret[0].value.id)
        if inner_fn is None:
            return None, '%s does not return a nested function' % label, decos
        if len(fn.args.args) != 1:
            return None, '%s does not take exactly one function' % label, decos
        inner_fn._wrapped_name = fn.args.args[0].arg
        return inner_fn, '%s (wrapper `%s`)' % (label, inner_fn.name), decos
    return fn, label, decos


def registry_classes(tree, name):
    """{key: class name} of a module-level `NAME = {'key': Class, …}`"""
    if tree is None:
        return {}
    for n in tree.body:
        if isinstance(n, ast.Assign) and len(n.targets) == 1 and isinstance(n.targets[0], ast.Name) and n.targets[0].id == name \
                and isinstance(n.value, ast.Dict):
            out = {}
            for k, v in zip(n.value.keys, n.value.values):
                if isinstance(k, ast.Constant) and isinstance(k.value, str) and isinstance(v, ast.Name):
                    out[k.value] = v.id
            return out
    return {}


LINK_KEYS = [('identity', 'identity'), ('log', 'log'), ('logit', 'logit'), ('inverse', 'inverse'), ('inv_squared', 'invSquared')]
FAMILY_KEYS = [('normal', 'normal'), ('binomial', 'binomial'), ('poisson', 'poisson'), ('gamma', 'gamma'), ('inv_gauss', 'invGauss')]

# only the instances a definition uses become its arguments, so one generous list per group is enough; the link group has
# `ExpLog` (exp, log, sqrt), the other two `HasLogSqrt` (log, sqrt) — as the models they are compared with
FORMULA_VARIABLES = {
    'links': 'variable {α : Type} [Zero α] [One α] [Add α] [Sub α] [Mul α] [Div α] [Neg α] [LE α] [LT α] [DecidableLE α] [DecidableLT α]\n'
             '  [ExpLog α]',
    'dists': 'variable {α : Type} [Zero α] [One α] [Add α] [Sub α] [Mul α] [Div α] [Neg α] [LE α] [LT α] [DecidableLE α] [DecidableLT α]\n'
             '  [HasLogSqrt α]',
}
FORMULA_VARIABLES['gam'] = FORMULA_VARIABLES['dists']
FORMULA_VARIABLES['nat'] = None       # natural-number functions: no type variable


def formula_specs(trees):
    specs = []
    links = registry_classes(trees.get('links.py'), 'LINKS')
    for key, suffix in LINK_KEYS:
        cls = links.get(key, '<no class registered under %r in LINKS>' % key)
        for func, prefix in (('link', 'link'), ('mu', 'linkInv'), ('gradient', 'linkGrad')):
            specs.append(FormulaSpec('%s_%s' % (prefix, suffix), 'links', ('links.py', cls, func, None),
                                     pre=[('levels', 'α')], params=['S', 'D'], attrs={'dist.levels': ('S', 'levels')}))
    dists = registry_classes(trees.get('distributions.py'), 'DISTRIBUTIONS')
    dattrs = {'self.levels': ('S', 'levels'), 'self.scale': ('S', 'scale')}
    for key, suffix in FAMILY_KEYS:
        cls = dists.get(key, '<no class registered under %r in DISTRIBUTIONS>' % key)
        specs.append(FormulaSpec('V_%s' % suffix, 'dists', ('distributions.py', cls, 'V', None),
                                 pre=[('levels', 'α')], params=['S'], attrs=dattrs))
    for key, suffix in FAMILY_KEYS:
        cls = dists.get(key, '<no class registered under %r in DISTRIBUTIONS>' % key)
        specs.append(FormulaSpec('deviance_%s' % suffix, 'dists', ('distributions.py', cls, 'deviance', None),
                                 pre=[('levels', 'α'), ('scale', 'α')], params=['S', 'S', 'B'], attrs=dattrs))
    # the two decorators: `multiplied(self, y, mu, weights=None, **kwargs)`, `divided(self, mu, weights=None, **kwargs)`
    specs.append(FormulaSpec('multiply_weights', 'dists', ('distributions.py', None, 'multiply_weights', 'inner'),
                             pre=[('inner', 'α')], params=['X', 'X', 'S'], attrs={},
                             callees={'@wrapped': dict(kind='value', t='S', lean='inner')},
                             what='the undecorated result is the parameter `inner`'))
    specs.append(FormulaSpec('divide_weights', 'dists', ('distributions.py', None, 'divide_weights', 'inner'),
                             pre=[('inner', 'α')], params=['X', 'S'], attrs={},
                             callees={'@wrapped': dict(kind='value', t='S', lean='inner')},
                             what='the undecorated result is the parameter `inner`'))
    specs.append(FormulaSpec('phi', 'dists', ('distributions.py', 'Distribution', 'phi', None),
                             pre=[('V', 'α → α'), ('known_scale', 'Bool'), ('scale', 'α')], params=['V', 'V', 'S', 'V'],
                             attrs={'self.scale': ('S', 'scale'), 'self._known_scale': ('B', 'known_scale')},
                             callees={'self.V': dict(kind='fn', lean='V', sig=['mu'], use={'mu': 'E'})},
                             what='`self.V` is the parameter `V` (called without weights)'))
    gam_attrs = {'self.distribution': ('D', None), 'self.distribution.scale': ('S', 'scale'),
                 'self.distribution._known_scale': ('B', 'known_scale'), 'self.expectile': ('S', 'expectile'),
                 "self.statistics_['edof']": ('S', 'edof'), "self.statistics_['AIC']": ('S', 'aic')}
    grad = dict(kind='fn', lean='linkGrad', sig=['mu', 'dist'], use={'mu': 'E'})
    linv = dict(kind='fn', lean='linkInv', sig=['lp', 'dist'], use={'lp': 'E'})
    varf = dict(kind='fn', lean='V', sig=['mu'], use={'mu': 'E'})
    dev = dict(kind='fn', lean='deviance', sig=['y', 'mu', 'weights', 'scaled'], use={'y': 'E', 'mu': 'E', 'weights': 'E', 'scaled': 'B'},
               defaults={'weights': _num(1), 'scaled': ('btrue',)})
    ll = dict(kind='fn', lean='loglikelihood', sig=['y', 'mu', 'weights'], use={'y': 'W', 'mu': 'W', 'weights': 'W'}, ret='S')
    vec = 'Nat → α'
    specs.append(FormulaSpec('W_GAM', 'gam', ('pygam.py', 'GAM', '_W', None),
                             pre=[('linkGrad', 'α → α'), ('V', 'α → α')], params=['S', 'S', 'S'], attrs=gam_attrs,
                             callees={'self.link.gradient': grad, 'self.distribution.V': varf},
                             what='one diagonal entry; `self.link.gradient(·, dist)` ↦ `linkGrad`, `self.distribution.V` ↦ `V`'))
    specs.append(FormulaSpec('W_ExpectileGAM', 'gam', ('pygam.py', 'ExpectileGAM', '_W', None),
                             pre=[('linkGrad', 'α → α'), ('V', 'α → α'), ('expectile', 'α')], params=['S', 'S', 'S'], attrs=gam_attrs,
                             callees={'self.link.gradient': grad, 'self.distribution.V': varf},
                             what='one diagonal entry; `self.link.gradient(·, dist)` ↦ `linkGrad`, `self.distribution.V` ↦ `V`'))
    specs.append(FormulaSpec('pseudo_data', 'gam', ('pygam.py', 'GAM', '_pseudo_data', None),
                             pre=[('linkGrad', 'α → α')], params=['S', 'S', 'S'], attrs=gam_attrs,
                             callees={'self.link.gradient': grad},
                             what='one entry; `self.link.gradient(·, dist)` ↦ `linkGrad`'))
    specs.append(FormulaSpec('estimate_AIC', 'gam', ('pygam.py', 'GAM', '_estimate_AIC', None),
                             pre=[('loglikelihood', '(%s) → (%s) → (%s) → α' % (vec, vec, vec)), ('known_scale', 'Bool'), ('edof', 'α')],
                             params=['V', 'V', 'V'], attrs=gam_attrs, callees={'self._loglikelihood': ll},
                             what='`self._loglikelihood(y, mu, weights)` ↦ `loglikelihood`, `self.statistics_[\'edof\']` ↦ `edof`'))
    specs.append(FormulaSpec('estimate_AICc', 'gam', ('pygam.py', 'GAM', '_estimate_AICc', None),
                             pre=[('aic', 'α'), ('edof', 'α')], params=['V', 'V', 'V'], attrs=gam_attrs, callees={},
                             what='`self.statistics_[\'AIC\']` ↦ `aic`, `self.statistics_[\'edof\']` ↦ `edof`'))
    specs.append(FormulaSpec('estimate_r2', 'gam', ('pygam.py', 'GAM', '_estimate_r2', None),
                             pre=[('deviance', 'α → α → α → Bool → α'), ('loglikelihood', '(%s) → (%s) → (%s) → α' % (vec, vec, vec)), ('edof', 'α')],
                             params=['X', 'V', 'V', 'V'], attrs=gam_attrs,
                             callees={'self._loglikelihood': ll, 'self.distribution.deviance': dev},
                             what='`self.distribution.deviance(y, mu, weights, scaled)` ↦ `deviance` (entrywise), '
                                  '`self._loglikelihood` ↦ `loglikelihood`; returns (explained_deviance, McFadden, McFadden_adj)'))
    specs.append(FormulaSpec('estimate_GCV_UBRE', 'gam', ('pygam.py', 'GAM', '_estimate_GCV_UBRE', None),
                             pre=[('linkInv', 'α → α'), ('deviance', 'α → α → α → Bool → α'), ('known_scale', 'Bool'), ('scale', 'α'),
                                  ('edof', 'α'), ('lp', vec)],
                             params=['X', 'V', 'X', 'S', 'B', 'V'], attrs=gam_attrs,
                             callees={'self._linear_predictor': dict(kind='value', t='V', lean='lp'), 'self.link.mu': linv,
                                      'self.distribution.deviance': dev},
                             what='`self._linear_predictor(modelmat)` ↦ `lp`, `self.link.mu(·, dist)` ↦ `linkInv`, '
                                  '`self.distribution.deviance(y, mu, weights, scaled)` ↦ `deviance` (entrywise); returns (GCV, UBRE)'))
    specs.append(FormulaSpec('deviance_residual', 'gam', ('pygam.py', 'GAM', 'deviance_residuals', None),
                             pre=[('deviance', 'α → α → α → Bool → α')], params=['X', 'S', 'S', 'B'], attrs=gam_attrs,
                             callees={'self.distribution.deviance': dev},
                             fragment=frag_deviance_residual_tail, frag_vars={'mu': ('S', 'mu')},
                             what='one entry; the statements from `sign = …` to the `return` (after validation and `mu = predict_mu(X)`); '
                                  '`np.sign(x)` ↦ `if 0 < x then 1 else if x < 0 then -1 else 0`; `self.distribution.deviance(y, mu, weights, scaled)` ↦ `deviance`'))
    specs.append(FormulaSpec('exposure_to_weights_core', 'gam', ('pygam.py', 'PoissonGAM', '_exposure_to_weights', None),
                             pre=[], params=['S', 'S', 'S'], attrs=gam_attrs, callees={},
                             fragment=frag_exposure_core,
                             what='one entry; the two arithmetic assignments (`y = y / exposure`, `weights = weights * exposure`) and the final '
                                  '`return y, weights`, with validation, casts and the `None` defaults left to the hand-written model'))
    specs.append(FormulaSpec('poisson_predict', 'gam', ('pygam.py', 'PoissonGAM', 'predict', None),
                             pre=[('rate', 'α')], params=['X', 'S'], attrs=gam_attrs,
                             callees={'self.predict_mu': dict(kind='value', t='S', lean='rate')},
                             fragment=frag_final_return,
                             what='one entry; the final `return` (after validation, the float32 cast and the `None` default of `exposure`); `self.predict_mu(X)` ↦ `rate`'))
    specs.append(FormulaSpec('quantile_line', 'gam', ('pygam.py', 'GAM', '_get_quantiles', None),
                             pre=[], params=['X', 'X', 'X', 'X', 'S', 'X', 'X', 'X'], attrs=gam_attrs, callees={},
                             fragment=frag_quantile_line, frag_vars={'q': ('S', 'q'), 'var': ('S', 'var')},
                             what='one entry of one interval line on the link scale: the argument of `lines.append(…)` in the loop over the levels '
                                  '(`q` the reference quantile, `var` the variance of the linear predictor, `lp` the linear predictor)'))
    # the built-in Deviance callback: what is logged at the start of each iteration (C20)
    cb_attrs = {'dist.distribution': ('D', None)}      # the `gam` parameter has role 'D' (an object whose attributes are read): its paths start with `dist`
    specs.append(FormulaSpec('callback_deviance', 'gam', ('callbacks.py', 'Deviance', 'on_loop_start', None),
                             pre=[('deviance', 'α → α → α → Bool → α')], params=['D', 'V', 'V'], attrs=cb_attrs,
                             callees={'dist.distribution.deviance': dev},
                             what='`gam.distribution.deviance(y, mu, weights, scaled)` ↦ `deviance` (entrywise; `weights` omitted = 1); the logged value'))
    return specs


def formulas_text(trees):
    L = []
    L.append('import PyGam.Model.Vec')
    L.append('import PyGam.Model.Links')
    L.append('import PyGam.Model.Dists')
    L.append('/-! GENERATED by tools/translate.py from %s — do not edit.  Regenerated on every check run.' % os.path.join(REPO, 'pygam'))
    L.append('')
    L.append('The straight-line arithmetic functions of pyGAM, translated from the abstract syntax tree of the current source (nothing')
    L.append('is imported or executed): one definition per source function, generic over the notation classes of the hand-written')
    L.append('models.  `Props/C01, C06, C07, C08, C18` prove (`gen_formula_*`) that each of them IS the model definition.')
    L.append('Rules: `x ** -1, -2, -3, -0.5, 0.5, 2, 3` ↦ `1/x, 1/(x*x), 1/(x*x*x), 1/sqrt x, sqrt x, x*x, x*x*x`; the literal `2` ↦ `1 + 1`;')
    L.append('`np.asarray`, `.astype`, `sp.sparse.diags` ↦ identity; `np.ones_like` ↦ `1`; locals are inlined; `a > b` ↦ `b < a`; a Bool used')
    L.append('as a number ↦ `if c then 1 else 0`; `np.sum` / `.sum()` ↦ `sumTo n`, `len` / `.shape[0]` ↦ `natTo n`.')
    L.append('A function outside the supported subset becomes a `Gen.Untranslatable` (with the reason): its tie theorem then fails to build. -/')
    L.append('set_option linter.unusedVariables false')
    L.append('namespace PyGam.Gen')
    L.append('')
    L.append('/-- placeholder for a source function the translator could not translate; `reason` (part of the type, so that it shows')
    L.append('in the type-mismatch error of the broken tie theorem) says why -/')
    L.append('structure Untranslatable (reason : String) : Type where')
    L.append('')
    problems, decorators = emit_definitions(L, formula_specs(trees), trees, 'Untranslatable')
    L.append('/-- decorators of the `V` / `deviance` methods as written in the source (`multiply_weights`, `divide_weights` above) -/')
    L.append('def methodDecorators : List (String × List String) :=')
    L.append('  [' + ',\n   '.join('(%s, [%s])' % (lstr(nm), ', '.join(lstr(d) for d in ds)) for nm, ds in decorators) + ']')
    L.append('')
    L.append('end PyGam.Gen')
    return '\n'.join(L) + '\n', problems



# ---------------------------------------------------------------------------------------------------------
# Decisions: translation of small decision functions into lean/PyGam/Gen/Decisions.lean
# ---------------------------------------------------------------------------------------------------------
# Same engine, with strings (`==`, `!=`, `in [...]`, `is None`), `and` / `or`, `raise X(…)` as a result
# (`Except String _`, the string is the exception class), natural-number arithmetic (`n_coefs`), `np.abs`, `np.r_[a, b]` (a pair),
# and FRAGMENTS: a run of `if` statements inside a larger function (the `'auto'` resolution in the loop of
# `Term.build_penalties`, the objective checks of `GAM.gridsearch`), selected structurally and closed with
# `return <the variable they decide>`.  Conditions on literals are decided at translation time (so the `None` test after
# `penalty = 'l2'` disappears).

def frag_auto_penalty(fn):
    """`Term.build_penalties`: in the loop `for penalty, lam in …`, the leading `if` statements up to the registry lookup
    `if penalty in PENALTIES`"""
    loops = [s for s in fn.body if isinstance(s, ast.For) and any(isinstance(x, ast.Name) and x.id == 'penalty' for x in ast.walk(s.target))]
    if len(loops) != 1:
        raise Unsupported('expected exactly one loop `for penalty, … in …`')
    out = []
    for s in loops[0].body:
        if not isinstance(s, ast.If):
            break
        t = s.test
        if isinstance(t, ast.Compare) and len(t.ops) == 1 and isinstance(t.ops[0], ast.In) and isinstance(t.comparators[0], ast.Name):
            break
        out.append(s)
    if not out:
        raise Unsupported('the loop does not start with the resolution of the penalty name')
    return out


def frag_objective(fn):
    """`GAM.gridsearch`: the first contiguous run of top-level `if` statements that mention `objective`"""
    out = []
    for s in fn.body:
        m = isinstance(s, ast.If) and any(isinstance(x, ast.Name) and x.id == 'objective' for x in ast.walk(s))
        if m:
            out.append(s)
        elif out:
            break
    if not out:
        raise Unsupported('no `if` statement about `objective`')
    return out


def frag_expectile_check(fn):
    """`ExpectileGAM._validate_params`: the leading `if` statements that mention `self.expectile` (the range check), followed
    by a synthetic `checked = self.expectile` so that the accepted value is the result of the fragment"""
    out = []
    for s in fn.body:
        if isinstance(s, ast.Expr) and isinstance(getattr(s, 'value', None), ast.Constant) and isinstance(s.value.value, str):
            continue        # docstring
        m = isinstance(s, ast.If) and any(isinstance(x, ast.Attribute) and x.attr == 'expectile' for x in ast.walk(s))
        if m:
            out.append(s)
        else:
            break
    if not out:
        raise Unsupported('no leading `if` statement about `self.expectile`')
    ln = out[-1].end_lineno or out[-1].lineno
    assign = ast.parse('checked = self.expectile').body[0]
    for node in ast.walk(assign):
        if hasattr(node, 'lineno'):
            node.lineno = ln
            node.end_lineno = ln
    return out + [assign]


def make_frag_leading_raises(result_name):
    """fragment selector: the leading run of top-level `if …: raise …` statements of a method (after the docstring and any
    nested helper definitions), followed by a synthetic `checked = <result_name>` so that the fragment has a value when every
    check passes"""
    def frag(fn):
        out = []
        for s in fn.body:
            if isinstance(s, ast.Expr) and isinstance(getattr(s, 'value', None), ast.Constant) and isinstance(s.value.value, str):
                continue
            if isinstance(s, ast.FunctionDef) and not out:
                continue
            if isinstance(s, ast.If) and not s.orelse and len(s.body) == 1 and isinstance(s.body[0], ast.Raise):
                out.append(s)
            else:
                break
        if not out:
            raise Unsupported('no leading `if …: raise …` statement')
        ln = out[-1].end_lineno or out[-1].lineno
        assign = ast.parse('checked = %s' % result_name).body[0]
        for node in ast.walk(assign):
            if hasattr(node, 'lineno'):
                node.lineno = ln
                node.end_lineno = ln
        return out + [assign]
    return frag


def frag_quantile_level_check(fn):
    """`GAM._get_quantiles`: the body of the first top-level `for quantile in quantiles:` loop when it is a single
    `if …: raise …` (the per-level range check), followed by a synthetic `checked = quantile`"""
    for s in fn.body:
        if isinstance(s, ast.For) and isinstance(s.target, ast.Name) and s.target.id == 'quantile' \
                and isinstance(s.iter, ast.Name) and s.iter.id == 'quantiles' and not s.orelse:
            body = s.body
            if len(body) == 1 and isinstance(body[0], ast.If) and not body[0].orelse and len(body[0].body) == 1 \
                    and isinstance(body[0].body[0], ast.Raise):
                ln = body[0].end_lineno or body[0].lineno
                assign = ast.parse('checked = quantile').body[0]
                for node in ast.walk(assign):
                    if hasattr(node, 'lineno'):
                        node.lineno = ln
                        node.end_lineno = ln
                return [body[0], assign]
            raise Unsupported('the first `for quantile in quantiles:` loop is not a single `if …: raise …`')
    raise Unsupported('no top-level `for quantile in quantiles:` loop')


def frag_deviance_residual_tail(fn):
    """`GAM.deviance_residuals`: the trailing statements from `sign = …` to the final `return` (what is computed once the
    inputs are validated and `mu` predicted)"""
    body = fn.body
    for i, s in enumerate(body):
        if isinstance(s, ast.Assign) and len(s.targets) == 1 and isinstance(s.targets[0], ast.Name) and s.targets[0].id == 'sign':
            tail = body[i:]
            if not isinstance(tail[-1], ast.Return):
                raise Unsupported('the statements after `sign = …` do not end in `return`')
            return tail
    raise Unsupported('no top-level assignment `sign = …`')


def frag_exposure_core(fn):
    """`PoissonGAM._exposure_to_weights`: the two top-level arithmetic assignments `y = <y op exposure>` and
    `weights = <weights op exposure>` (whatever the operators are), in source order, followed by the method's own final `return`"""
    picked = []
    for s in fn.body:
        if isinstance(s, ast.Assign) and len(s.targets) == 1 and isinstance(s.targets[0], ast.Name) \
                and s.targets[0].id in ('y', 'weights') and isinstance(s.value, ast.BinOp):
            picked.append(s)
    if [s.targets[0].id for s in picked] != ['y', 'weights']:
        raise Unsupported('expected exactly one arithmetic assignment to `y` and then one to `weights` at the top level, found %s'
                          % [s.targets[0].id for s in picked])
    if not isinstance(fn.body[-1], ast.Return):
        raise Unsupported('the method does not end in `return`')
    return picked + [fn.body[-1]]


def frag_final_return(fn):
    """the method's final `return` statement alone (what is computed once the inputs are validated)"""
    if not isinstance(fn.body[-1], ast.Return):
        raise Unsupported('the method does not end in `return`')
    return [fn.body[-1]]


def frag_quantile_line(fn):
    """`GAM._get_quantiles`: the argument of the single `lines.append(…)` inside a top-level `for quantile in quantiles:` loop,
    as a synthetic `return <argument>` (one interval line on the link scale)"""
    found = []
    for s in fn.body:
        if isinstance(s, ast.For) and isinstance(s.target, ast.Name) and s.target.id == 'quantile':
            for t in ast.walk(s):
                if isinstance(t, ast.Call) and isinstance(t.func, ast.Attribute) and t.func.attr == 'append' \
                        and isinstance(t.func.value, ast.Name) and t.func.value.id == 'lines' and len(t.args) == 1 and not t.keywords:
                    found.append(t)
    if len(found) != 1:
        raise Unsupported('expected exactly one `lines.append(…)` in the loops over `quantiles`, found %d' % len(found))
    return [ast.copy_location(ast.Return(value=found[0].args[0]), found[0])]


frag_leading_raises = make_frag_leading_raises('n_draws')


MODEL_CLASSES = ['GAM', 'LinearGAM', 'LogisticGAM', 'PoissonGAM', 'GammaGAM', 'InvGaussGAM', 'ExpectileGAM']


def decision_specs(trees):
    specs = []
    specs.append(FormulaSpec('resolve_penalty', 'dists', ('terms.py', 'Term', 'build_penalties', None),
                             pre=[('dtype', 'String'), ('term_name', 'String'), ('basis', 'String')], params=['X'],
                             attrs={'self.dtype': ('Str', 'dtype'), 'self._name': ('Str', 'term_name'), 'self.basis': ('Str', 'basis')},
                             fragment=frag_auto_penalty, frag_vars={'penalty': ('OS', 'penalty')}, frag_return='penalty',
                             what='the resolution of one penalty name in the loop (`\'auto\'`, `None`), before the lookup in `PENALTIES`'))
    specs.append(FormulaSpec('gen_edge_knots', 'dists', ('utils.py', None, 'gen_edge_knots', None),
                             pre=[('dmin', 'α'), ('dmax', 'α')], params=['X', 'Str', 'X'], self_param=False,
                             callees={'np.min': dict(kind='value', t='S', lean='dmin', args_ignored_only=True),
                                      'np.max': dict(kind='value', t='S', lean='dmax', args_ignored_only=True)},
                             what='`np.min(data)` ↦ `dmin`, `np.max(data)` ↦ `dmax`; `np.r_[a, b]` ↦ `(a, b)`'))
    nat = dict(scalar='Nat')
    specs.append(FormulaSpec('n_coefs_intercept', 'nat', ('terms.py', 'Intercept', 'n_coefs', None), pre=[], params=[], **nat))
    specs.append(FormulaSpec('n_coefs_linear', 'nat', ('terms.py', 'LinearTerm', 'n_coefs', None), pre=[], params=[], **nat))
    specs.append(FormulaSpec('n_coefs_spline', 'nat', ('terms.py', 'SplineTerm', 'n_coefs', None), pre=[('n_splines', 'Nat')], params=[],
                             attrs={'self.n_splines': ('S', 'n_splines')}, **nat))
    specs.append(FormulaSpec('n_coefs_factor', 'nat', ('terms.py', 'FactorTerm', 'n_coefs', None),
                             pre=[('n_splines', 'Nat'), ('coding', 'String')], params=[],
                             attrs={'self.n_splines': ('S', 'n_splines'), 'self.coding': ('Str', 'coding')},
                             what='natural-number subtraction (`n_splines ≥ 1`)', **nat))
    specs.append(FormulaSpec('n_coefs_tensor', 'nat', ('terms.py', 'TensorTerm', 'n_coefs', None),
                             pre=[('marginal_n_coefs', 'List Nat')], params=[],
                             attrs={'self._terms[*].n_coefs': ('LS', 'marginal_n_coefs')},
                             what='`[term.n_coefs for term in self._terms]` ↦ `marginal_n_coefs`, `np.prod` ↦ `prodList`', **nat))
    specs.append(FormulaSpec('gridsearch_objective', 'dists', ('pygam.py', 'GAM', 'gridsearch', None),
                             pre=[('known_scale', 'Bool')], params=['X', 'X', 'X', 'X', 'X', 'Str', 'X'],
                             attrs={'self.distribution._known_scale': ('B', 'known_scale')},
                             fragment=frag_objective, frag_return='objective', raises=True,
                             what='the validation and resolution of `objective`; `.error` carries the exception class'))
    specs.append(FormulaSpec('expectile_range_check', 'dists', ('pygam.py', 'ExpectileGAM', '_validate_params', None),
                             pre=[('expectile', 'α')], params=[], attrs={'self.expectile': ('S', 'expectile')},
                             fragment=frag_expectile_check, frag_return='checked', raises=True,
                             what='the range check of `expectile` at the head of the method; `.error` carries the exception class, `.ok` the accepted value'))
    specs.append(FormulaSpec('sample_coef_checks', 'dists', ('pygam.py', 'GAM', '_sample_coef', None),
                             pre=[('is_fitted', 'Bool')], params=['X', 'X', 'X', 'S', 'S', 'X'],
                             attrs={'self._is_fitted': ('B', 'is_fitted')},
                             fragment=frag_leading_raises, frag_return='checked', raises=True,
                             what='the argument checks at the head of the method, in source order; `.error` carries the exception class, `.ok` the accepted `n_draws`'))
    specs.append(FormulaSpec('fit_quantile_checks', 'dists', ('pygam.py', 'ExpectileGAM', 'fit_quantile', None),
                             pre=[], params=['X', 'X', 'S', 'S', 'S', 'X'], attrs={},
                             fragment=make_frag_leading_raises('quantile'), frag_return='checked', raises=True,
                             what='the argument checks at the head of the method, in source order; `.error` carries the exception class, `.ok` the accepted `quantile`'))
    specs.append(FormulaSpec('quantile_level_check', 'dists', ('pygam.py', 'GAM', '_get_quantiles', None),
                             pre=[], params=['X', 'X', 'X', 'X', 'X', 'X', 'X', 'X'], attrs={},
                             fragment=frag_quantile_level_check, frag_vars={'quantile': ('S', 'quantile')}, frag_return='checked', raises=True,
                             what='the range check applied to every requested level (body of the first loop over `quantiles`); `.error` carries the exception class, `.ok` the accepted level'))
    specs.append(FormulaSpec('within_tol', 'dists', ('pygam.py', 'ExpectileGAM', 'fit_quantile', '_within_tol'),
                             pre=[], params=['S', 'S', 'S'], self_param=False,
                             what='`np.abs(x)` ↦ `if x < 0 then -x else x`'))
    return specs


def class_recreates_dist(tree, cls):
    """does `<cls>._validate_params` (its own definition) contain the top-level statement
    `self.distribution = <Class>(scale=self.scale)` ?  None when the class is missing"""
    node = find_class(tree, cls) if tree is not None else None
    if node is None:
        return None
    fn = find_func(node, '_validate_params')
    if fn is None or not fn.args.args:
        return False
    me = fn.args.args[0].arg
    for s in fn.body:
        if isinstance(s, ast.Assign) and len(s.targets) == 1:
            t, v = s.targets[0], s.value
            if isinstance(t, ast.Attribute) and isinstance(t.value, ast.Name) and t.value.id == me and t.attr == 'distribution' \
                    and isinstance(v, ast.Call) and isinstance(v.func, ast.Name) and not v.args and len(v.keywords) == 1 \
                    and v.keywords[0].arg == 'scale' and isinstance(v.keywords[0].value, ast.Attribute) \
                    and isinstance(v.keywords[0].value.value, ast.Name) and v.keywords[0].value.value.id == me \
                    and v.keywords[0].value.attr == 'scale':
                return True
    return False


def emit_definitions(L, specs, trees, placeholder):
    """append the translated definitions of `specs` to the line list L; returns (problems, [(name, decorators)])"""
    problems, decorators = [], []
    cur = None
    for spec in specs:
        var = FORMULA_VARIABLES.get(spec.ctx)
        if var != cur:
            if cur is not None:
                L.append('end')
                L.append('')
            if var is not None:
                L.append('section')
                L.append(var)
                L.append('')
        cur = var
        fn, label, decos = locate_function(trees, spec.locate)
        fname = spec.locate[0]
        if fn is None:
            L.append('/-- NOT TRANSLATED: %s -/' % _doc(label))
            L.append('def %s : %s %s := {}' % (spec.name, placeholder, lstr(label)))
            L.append('')
            problems.append('%s: %s' % (spec.name, label))
            continue
        where = 'pygam/%s:%d-%d' % (fname, fn.lineno, fn.end_lineno)
        if spec.locate[3] is None and spec.locate[1] is not None and spec.ctx == 'dists' and spec.locate[2] in ('V', 'deviance'):
            decorators.append((spec.name, decos))
        tr = FormulaTranslator(spec, fn)
        if spec.locate[3] == 'inner':
            # the wrapped function (the decorator's parameter) is called as  wrapped(self, …, **kwargs)
            wrapped = getattr(fn, '_wrapped_name', None)
            spec.callees = {wrapped: spec.callees['@wrapped']}
        try:
            binders, ty, body = tr.translate()
        except Unsupported as e:
            reason = '%s (%s): %s' % (label, where, e)
            L.append('/-- NOT TRANSLATED: %s -/' % _doc(reason))
            L.append('def %s : %s %s := {}' % (spec.name, placeholder, lstr(reason)))
            L.append('')
            problems.append('%s: %s' % (spec.name, reason))
            continue
        except Exception as e:      # never let a source the translator does not understand stop the run
            reason = '%s (%s): translator error %s: %s' % (label, where, type(e).__name__, e)
            L.append('/-- NOT TRANSLATED: %s -/' % _doc(reason))
            L.append('def %s : %s %s := {}' % (spec.name, placeholder, lstr(reason)))
            L.append('')
            problems.append('%s: %s' % (spec.name, reason))
            continue
        doc = '`%s` — %s' % (label, where)
        if spec.what:
            doc += '.  ' + spec.what
        keys = getattr(tr, 'record_keys', None)
        if keys:
            doc += '.  Record keys in order: ' + ', '.join(keys)
        if tr.notes:
            doc += '.  ' + '; '.join(sorted(set(tr.notes), key=tr.notes.index))
        L.append('/-- %s -/' % _doc(doc))
        bs = _group_binders(binders)
        L.append('def %s%s : %s :=' % (spec.name, (' ' + bs) if bs else '', ty))
        L.append('  ' + body)
        L.append('')
    if cur is not None:
        L.append('end')
        L.append('')
    return problems, decorators


def decisions_text(trees):
    L = []
    L.append('import PyGam.Model.Vec')
    L.append('import PyGam.Model.Dists')
    L.append('/-! GENERATED by tools/translate.py from %s — do not edit.  Regenerated on every check run.' % os.path.join(REPO, 'pygam'))
    L.append('')
    L.append('Small DECISION functions of pyGAM, translated from the abstract syntax tree of the current source (nothing is imported or')
    L.append('executed): names are `String`s, `None`-able names `Option String`, `raise X(…)` is `.error "X"` of an `Except String _`,')
    L.append('counts are `Nat`.  `Props/C03, C04, C10, C15, C16, C18` prove (`gen_decision_*`) that each of them IS the decision the')
    L.append('hand-written model takes.  Two of them are fragments of larger functions (selected structurally, see tools/translate.py).')
    L.append('A function outside the supported subset becomes a `Gen.UndecidedSource` (with the reason): its tie theorem then fails to build. -/')
    L.append('set_option linter.unusedVariables false')
    L.append('namespace PyGam.Gen')
    L.append('')
    L.append('/-- placeholder for a source function the translator could not translate; `reason` (part of the type, so that it shows')
    L.append('in the type-mismatch error of the broken tie theorem) says why -/')
    L.append('structure UndecidedSource (reason : String) : Type where')
    L.append('')
    problems, _ = emit_definitions(L, decision_specs(trees), trees, 'UndecidedSource')
    L.append('/-- for every model class: does its own `_validate_params` execute `self.distribution = <Dist>(scale=self.scale)`')
    L.append('(a fresh distribution object on every fit)?  `none`: the class is not in pygam/pygam.py -/')
    L.append('def classRecreatesDist : List (String × Option Bool) :=')
    rows = []
    for c in MODEL_CLASSES:
        r = class_recreates_dist(trees.get('pygam.py'), c)
        rows.append('(%s, %s)' % (lstr(c), 'none' if r is None else ('some true' if r else 'some false')))
    L.append('  [' + ',\n   '.join(rows) + ']')
    L.append('')
    L.append('end PyGam.Gen')
    return '\n'.join(L) + '\n', problems


def write_if_changed(path, text):
    os.makedirs(os.path.dirname(path), exist_ok=True)
    old = open(path).read() if os.path.exists(path) else None
    if old != text:
        with open(path, 'w') as fh:
            fh.write(text)
        print('translate: wrote', os.path.relpath(path, HERE))


def decisions_main(trees):
    text, problems = decisions_text(trees)
    for p in problems:
        print('translate: NOT TRANSLATED', p)
    write_if_changed(OUT_DECISIONS, text)
    return 0


def parse_all(names):
    trees = {}
    for name in names:
        try:
            trees[name] = parse(name)
        except Exception as e:      # unreadable / syntactically broken source: every definition becomes a placeholder
            trees[name] = None
            print('translate: cannot parse pygam/%s: %s' % (name, e))
    return trees


def formulas_main():
    text, problems = formulas_text(parse_all(('links.py', 'distributions.py', 'pygam.py', 'callbacks.py')))
    for p in problems:
        print('translate: NOT TRANSLATED', p)
    write_if_changed(OUT_FORMULAS, text)
    return 0


def main():
    rc = tables_main()
    rc2 = formulas_main()
    rc3 = decisions_main(parse_all(('terms.py', 'utils.py', 'pygam.py')))
    return rc or rc2 or rc3


if __name__ == '__main__':
    sys.exit(main())
