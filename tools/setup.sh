#!/bin/sh
# MANIFEST.setup_cmd: build the Lean library property by property (so that one broken module cannot block the
# others) and the compiled model driver. Offline; Mathlib comes from the toolchain path.
python3 "$(dirname "$0")/translate.py" || /venv/bin/python "$(dirname "$0")/translate.py"
cd "$(dirname "$0")/../lean" || exit 1
ok=0
for f in PyGam/Props/C*.lean; do
  p=$(basename "$f" .lean)
  if lake build "PyGam.Props.$p" "PyGam.Drv.$p" >/dev/null 2>&1; then echo "built $p"; else echo "FAILED to build $p"; ok=1; fi
done
lake build pgdriver >/dev/null 2>&1 && echo "built pgdriver" || echo "pgdriver not built (checks fall back to the interpreted driver)"
exit 0
