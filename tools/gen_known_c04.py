"""Regenerates the selector table of the known finding C04/D14 (penalties.periodic is not the
cyclic difference penalty): one digest of the exact wrong matrix per (n, derivative) of the check grids.
Run once by hand: /venv/bin/python tools/gen_known_c04.py  (prints the list)."""
import hashlib, json, sys
import numpy as np
sys.path.insert(0, '/repo')
from pygam import penalties
out = []
for n in list(range(1, 31)) + [40, 64]:
    for d in range(1, 7):
        try:
            P = np.asarray(penalties.periodic(n, None, derivative=d).todense(), dtype=float)
            dg = hashlib.sha1(repr(P.round(9).tolist()).encode()).hexdigest()[:12]
        except Exception as e:
            dg = type(e).__name__
        out.append('%d,%d:%s' % (n, d, dg))
print(json.dumps(out))
