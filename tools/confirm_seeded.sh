#!/bin/bash
# tools/confirm_seeded.sh <PID> <k> [checks...]  — confirm a seeded mutation in its scratch worktree /tmp/mut_<PID>
# (suite passes with the change, demo fails with it and passes without), then run our check(s) against /repo with the
# patch applied, undo it, and store the artefacts under seeded/<PID>-<k>/.
pid=$1; k=$2; shift 2; checks=${@:-$pid}
wt=${WT:-/tmp/mut_$pid}; out=/verif/seeded/${TAG:-$pid-$k}
export OMP_NUM_THREADS=1 OPENBLAS_NUM_THREADS=1 MKL_NUM_THREADS=1
set -u
cd $wt || exit 1
git checkout -q -- pygam
git apply mutation_$k.diff || { echo "patch does not apply"; exit 1; }
suite=$(/venv/bin/python -m pytest -q -p no:cacheprovider pygam/tests 2>&1 | tail -1)
PYTHONPATH=$wt /venv/bin/python demo_$k.py >/tmp/demo_with.txt 2>&1; with=$?
git checkout -q -- pygam
PYTHONPATH=$wt /venv/bin/python demo_$k.py >/tmp/demo_without.txt 2>&1; without=$?
echo "suite: $suite | demo with change: exit $with | without: exit $without"
mkdir -p $out; cp mutation_$k.diff $out/patch.diff; cp demo_$k.py $out/demo.py
cd /verif
# FULL=1: run the whole check (translator + lake build + audit), not only the streams (--no-build)
nobuild=--no-build; [ -n "${FULL:-}" ] && nobuild=
# COPY=1: run the checks against a scratch copy of /repo (when other jobs are reading /repo) instead of /repo itself
if [ -n "${COPY:-}" ]; then
  target=/tmp/priv_confirm_$$; rm -rf $target; cp -r /repo $target
  runcheck() { PYGAM_REPO=$target PYTHONPATH=/verif:$target /venv/bin/python -m harness.main $1 --tier quick $nobuild 2>&1; }
else
  target=/repo
  runcheck() { ./check $1 $nobuild 2>&1; }
fi
git -C $target apply $out/patch.diff || { echo "patch does not apply to $target"; [ -n "${COPY:-}" ] && rm -rf $target; exit 1; }
res=""
for c in $checks; do
  line=$(runcheck $c | grep -E "VIOLATION|-> OK|INFRASTRUCTURE" | grep -v KNOWN | head -2 | tr '\n' ' ')
  res="$res [$c: $line]"
done
if [ -n "${COPY:-}" ]; then rm -rf $target; else git -C /repo checkout -q -- .; fi
[ -n "${FULL:-}" ] && python3 tools/translate.py >/dev/null 2>&1   # Gen/*.lean back to /repo's source
echo "checks:$res"
echo "{\"suite\": \"$suite\", \"demo_exit_with_change\": $with, \"demo_exit_without\": $without, \"checks\": \"$(echo $res | sed 's/"/\\"/g')\"}" > $out/run.json
