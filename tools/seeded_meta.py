"""Writes seeded/<id>/meta.json from the confirmation runs (seeded/<id>/run.json) and the table below."""
import json, os
HERE = os.path.dirname(os.path.dirname(os.path.abspath(__file__)))
T = {
 'C01-1': dict(breaks='C01', what='GAM._W: sample weights lose their square root (PIRLS optimises for w**2)', needs='fit(..., weights=w) with weights other than 0/1 (non-uniform, or uniform with lam > 0); ExpectileGAM unaffected', caught_by=['C01']),
 'C01-2': dict(breaks='C01', what='LogitLink.gradient drops the `levels` numerator', needs='binomial distribution with levels > 1 (never used by the tests or LogisticGAM) and lam > 0', caught_by=['C01', 'C07']),
 'C02-1': dict(breaks='C02', what='generate_X_grid tests `if by:` instead of `is not None`', needs='a non-tensor term whose by-variable is column 0 and the default grid (no X)', caught_by=['C02']),
 'C02-2': dict(breaks='C02', what='_flatten_mesh ravels user meshes in memory order (order="K")', needs='partial_dependence(term, X=mesh tuple, meshgrid=True) with non-C-contiguous mesh arrays (transposed / Fortran order)', caught_by=['C02'], strengthened='C02 gained the user-mesh stream (C / F / transposed-view layouts) after missing it'),
 'C03-1': dict(breaks='C03', what='b_spline_basis no longer forces the symmetric Haar row of the appended point 1', needs='spline_order == 1, non-periodic, x strictly right of the knot range', caught_by=['C03']),
 'C03-2': dict(breaks='C03', what='SplineTerm.compile computes data knots only once per term (hasattr guard)', needs='a second fit / compile of the same object on data with another range, no user knots', caught_by=['C03', 'C15'], strengthened='C03 gained the recompile / refit default-knots cases after missing it (C15 caught it from the start)'),
 'C04-1': dict(breaks='C04', what='derivative penalty falls back to order n-1 when n <= derivative', needs='n_splines <= derivative order (n_splines = 2 with order <= 1 at the default d = 2, or custom d)', caught_by=['C04']),
 'C04-2': dict(breaks='C04', what='tensor penalty lifting skips the Kronecker factor of 1-coefficient marginals (drops their lam)', needs='tensor term with a linear marginal in a non-first position and lam != 1', caught_by=['C04']),
 'C05-1': dict(breaks='C05', what='b_spline_basis no longer forces the symmetric Haar row of the appended point 1 (same site as C03-1, found independently)', needs='constrained spline of order 1 evaluated right of the knot range', caught_by=['C05', 'C03']),
 'C05-2': dict(breaks='C05', what='tensor marginal constraint matrix built once from the mean coefficient slice', needs='te(...) with a constrained marginal whose coefficient slices violate the constraint in different places', caught_by=['C05']),
 'C06-1': dict(breaks='C06', what='Distribution.phi passes weights to V as well (weights counted twice)', needs='unknown scale (normal / gamma / inv_gauss, scale=None) and non-unit weights', caught_by=['C06', 'C08']),
 'C06-2': dict(breaks='C06', what='BinomialDist.V drops the `levels` factor', needs='BinomialDist(levels=k), k > 1', caught_by=['C06']),
}
for k, v in T.items():
    d = os.path.join(HERE, 'seeded', k)
    if not os.path.isdir(d):
        continue
    run = json.load(open(os.path.join(d, 'run.json'))) if os.path.exists(os.path.join(d, 'run.json')) else {}
    meta = dict(id=k, property=v['breaks'], change=v['what'], needs_to_manifest=v['needs'], produced_by='fresh sub-agent given only the property text and a scratch worktree',
                confirmed=dict(existing_suite_with_change=run.get('suite'), demo_exit_with_change=run.get('demo_exit_with_change'), demo_exit_without=run.get('demo_exit_without')),
                checks_run=run.get('checks'), caught_by=v['caught_by'], strengthened=v.get('strengthened'),
                how='tools/confirm_seeded.sh %s %s  (applies patch.diff to /repo, runs ./check, then git -C /repo checkout -- .)' % tuple(k.split('-')))
    json.dump(meta, open(os.path.join(d, 'meta.json'), 'w'), indent=1)
print('ok')
