"""Writes seeded/<id>/meta.json from the confirmation runs (seeded/<id>/run.json) and the table below."""
import json, os
HERE = os.path.dirname(os.path.dirname(os.path.abspath(__file__)))
T = {
 'C01-1': dict(breaks='C01', what='GAM._W: sample weights lose their square root (PIRLS optimises for w**2)', needs='fit(..., weights=w) with weights other than 0/1 (non-uniform, or uniform with lam > 0); ExpectileGAM unaffected', caught_by=['C01']),
 'C01-2': dict(breaks='C01', what='LogitLink.gradient drops the `levels` numerator', needs='binomial distribution with levels > 1 (never used by the tests or LogisticGAM) and lam > 0', caught_by=['C01', 'C07']),
 'C02-1': dict(breaks='C02', what='generate_X_grid tests `if by:` instead of `is not None`', needs='a non-tensor term whose by-variable is column 0 and the default grid (no X)', caught_by=['C02']),
 'C02-2': dict(breaks='C02', what='_flatten_mesh ravels user meshes in memory order (order="K")', needs='partial_dependence(term, X=mesh tuple, meshgrid=True) with non-C-contiguous mesh arrays (transposed / Fortran order)', caught_by=['C02'], strengthened='C02 gained the user-mesh stream (C / F / transposed-view layouts) after missing it'),
 'C03-1': dict(breaks='C03', what='b_spline_basis no longer forces the symmetric Haar row of the appended point 1', needs='spline_order == 1, non-periodic, x strictly right of the knot range', caught_by=['C03']),
 'C03-2': dict(breaks='C03', what='SplineTerm.compile computes data knots only once per term (hasattr guard)', needs='a second fit / compile of the same object on data with another range, no user knots', caught_by=['C03', 'C15'], strengthened='C03 gained the recompile / refit default-knots cases after missing it (C15 caught it from the start)'),
 'C04-1': dict(breaks='C04', what='derivative penalty falls back to order n-1 when n <= derivative', needs='n_splines <= derivative order (n_splines = 2 with order <= 1 at the default d = 2, or custom d)', caught_by=['C04']),
 'C04-2': dict(breaks='C04', what='tensor penalty lifting skips the Kronecker factor of 1-coefficient marginals (drops their lam)', needs='tensor term with a linear marginal in a non-first position and lam != 1', caught_by=['C04']),
 'C05-1': dict(breaks='C05', what='b_spline_basis no longer forces the symmetric Haar row of the appended point 1 (same site as C03-1, found independently)', needs='constrained spline of order 1 evaluated right of the knot range', caught_by=['C05', 'C03']),
 'C05-2': dict(breaks='C05', what='tensor marginal constraint matrix built once from the mean coefficient slice', needs='te(...) with a constrained marginal whose coefficient slices violate the constraint in different places', caught_by=['C05']),
 'C06-1': dict(breaks='C06', what='Distribution.phi passes weights to V as well (weights counted twice)', needs='unknown scale (normal / gamma / inv_gauss, scale=None) and non-unit weights', caught_by=['C06', 'C08']),
 'C06-2': dict(breaks='C06', what='BinomialDist.V drops the `levels` factor', needs='BinomialDist(levels=k), k > 1', caught_by=['C06']),
 'C07-1': dict(breaks='C07', what='LogitLink.gradient drops the `levels` numerator (same as C01-2, found independently)', needs='logit link with BinomialDist(levels != 1)', caught_by=['C07']),
 'C07-2': dict(breaks='C07', what='LogLink.link maps non-positive values to -inf ("safe log"), defeating check_y\'s NaN-based domain test', needs='a log-link model given a negative target', caught_by=['C07', 'C11']),
 'C09-1': dict(breaks='C09', what='normal / t critical values memoised on the model, keyed on (q, known_scale) but not on n - edof; the cache survives fit()', needs='history: fit (unknown scale), request level q, refit the same object with another n or lam, request q again', caught_by=['C09', 'C15'], strengthened='C09 gained the iv.history stream (refit histories compared with the model at the current statistics) after missing it; C15 flagged the new state from the start'),
 'C09-2': dict(breaks='C09', what='block-wise variance of the linear predictor for X with more than 10000 rows drops the last partial block', needs='a query with > 10000 rows that is not a multiple of 10000', caught_by=['C09'], strengthened='C09 gained the iv.large stream (sizes 12345, 25001 and literal-seeded sizes; rows compared with the same rows queried alone) after missing it'),
 'C11-1': dict(breaks='C11', what='check_array skips the finiteness scan unless the dtype read BEFORE the float cast is float', needs='NaN / Inf arriving in an object-dtype array, a list with None, or numeric strings, on an entry point that validates only once (partial_dependence X, deviance_residuals / loglikelihood / score y)', caught_by=['C11'], strengthened='C11 gained object / None-list / numeric-string containers in the quick tier after missing it (which also exposed a genuine PoissonGAM.fit TypeError, repaired in 40fb32b)'),
 'C11-2': dict(breaks='C11', what='gridsearch no longer checks the width of X against the fitted model (revert of a repair)', needs='gridsearch on an already fitted model with X of another width (candidates\' ValueErrors are swallowed)', caught_by=['C11']),
 'C16-1': dict(breaks='C16', what='tensor_product computed block-wise above 2**23 elements drops the last partial row block', needs='a tensor block with n_rows * m_a * m_b > 2**23 and n_rows not a multiple of the block size', caught_by=['C16'], strengthened='C16 gained the columns.large stream (9.6M-element tensor block and literal-seeded sizes; rows compared with rows built alone) after missing it'),
 'C16-2': dict(breaks='C16', what='by-variable handling moved to a helper that tests `if not self.by`', needs='a spline or tensor term whose by-variable is feature 0', caught_by=['C16', 'C02']),
 'C20-1': dict(breaks='C20', what='tolerance floored at sqrt(eps) inside _pirls', needs='tol below 1.5e-8 on a model whose diffs plateau between tol and sqrt(eps) (Logistic / Poisson / Gamma)', caught_by=['C20']),
 'C20-2': dict(breaks='C20', what='callback dispatch refactor drops hook results that are None', needs='a user callback whose hook returns None on some or all iterations', caught_by=['C20'], strengthened='C20 gained None-returning user callbacks (always / on even iterations; start, end, both) after missing it'),
}
for k, v in T.items():
    d = os.path.join(HERE, 'seeded', k)
    if not os.path.isdir(d):
        continue
    run = json.load(open(os.path.join(d, 'run.json'))) if os.path.exists(os.path.join(d, 'run.json')) else {}
    meta = dict(id=k, property=v['breaks'], change=v['what'], needs_to_manifest=v['needs'], produced_by='fresh sub-agent given only the property text and a scratch worktree',
                confirmed=dict(existing_suite_with_change=run.get('suite'), demo_exit_with_change=run.get('demo_exit_with_change'), demo_exit_without=run.get('demo_exit_without')),
                checks_run=run.get('checks'), caught_by=v['caught_by'], strengthened=v.get('strengthened'),
                how='tools/confirm_seeded.sh %s %s  (applies patch.diff to /repo, runs ./check, then git -C /repo checkout -- .)' % tuple(k.split('-')))
    json.dump(meta, open(os.path.join(d, 'meta.json'), 'w'), indent=1)
print('ok')
