#!/bin/sh
# tools/run_all.sh [tier]  — run every registered check once with the current VERIF_SEED; prints one line per check
cd "$(dirname "$0")/.."
tier=${1:-quick}
for p in $(python3 -c "import json; print(' '.join(c['property_id'] for c in json.load(open('MANIFEST.json'))['checks']))"); do
  start=$(date +%s)
  out=$(./check $p --tier $tier 2>&1); rc=$?
  echo "$p rc=$rc $(( $(date +%s) - start ))s $(echo "$out" | grep -E 'VIOLATION|INFRA' | grep -v KNOWN | head -2 | tr '\n' ' ')"
done
